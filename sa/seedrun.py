"""Runs the checks against seeded patches (self-test helper, never a deciding step).

usage: python -m sa.seedrun [--pids C01,C02] <dir-or-patch>...
For every patch.diff found, builds the patched world in memory and reports, per property, the
violation keys that are new with respect to the clean tree.
"""

from __future__ import annotations

import glob
import importlib
import os
import sys

from .history import world_with_patch
from .loader import AnalysisError, World
from .run import ALL_IDS, run_property


def implemented() -> list[str]:
    out = []
    for pid in ALL_IDS:
        if os.path.exists(os.path.join(os.path.dirname(__file__), 'props', f'{pid.lower()}.py')):
            out.append(pid)
    return out


def main(argv: list[str]) -> int:
    pids = implemented()
    paths = []
    it = iter(argv)
    for a in it:
        if a == '--pids':
            pids = next(it).split(',')
        elif os.path.isdir(a):
            paths.extend(sorted(glob.glob(os.path.join(a, '**', 'patch.diff'), recursive=True)))
        else:
            paths.append(a)
    import multiprocessing as mp

    clean = World('/repo')
    global _BASE, _PIDS
    _PIDS = pids
    _BASE = {}
    for pid in pids:
        ck = run_property(pid, clean)
        _BASE[pid] = ({o.key for o in ck.violations()}, {o.key for o in ck.incompletes()})
    with mp.get_context('fork').Pool(min(14, os.cpu_count() or 4)) as pool:
        for text in pool.imap(_one, paths):
            print(text, flush=True)
    return 0


_BASE: dict = {}
_PIDS: list = []


def _one(patch: str) -> str:
    label = patch
    base, pids = _BASE, _PIDS
    try:
        world = world_with_patch('/repo', patch)
    except AnalysisError as exc:
        return f'{label}: CANNOT APPLY ({exc})'
    hits = []
    incs = []
    for pid in pids:
        try:
            ck = run_property(pid, world)
        except AnalysisError as exc:
            incs.append(f'{pid}: ANALYSIS-ERROR {exc}')
            continue
        except Exception as exc:  # noqa: BLE001
            incs.append(f'{pid}: CRASH {type(exc).__name__}: {exc}')
            continue
        new = sorted({o.key for o in ck.violations()} - base[pid][0])
        newinc = sorted({o.key for o in ck.incompletes()} - base[pid][1])
        floors = ck.floor_failures()
        if new:
            hits.append((pid, new))
        if newinc or floors:
            incs.append(f'{pid}: incomplete {newinc[:2]} floors {floors[:2]}')
    status = 'CAUGHT' if hits else ('INCOMPLETE' if incs else 'MISSED')
    lines = [f'{label}: {status}']
    for pid, new in hits:
        for k in new[:3]:
            lines.append(f'     {pid}: {k[:200]}')
    for i in incs:
        lines.append(f'     ~ {i[:220]}')
    return '\n'.join(lines)


if __name__ == '__main__':
    sys.exit(main(sys.argv[1:]))

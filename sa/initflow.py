"""E7 - definite assignment and escape analysis for constructors of equinox module classes.

Equinox flattens a bound method such as ``self.mv`` as a pytree of *all* dataclass fields of
``self``.  A module must therefore be fully initialised before ``self`` (or a bound method of
it) is handed to JAX inside ``__init__``; more generally, any method called on ``self`` during
construction may only read fields that are already assigned.

For a class ``cls`` the analysis walks every path of the resolved ``__init__`` and keeps the
set of definitely assigned fields.  Calls are summarised interprocedurally:
``reads(m)`` = fields of self that method ``m`` (and what it calls on self) reads, or ALL when
self escapes to an external callable; ``writes(init)`` = fields assigned on every normal path.
"""

from __future__ import annotations

import ast
from dataclasses import dataclass, field

from .classes import ClassInfo, ClassTable
from .loader import World, dotted, module_of, qualname, site
from .paths import Path, function_paths

ALL = '*'


@dataclass
class Problem:
    node: ast.AST
    kind: str  # 'read-before-assign' | 'escape' | 'undeclared-store' | 'unassigned-field'
    detail: str
    fields: tuple = ()


@dataclass
class InitReport:
    cls: ClassInfo
    init: ast.FunctionDef | None
    problems: list[Problem] = field(default_factory=list)
    escapes: list[ast.AST] = field(default_factory=list)
    stores: int = 0
    calls_checked: int = 0
    assigned_on_exit: set = field(default_factory=set)


class InitFlow:
    def __init__(self, world: World, table: ClassTable):
        self.world = world
        self.table = table
        self._reads: dict = {}
        self._writes: dict = {}
        self.escape_sites: dict = {}

    # ------------------------------------------------------------------ helpers
    def field_names(self, cls: ClassInfo) -> set[str]:
        return {f.name for f in self.table.fields(cls)}

    def required_fields(self, cls: ClassInfo) -> set[str]:
        return {f.name for f in self.table.fields(cls) if not f.has_default}

    def _self_name(self, fn: ast.AST) -> str | None:
        args = fn.args.args  # type: ignore[attr-defined]
        return args[0].arg if args else None

    def _is_external(self, module, func: ast.AST) -> str | None:
        q = self.world.qualify(module, func)
        if q is None:
            return None
        if self.world.lookup(q) is not None:
            return None
        head = q.split('.')[0]
        if head in ('jax', 'equinox', 'lineax', 'numpy', 'functools'):
            return q
        return None

    # ------------------------------------------------------------------ reads summary
    def reads(self, cls: ClassInfo, fn: ast.AST, depth: int = 0) -> set[str]:
        """Fields of self (declared on cls) that executing fn with self: cls may read; ALL on escape."""
        key = (id(fn), cls.qual)
        if key in self._reads:
            return self._reads[key]
        self._reads[key] = set()  # recursion guard
        out: set[str] = set()
        s = self._self_name(fn)
        fields = self.field_names(cls)
        module = module_of(fn)
        if isinstance(fn, ast.FunctionDef) and any(self.world.qualify(module, d) in ('staticmethod', 'classmethod') for d in fn.decorator_list):
            s = None
        if s is None or depth > 6:
            self._reads[key] = out
            return out
        body = fn.body if isinstance(fn.body, list) else [fn.body]  # type: ignore[attr-defined]
        for top in body:
            for node in ast.walk(top):
                if isinstance(node, ast.Attribute) and isinstance(node.value, ast.Name) and node.value.id == s and isinstance(node.ctx, ast.Load):
                    if node.attr in fields:
                        out.add(node.attr)
                    else:
                        r = self.table.resolve(cls, node.attr)
                        if r is not None and isinstance(r.node, (ast.FunctionDef, ast.Lambda)):
                            par = getattr(node, '_parent', None)
                            called = isinstance(par, ast.Call) and par.func is node
                            if r.is_property or called:
                                out |= self.reads(cls, r.node, depth + 1)
                            else:
                                # a bound method used as a value: if it goes to an external callable, self escapes
                                if isinstance(par, ast.Call) and self._is_external(module, par.func):
                                    out.add(ALL)
                                    self.escape_sites.setdefault(key, []).append(par)
                                else:
                                    out |= self.reads(cls, r.node, depth + 1)
                elif isinstance(node, ast.Call):
                    ext = self._is_external(module, node.func)
                    passes_self = any(isinstance(a, ast.Name) and a.id == s for a in node.args) or any(
                        isinstance(k.value, ast.Name) and k.value.id == s for k in node.keywords
                    )
                    if passes_self:
                        if ext:
                            out.add(ALL)
                            self.escape_sites.setdefault(key, []).append(node)
                        else:
                            q = self.world.qualify(module, node.func)
                            target = self.world.lookup(q) if q else None
                            if isinstance(target, ast.FunctionDef) and target.name != '__init__':
                                out |= self.reads(cls, target, depth + 1)
                    # super().m(...)
                    f = node.func
                    if isinstance(f, ast.Attribute) and isinstance(f.value, ast.Call) and isinstance(f.value.func, ast.Name) and f.value.func.id == 'super' and f.attr != '__init__':
                        owner = self._owner_of(fn)
                        if owner is not None and owner in cls.mro:
                            for k in cls.mro[cls.mro.index(owner) + 1:]:
                                if isinstance(k.own.get(f.attr), ast.FunctionDef):
                                    out |= self.reads(cls, k.own[f.attr], depth + 1)
                                    break
        self._reads[key] = out
        return out

    def _owner_of(self, fn: ast.AST) -> ClassInfo | None:
        par = getattr(fn, '_parent', None)
        if isinstance(par, ast.ClassDef):
            return self.table.find(f'{module_of(fn).name}.{par.name}')
        return None

    # ------------------------------------------------------------------ constructor analysis
    def analyse(self, cls: ClassInfo) -> InitReport:
        r = self.table.resolve(cls, '__init__')
        rep = InitReport(cls, r.node if r is not None and isinstance(r.node, ast.FunctionDef) else None)
        if rep.init is None:
            rep.assigned_on_exit = set(self.field_names(cls))  # dataclass-generated constructor
            return rep
        final = self._run_init(cls, rep.init, set(), rep, 0)
        if final is not None:
            rep.assigned_on_exit = final
            missing = self.required_fields(cls) - final
            for m in sorted(missing):
                rep.problems.append(Problem(rep.init, 'unassigned-field', f'field {m} is not assigned on every non-raising path of the constructor', (m,)))
        return rep

    def _run_init(self, cls: ClassInfo, fn: ast.FunctionDef, assigned_in: set[str], rep: InitReport, depth: int) -> set[str] | None:
        """Walks every path; reports problems; returns the fields assigned on *all* normal paths."""
        if depth > 5:
            return set(assigned_in)
        s = self._self_name(fn)
        module = module_of(fn)
        fields = self.field_names(cls)
        result: set[str] | None = None
        seen_problem: set = set()
        for path in function_paths(fn):
            if path.exit == 'raise':
                continue
            assigned = set(assigned_in)
            for ev in path.events:
                nodes: list[ast.AST] = []
                if ev[0] == 'stmt':
                    nodes = [ev[1]]
                elif ev[0] == 'cond':
                    nodes = [ev[1]]
                elif ev[0] == 'iter':
                    nodes = [ev[1].iter]
                elif ev[0] == 'with':
                    nodes = [i.context_expr for i in ev[1].items]
                for top in nodes:
                    self._visit(cls, fn, s, module, fields, top, assigned, rep, depth, seen_problem)
            if path.exit == 'return' and path.node is not None and getattr(path.node, 'value', None) is not None:
                self._visit(cls, fn, s, module, fields, path.node.value, assigned, rep, depth, seen_problem)
            result = assigned if result is None else (result & assigned)
        return result

    def _visit(self, cls, fn, s, module, fields, top: ast.AST, assigned: set[str], rep: InitReport, depth: int, seen: set) -> None:
        # evaluation order: value first, then the store
        stores: list[str] = []
        if isinstance(top, (ast.Assign, ast.AnnAssign, ast.AugAssign)):
            targets = top.targets if isinstance(top, ast.Assign) else [top.target]
            for t in targets:
                for n in ast.walk(t):
                    if isinstance(n, ast.Attribute) and isinstance(n.value, ast.Name) and n.value.id == s and isinstance(n.ctx, ast.Store):
                        stores.append(n.attr)
                        if n.attr not in fields and (id(n), 'u') not in seen:
                            seen.add((id(n), 'u'))
                            rep.problems.append(Problem(n, 'undeclared-store', f'self.{n.attr} is assigned but {cls.name} declares no such field', (n.attr,)))
            value = top.value
            scan = [value] if value is not None else []
        else:
            scan = [top]
        for root in scan:
            for node in self._calls_in_order(root):
                self._check_use(cls, fn, s, module, fields, node, assigned, rep, depth, seen)
        for a in stores:
            assigned.add(a)
            rep.stores += 1

    def _calls_in_order(self, root: ast.AST):
        # post-order: arguments before the call itself
        out = []

        def rec(n: ast.AST) -> None:
            if isinstance(n, (ast.Lambda, ast.FunctionDef)):
                return  # bodies of closures are not executed here
            for c in ast.iter_child_nodes(n):
                rec(c)
            if isinstance(n, (ast.Call, ast.Attribute)):
                out.append(n)

        rec(root)
        return out

    def _check_use(self, cls, fn, s, module, fields, node: ast.AST, assigned: set[str], rep: InitReport, depth: int, seen: set) -> None:
        def need(req: set[str], what: str, site_node: ast.AST) -> None:
            rep.calls_checked += 1
            if ALL in req:
                missing = self.required_fields(cls) - assigned
                if (id(site_node), 'e') not in seen:
                    rep.escapes.append(site_node)
                if missing and (id(site_node), 'e') not in seen:
                    seen.add((id(site_node), 'e'))
                    rep.problems.append(Problem(site_node, 'escape', f'{what} hands self (or a bound method of self) to JAX while {sorted(missing)} '
                                                f'{"is" if len(missing) == 1 else "are"} still unassigned: flattening the module reads every field', tuple(sorted(missing))))
                seen.add((id(site_node), 'e'))
            else:
                missing = (req & fields) - assigned
                if missing and (id(site_node), 'r') not in seen:
                    seen.add((id(site_node), 'r'))
                    rep.problems.append(Problem(site_node, 'read-before-assign', f'{what} reads {sorted(missing)} before the constructor assigns it', tuple(sorted(missing))))

        if isinstance(node, ast.Attribute):
            if isinstance(node.value, ast.Name) and node.value.id == s and isinstance(node.ctx, ast.Load):
                par = getattr(node, '_parent', None)
                if node.attr in fields:
                    if node.attr not in assigned and (id(node), 'r') not in seen:
                        seen.add((id(node), 'r'))
                        rep.problems.append(Problem(node, 'read-before-assign', f'self.{node.attr} is read before it is assigned', (node.attr,)))
                    return
                r = self.table.resolve(cls, node.attr)
                if r is not None and isinstance(r.node, (ast.FunctionDef, ast.Lambda)):
                    called = isinstance(par, ast.Call) and par.func is node
                    if r.is_property:
                        need(self.reads(cls, r.node), f'property self.{node.attr}', node)
                    elif not called:
                        if isinstance(par, ast.Call) and self._is_external(module, par.func):
                            need({ALL}, f'{ast.unparse(par)[:50]}', par)
            return
        assert isinstance(node, ast.Call)
        f = node.func
        # super().__init__(...) / Base.__init__(self, ...)
        if isinstance(f, ast.Attribute) and f.attr == '__init__':
            target_cls = None
            if isinstance(f.value, ast.Call) and isinstance(f.value.func, ast.Name) and f.value.func.id == 'super':
                owner = self._owner_of(fn)
                if owner is not None and owner in cls.mro:
                    for k in cls.mro[cls.mro.index(owner) + 1:]:
                        if isinstance(k.own.get('__init__'), ast.FunctionDef):
                            target_cls = k
                            break
            else:
                q = self.world.qualify(module, f.value)
                target_cls = self.table.find(q) if q else None
                if target_cls is not None and not isinstance(target_cls.own.get('__init__'), ast.FunctionDef):
                    r = self.table.resolve(target_cls, '__init__')
                    target_cls = r.owner if r is not None and isinstance(r.node, ast.FunctionDef) else None
            if target_cls is not None:
                sub = self._run_init(cls, target_cls.own['__init__'], set(assigned), rep, depth + 1)
                if sub is not None:
                    assigned |= sub
            return
        # self.m(...)
        if isinstance(f, ast.Attribute) and isinstance(f.value, ast.Name) and f.value.id == s:
            r = self.table.resolve(cls, f.attr)
            if r is not None and isinstance(r.node, (ast.FunctionDef, ast.Lambda)):
                need(self.reads(cls, r.node), f'self.{f.attr}()', node)
            return
        passes_self = any(isinstance(a, ast.Name) and a.id == s for a in node.args) or any(isinstance(k.value, ast.Name) and k.value.id == s for k in node.keywords)
        passes_bound = any(
            isinstance(a, ast.Attribute) and isinstance(a.value, ast.Name) and a.value.id == s and a.attr not in fields for a in node.args
        )
        if passes_self or passes_bound:
            ext = self._is_external(module, f)
            if ext:
                need({ALL}, f'{ext}(...)', node)
            elif passes_self:
                q = self.world.qualify(module, f)
                target = self.world.lookup(q) if q else None
                if isinstance(target, ast.FunctionDef):
                    need(self.reads(cls, target), f'{ast.unparse(f)}(self)', node)

"""E0 - normaliser: undoes helper extraction and class-hierarchy moves before any rule looks at the code.

The rules of this framework were written against the functions and classes of the tree they were developed on
(`known_names.json`, frozen by ``python -m sa.normalise --freeze``).  A later tree may move code without changing
what it does: part of a function extracted into a new private helper, a method pulled up into a new intermediate
class or mixin, a template method with per-class hooks.  Inlining is semantics-preserving, so before analysis

1. methods defined in classes the rules do not know are copied down into the nearest known subclasses;
2. a known method that calls a hook the rules do not know, overridden differently below, is specialised (copied)
   into the subclasses whose hook differs;
3. every call of a function or method the rules do not know is inlined at the call site (expression-level when the
   callee is a single return, statement-level otherwise, hoisting the call out of a larger expression when needed;
   a bound-method reference becomes a nested function).

Known functions are left alone, so on the tree the rules were written for nothing changes.  The result is a new
`World` whose trees are copies; inlined nodes keep the module and line of the code they came from, so reports
still point at real source.  Nothing here decides a property; a defect inside a new helper is analysed in the
context of its callers exactly as if it had been written there.
"""

from __future__ import annotations

import ast
import json
import os
import sys
from typing import Any

from .classes import ClassInfo, ClassTable
from .loader import AnalysisError, Incomplete, Module, World, _set_parents

KNOWN_FILE = os.path.join(os.path.dirname(__file__), 'known_names.json')
MAX_ROUNDS = 6


class NotInlinable(Exception):
    pass


# ---------------------------------------------------------------------------------------------- known names
def freeze(world: World) -> dict:
    funcs, classes = set(), set()
    for module in world.modules.values():
        for node in module.tree.body:
            if isinstance(node, (ast.FunctionDef, ast.AsyncFunctionDef)):
                funcs.add(f'{module.name}.{node.name}')
            elif isinstance(node, ast.ClassDef):
                classes.add(f'{module.name}.{node.name}')
                for sub in node.body:
                    if isinstance(sub, (ast.FunctionDef, ast.AsyncFunctionDef)):
                        funcs.add(f'{module.name}.{node.name}.{sub.name}')
    attrs = set()
    for module in world.modules.values():
        for node in ast.walk(module.tree):
            if isinstance(node, (ast.Assign, ast.AnnAssign, ast.AugAssign)):
                targets = node.targets if isinstance(node, ast.Assign) else [node.target]
                for t in targets:
                    for x in ast.walk(t):
                        if isinstance(x, ast.Attribute) and isinstance(x.ctx, ast.Store):
                            attrs.add(x.attr)
                        elif isinstance(x, ast.Name) and isinstance(x.ctx, ast.Store) and isinstance(getattr(node, '_parent', None), (ast.Module, ast.ClassDef)):
                            attrs.add(x.id)
    return {'functions': sorted(funcs), 'classes': sorted(classes), 'attributes': sorted(attrs)}


_KNOWN: dict | None = None


def load_known() -> dict:
    global _KNOWN
    if _KNOWN is None:
        with open(KNOWN_FILE, encoding='utf-8') as f:
            data = json.load(f)
        _KNOWN = {'functions': set(data['functions']), 'classes': set(data['classes']), 'attributes': set(data.get('attributes', []))}
    return _KNOWN


# ---------------------------------------------------------------------------------------------- cloning
def clone(node: Any, omod: str) -> Any:
    """Structural copy without the loader's back links; every node remembers the module it was written in."""
    if isinstance(node, list):
        return [clone(x, omod) for x in node]
    if not isinstance(node, ast.AST):
        return node
    new = type(node)()
    for f in node._fields:
        if hasattr(node, f):
            setattr(new, f, clone(getattr(node, f), omod))
    for a in ('lineno', 'col_offset', 'end_lineno', 'end_col_offset'):
        if hasattr(node, a):
            setattr(new, a, getattr(node, a))
    new._omod = getattr(node, '_omod', None) or omod  # type: ignore[attr-defined]
    return new


def world_from_trees(base: World, trees: dict[str, ast.Module]) -> World:
    w = World.__new__(World)
    w.root = base.root
    w.overrides = dict(base.overrides)
    w.modules = {}
    for name, m in base.modules.items():
        w.modules[name] = Module(name=m.name, relpath=m.relpath, source=m.source, tree=trees[name])
    for name, module in w.modules.items():
        _set_parents(module.tree, module)
        for node in ast.walk(module.tree):
            om = getattr(node, '_omod', None)
            if om and om != name and om in w.modules:
                node._module = w.modules[om]  # type: ignore[attr-defined]
    for module in w.modules.values():
        w._collect(module)
    w.normalised = True  # type: ignore[attr-defined]
    return w


# ---------------------------------------------------------------------------------------------- helpers
def _after_docstring(cls: ast.ClassDef) -> int:
    b = cls.body
    return 1 if b and isinstance(b[0], ast.Expr) and isinstance(b[0].value, ast.Constant) and isinstance(b[0].value.value, str) else 0


def _has_own_return(st: ast.AST) -> bool:
    """A return statement of the function st belongs to (not of a nested function or lambda)."""
    stack = [st]
    while stack:
        n = stack.pop()
        if isinstance(n, ast.Return):
            return True
        for c in ast.iter_child_nodes(n):
            if not isinstance(c, (ast.FunctionDef, ast.AsyncFunctionDef, ast.Lambda, ast.ClassDef)):
                stack.append(c)
    return False


def _abstract_body(fn: ast.AST) -> bool:
    if not isinstance(fn, ast.FunctionDef):
        return False
    body = _docless(fn.body)
    if not body:
        return True
    if len(body) == 1:
        st = body[0]
        if isinstance(st, ast.Pass) or (isinstance(st, ast.Expr) and isinstance(st.value, ast.Constant) and st.value.value is Ellipsis):
            return True
        if isinstance(st, ast.Raise) and 'NotImplementedError' in ast.unparse(st):
            return True
    return False


def _docless(body: list[ast.stmt]) -> list[ast.stmt]:
    if body and isinstance(body[0], ast.Expr) and isinstance(body[0].value, ast.Constant) and isinstance(body[0].value.value, str):
        return body[1:]
    return body


def _atomic(e: ast.AST) -> bool:
    while isinstance(e, ast.Attribute):
        e = e.value
    return isinstance(e, (ast.Name, ast.Constant))


def _names_bound(fn: ast.AST) -> set[str]:
    out = set()
    for n in ast.walk(fn):
        if isinstance(n, ast.Name) and isinstance(n.ctx, (ast.Store, ast.Del)):
            out.add(n.id)
        elif isinstance(n, (ast.FunctionDef, ast.AsyncFunctionDef)) and n is not fn:
            out.add(n.name)
        elif isinstance(n, ast.arg):
            out.add(n.arg)
    return out


def _names_used(fn: ast.AST) -> set[str]:
    out = set()
    for n in ast.walk(fn):
        if isinstance(n, ast.Name):
            out.add(n.id)
        elif isinstance(n, ast.arg):
            out.add(n.arg)
        elif isinstance(n, (ast.FunctionDef, ast.AsyncFunctionDef)):
            out.add(n.name)
    return out


def _has(node: ast.AST, kinds: tuple) -> bool:
    return any(isinstance(n, kinds) for n in ast.walk(node))


def _uses_super(fn: ast.AST) -> bool:
    return any(isinstance(n, ast.Call) and isinstance(n.func, ast.Name) and n.func.id == 'super' for n in ast.walk(fn))


def _decorators(world: World, fn: ast.FunctionDef) -> set[str]:
    out = set()
    for d in fn.decorator_list:
        name = d.id if isinstance(d, ast.Name) else (d.attr if isinstance(d, ast.Attribute) else None)
        out.add(name or '?')
    return out


class _Subst(ast.NodeTransformer):
    """Replaces loads of given names by expressions and renames the other bound names."""

    def __init__(self, exprs: dict[str, ast.AST], renames: dict[str, str], omod: str):
        self.exprs, self.renames, self.omod = exprs, renames, omod

    def visit_Name(self, node: ast.Name) -> ast.AST:
        if node.id in self.exprs and isinstance(node.ctx, ast.Load):
            return clone(self.exprs[node.id], getattr(self.exprs[node.id], '_omod', None) or self.omod)
        if node.id in self.renames:
            node.id = self.renames[node.id]
        return node

    def visit_arg(self, node: ast.arg) -> ast.AST:
        if node.arg in self.renames:
            node.arg = self.renames[node.arg]
        return node

    def visit_FunctionDef(self, node: ast.FunctionDef) -> ast.AST:
        if node.name in self.renames:
            node.name = self.renames[node.name]
        self.generic_visit(node)
        return node


class _Unroll(ast.NodeTransformer):
    """(e for p in v) / [e for p in v] over a record variable v -> the tuple of e for each field of v."""

    def __init__(self, var: str, fields: list[str]):
        self.var, self.fields = var, fields

    def _unroll(self, node):
        if len(node.generators) == 1 and not node.generators[0].ifs and isinstance(node.generators[0].iter, ast.Name) and node.generators[0].iter.id == self.var \
                and isinstance(node.generators[0].target, ast.Name):
            p = node.generators[0].target.id
            omod = getattr(node, '_omod', '')
            elts = []
            for f in self.fields:
                comp = ast.Attribute(value=ast.Name(id=self.var, ctx=ast.Load()), attr=f, ctx=ast.Load())
                elts.append(_Subst({p: comp}, {}, omod).visit(clone(node.elt, omod)))
            return ast.Tuple(elts=elts, ctx=ast.Load())
        return node

    def visit_GeneratorExp(self, node):
        self.generic_visit(node)
        return self._unroll(node)

    def visit_ListComp(self, node):
        self.generic_visit(node)
        return self._unroll(node)


class _Beta(ast.NodeTransformer):
    """(lambda a, b: body)(x, y) -> body[a := x, b := y] for positional calls of a lambda literal."""

    def visit_Call(self, node: ast.Call) -> ast.AST:
        self.generic_visit(node)
        f = node.func
        if isinstance(f, ast.Lambda) and not node.keywords and not any(isinstance(a, ast.Starred) for a in node.args):
            a = f.args
            params = [p.arg for p in a.posonlyargs + a.args]
            if len(params) == len(node.args) and not a.vararg and not a.kwarg and not a.kwonlyargs and not a.defaults:
                counts: dict[str, int] = {}
                for n in ast.walk(f.body):
                    if isinstance(n, ast.Name):
                        counts[n.id] = counts.get(n.id, 0) + 1
                if all(_atomic(arg) or isinstance(arg, ast.Subscript) or counts.get(p, 0) <= 1 for p, arg in zip(params, node.args)):
                    omod = getattr(f, '_omod', None) or getattr(node, '_omod', '')
                    return _Subst(dict(zip(params, node.args)), {}, omod).visit(clone(f.body, omod))
        return node


# ---------------------------------------------------------------------------------------------- the normaliser
class Normaliser:
    def __init__(self, world: World, functions_only: bool = False):
        self.world = world
        self.functions_only = functions_only
        self.table = None if functions_only else ClassTable(world)
        base_known = load_known()
        self.known = {'functions': set(base_known['functions']), 'classes': set(base_known['classes'])}
        # functions put back under a known name keep their original qualified name known too (calls written against it
        # inside moved code must not be inlined)
        extra = getattr(world, 'known_extra', set())
        if extra:
            self.known = {'functions': set(self.known['functions']) | set(extra), 'classes': self.known['classes']}
        self.known_extra: set[str] = set(extra)
        self.known_method_names = {q.rsplit('.', 1)[-1] for q in self.known['functions']}
        self.counter = 0
        self.failed: set[int] = set()
        self.log: list[str] = []

    # -------------------------------------------------------------- what is unknown
    def func_unknown(self, qual: str) -> bool:
        return qual not in self.known['functions']

    def class_unknown(self, cls: ClassInfo) -> bool:
        return cls.qual not in self.known['classes']

    def anything_unknown(self) -> bool:
        fz = freeze(self.world)
        return bool(set(fz['functions']) - self.known['functions']) or bool(set(fz['classes']) - self.known['classes'])

    # -------------------------------------------------------------- driver
    def run(self) -> World:
        world, table = self.world, self.table
        trees = {name: clone(m.tree, name) for name, m in world.modules.items()}
        if not self.anything_unknown():
            changed = sum(canonical_idioms(tree) for tree in trees.values())
            return world_from_trees(world, trees) if changed else world
        if self.functions_only:
            # phase A0: `name = staticmethod(f)` in a class body, for a method name the rules know and a module-level
            # function f they do not: the method is written out again and calls of f are addressed to it
            self._materialise_aliases(trees)
            # phase A0b: a module-level function the rules know that now lives in another module (imported back under
            # its old name, or simply moved with its name) is put back where they expect it
            self._relocate_functions(trees)
            # phase A: calls of unknown module-level functions, everywhere (class decorators included): needs no class table
            self.contexts = {}
            for name, tree in trees.items():
                self._inline_module(tree, name)
            out = world_from_trees(world, trees)
            out.normalised = False  # type: ignore[attr-defined]
            out.known_extra = set(self.known_extra)  # type: ignore[attr-defined]
            return out
        # cloned class bodies, by qualified class name
        cls_nodes: dict[str, ast.ClassDef] = {}
        for name, tree in trees.items():
            for node in tree.body:
                if isinstance(node, ast.ClassDef):
                    cls_nodes[f'{name}.{node.name}'] = node
        self.contexts: dict[int, ClassInfo] = {}  # id(function clone) -> class whose MRO resolves self.<x> inside it
        for q, cnode in cls_nodes.items():
            ci = table.find(q)
            if ci is None:
                continue
            for sub in cnode.body:
                if isinstance(sub, ast.FunctionDef):
                    self.contexts[id(sub)] = ci
        self._push_down(cls_nodes)
        self._specialise(cls_nodes)
        for name, tree in trees.items():
            self._inline_module(tree, name)
        # private record types (NamedTuple / dataclass the rules do not know) used to carry intermediate values: their
        # methods are inlined, then the record is replaced by its components
        for tree in trees.values():
            canonical_idioms(tree)
        self._records(trees)
        self._drop_orphans(trees)
        for tree in trees.values():
            canonical_idioms(tree)
        return world_from_trees(world, trees)

    # -------------------------------------------------------------- 4. scalar replacement of private records
    def _record_classes(self) -> dict[str, tuple[ClassInfo, list[str]]]:
        out = {}
        for c in self.table.classes.values():
            if not self.class_unknown(c):
                continue
            bases = [ast.unparse(b) for b in c.node.bases]
            decos = [ast.unparse(d) for d in c.node.decorator_list]
            is_nt = any(b.split('.')[-1] == 'NamedTuple' for b in bases)
            is_dc = any('dataclass' in d for d in decos)
            if not (is_nt or is_dc) or any(n in c.own for n in ('__init__', '__new__', '__post_init__')):
                continue
            fields = [st.target.id for st in c.node.body if isinstance(st, ast.AnnAssign) and isinstance(st.target, ast.Name) and 'ClassVar' not in ast.unparse(st.annotation)]
            if fields:
                out[c.name] = (c, fields)
        return out

    def _records(self, trees: dict[str, ast.Module]) -> None:
        recs = self._record_classes()
        if not recs:
            return
        for modname, tree in trees.items():
            for fn in [n for n in ast.walk(tree) if isinstance(n, ast.FunctionDef)]:
                for _ in range(4):
                    if not self._records_in_function(fn, recs, modname):
                        break

    def _records_in_function(self, fn: ast.FunctionDef, recs: dict, modname: str) -> bool:
        changed = False
        # 0. K(*call) -> temporaries ; K(*(e for p in v)) handled after v is known
        for block in [b for n in ast.walk(fn) for b in (getattr(n, 'body', None), getattr(n, 'orelse', None)) if isinstance(b, list) and b and isinstance(b[0], ast.stmt)]:
            for i, st in enumerate(list(block)):
                if not (isinstance(st, ast.Assign) and len(st.targets) == 1 and isinstance(st.targets[0], ast.Name) and isinstance(st.value, ast.Call)):
                    continue
                call = st.value
                cname = call.func.id if isinstance(call.func, ast.Name) else None
                if cname not in recs or call.keywords or len(call.args) != 1 or not isinstance(call.args[0], ast.Starred):
                    continue
                _c, fields = recs[cname]
                inner = call.args[0].value
                if isinstance(inner, (ast.Tuple, ast.List)) and len(inner.elts) == len(fields):
                    call.args = list(inner.elts)
                    changed = True
                    continue
                if isinstance(inner, ast.Call):
                    v = st.targets[0].id
                    names = [f'{v}_{f}' for f in fields]
                    tup = ast.Tuple(elts=[ast.Name(id=n, ctx=ast.Store()) for n in names], ctx=ast.Store())
                    pre = ast.Assign(targets=[tup], value=inner)
                    self._mark(pre, st)
                    call.args = [ast.Name(id=n, ctx=ast.Load()) for n in names]
                    self._mark(call, st)
                    block.insert(block.index(st), pre)
                    changed = True
        # 0b. str(K(a, b, c)) with a single-return __str__: the formatted string itself
        for call in [n for n in ast.walk(fn) if isinstance(n, ast.Call) and isinstance(n.func, ast.Name) and n.func.id == 'str' and len(n.args) == 1 and not n.keywords]:
            inner = call.args[0]
            if not (isinstance(inner, ast.Call) and isinstance(inner.func, ast.Name) and inner.func.id in recs and not inner.keywords and not any(isinstance(a, ast.Starred) for a in inner.args)):
                continue
            c, fields = recs[inner.func.id]
            m = c.own.get('__str__')
            if not isinstance(m, ast.FunctionDef) or len(inner.args) != len(fields):
                continue
            body = _docless(m.body)
            if len(body) != 1 or not isinstance(body[0], ast.Return) or body[0].value is None:
                continue
            me = m.args.args[0].arg
            expr = clone(body[0].value, c.module.name)

            class F(ast.NodeTransformer):
                def visit_Attribute(self, node):
                    self.generic_visit(node)
                    if isinstance(node.value, ast.Name) and node.value.id == me and node.attr in fields:
                        a = inner.args[fields.index(node.attr)]
                        return clone(a, getattr(a, '_omod', None) or modname)
                    return node

            expr = F().visit(expr)
            if any(isinstance(x, ast.Name) and x.id == me for x in ast.walk(expr)):
                continue
            self._mark(expr, call)
            self._replace(fn, call, expr)
            return True
        # 0c. a record variable stored several times (a loop accumulator), or aliased: every store is a construction of one
        # record class or the name of another such variable, every load a field load -> one variable per field
        fam = self._record_family(fn, recs, modname)
        if fam:
            return True
        # 1. variables bound once to a record construction
        bound: dict[str, tuple[ast.Assign, list[str], list[ast.AST], ClassInfo]] = {}
        stores: dict[str, int] = {}
        for n in ast.walk(fn):
            if isinstance(n, ast.Name) and isinstance(n.ctx, ast.Store):
                stores[n.id] = stores.get(n.id, 0) + 1
        for n in ast.walk(fn):
            if isinstance(n, ast.Assign) and len(n.targets) == 1 and isinstance(n.targets[0], ast.Name) and isinstance(n.value, ast.Call) and isinstance(n.value.func, ast.Name) and n.value.func.id in recs:
                c, fields = recs[n.value.func.id]
                call = n.value
                if any(isinstance(a, ast.Starred) for a in call.args) or any(k.arg is None for k in call.keywords) or stores.get(n.targets[0].id) != 1:
                    continue
                vals: list = list(call.args) + [None] * (len(fields) - len(call.args))
                ok = len(call.args) <= len(fields)
                for k in call.keywords:
                    if k.arg in fields and vals[fields.index(k.arg)] is None:
                        vals[fields.index(k.arg)] = k.value
                    else:
                        ok = False
                if ok and all(v is not None for v in vals):
                    bound[n.targets[0].id] = (n, fields, vals, c)
        for v, (asg, fields, vals, c) in bound.items():
            uses = [n for n in ast.walk(fn) if isinstance(n, ast.Name) and n.id == v and isinstance(n.ctx, ast.Load)]
            parents = {id(u): None for u in uses}
            for par in ast.walk(fn):
                for ch in ast.iter_child_nodes(par):
                    if id(ch) in parents:
                        parents[id(ch)] = par
            # 2. method calls / str() / _replace on the record: rewritten first
            rewritten = False
            for u in uses:
                par = parents[id(u)]
                if isinstance(par, ast.Attribute) and par.value is u and par.attr not in fields:
                    gp = next((g for g in ast.walk(fn) if isinstance(g, ast.Call) and g.func is par), None)
                    if gp is None:
                        # a property of the record with a single return: its expression, on the record
                        m = c.own.get(par.attr)
                        if isinstance(m, ast.FunctionDef) and [ast.unparse(d) for d in m.decorator_list] == ['property'] and not self.budget_exhausted():
                            body = _docless(m.body)
                            if len(body) == 1 and isinstance(body[0], ast.Return) and body[0].value is not None and len(m.args.args) == 1:
                                expr = _Subst({m.args.args[0].arg: ast.Name(id=v, ctx=ast.Load())}, {}, c.module.name).visit(clone(body[0].value, c.module.name))
                                self._mark(expr, par)
                                self._replace(fn, par, expr)
                                rewritten = True
                        continue
                    if par.attr == '_asdict' and not gp.args and not gp.keywords:
                        # f(**record._asdict()): the fields as keywords
                        host = next((h for h in ast.walk(fn) if isinstance(h, ast.Call) and any(k.arg is None and k.value is gp for k in h.keywords)), None)
                        if host is not None:
                            kws = []
                            for k in host.keywords:
                                if k.arg is None and k.value is gp:
                                    for fname in fields:
                                        kws.append(ast.keyword(arg=fname, value=ast.Attribute(value=ast.Name(id=v, ctx=ast.Load()), attr=fname, ctx=ast.Load())))
                                else:
                                    kws.append(k)
                            host.keywords = kws
                            for k in kws:
                                self._mark(k.value, asg)
                            rewritten = True
                        continue
                    if par.attr == '_replace' and not gp.args and all(k.arg in fields for k in gp.keywords):
                        new_vals = list(vals)
                        for k in gp.keywords:
                            new_vals[fields.index(k.arg)] = k.value
                        gp.func = ast.Name(id=c.name, ctx=ast.Load())
                        gp.args = [clone(x, getattr(x, '_omod', modname)) if x in vals else x for x in new_vals]
                        gp.keywords = []
                        self._mark(gp, asg)
                        rewritten = True
                    else:
                        m = c.own.get(par.attr)
                        if isinstance(m, ast.FunctionDef) and not m.decorator_list and not self.budget_exhausted():
                            body = _docless(m.body)
                            if len(body) == 1 and isinstance(body[0], ast.Return) and body[0].value is not None and len(m.args.args) == 1 + len(gp.args) and not gp.keywords:
                                mapping = {m.args.args[0].arg: ast.Name(id=v, ctx=ast.Load())}
                                for a, x in zip(m.args.args[1:], gp.args):
                                    mapping[a.arg] = x
                                expr = _Subst(mapping, {}, c.module.name).visit(clone(body[0].value, c.module.name))
                                expr = _Unroll(v, fields).visit(expr)
                                self._mark(expr, gp)
                                self._replace(fn, gp, expr)
                                rewritten = True
                elif isinstance(par, ast.Call) and isinstance(par.func, ast.Name) and par.func.id == 'str' and par.args == [u] and isinstance(c.own.get('__str__'), ast.FunctionDef):
                    m = c.own['__str__']
                    body = _docless(m.body)
                    if len(body) == 1 and isinstance(body[0], ast.Return) and body[0].value is not None:
                        expr = _Subst({m.args.args[0].arg: ast.Name(id=v, ctx=ast.Load())}, {}, c.module.name).visit(clone(body[0].value, c.module.name))
                        self._mark(expr, par)
                        self._replace(fn, par, expr)
                        rewritten = True
            if rewritten:
                return True
            # 3. every remaining use must be a field load or a whole-record tuple unpacking
            field_uses = []
            unpackings = []
            whole = False
            for u in uses:
                par = parents[id(u)]
                if isinstance(par, ast.Attribute) and par.value is u and par.attr in fields and isinstance(par.ctx, ast.Load):
                    field_uses.append(par)
                elif (isinstance(par, ast.Assign) and par.value is u and len(par.targets) == 1 and isinstance(par.targets[0], (ast.Tuple, ast.List))
                      and len(par.targets[0].elts) == len(fields) and not any(isinstance(e, ast.Starred) for e in par.targets[0].elts)):
                    unpackings.append(par)
                else:
                    whole = True
            if not whole:
                for par in unpackings:
                    tup = ast.Tuple(elts=[clone(x, getattr(x, '_omod', None) or modname) for x in vals], ctx=ast.Load())
                    self._mark(tup, par)
                    par.value = tup
                if unpackings and not field_uses:
                    for block in [b for n in ast.walk(fn) for b in (getattr(n, 'body', None), getattr(n, 'orelse', None), getattr(n, 'finalbody', None)) if isinstance(b, list)]:
                        if asg in block:
                            block.remove(asg)
                            if not block:
                                block.append(self._mark_new(ast.Pass(), asg))
                            break
                    return True
            if whole or not field_uses and not uses:
                continue
            # replace the construction by component bindings (atomic arguments are substituted directly)
            pre: list[ast.stmt] = []
            exprs: dict[str, ast.AST] = {}
            rebound = {x.id for x in ast.walk(fn) if isinstance(x, ast.Name) and isinstance(x.ctx, ast.Store)}
            for f, val in zip(fields, vals):
                names_in = {x.id for x in ast.walk(val) if isinstance(x, ast.Name)}
                stable = _atomic(val) and all(stores.get(nm, 0) <= 1 for nm in names_in)
                if stable:
                    exprs[f] = val
                else:
                    tmp = f'{v}_{f}'
                    a2 = ast.Assign(targets=[ast.Name(id=tmp, ctx=ast.Store())], value=val)
                    self._mark(a2, asg)
                    pre.append(a2)
                    exprs[f] = ast.Name(id=tmp, ctx=ast.Load())
            for fu in field_uses:
                new = clone(exprs[fu.attr], getattr(exprs[fu.attr], '_omod', None) or modname)
                self._mark(new, fu)
                self._replace(fn, fu, new)
            # the constructor statement itself
            for block in [b for n in ast.walk(fn) for b in (getattr(n, 'body', None), getattr(n, 'orelse', None), getattr(n, 'finalbody', None)) if isinstance(b, list)]:
                if asg in block:
                    k = block.index(asg)
                    block[k:k + 1] = pre or ([] if len(block) > 1 else [self._mark_new(ast.Pass(), asg)])
                    break
            return True
        return changed

    def _record_family(self, fn: ast.FunctionDef, recs: dict, modname: str) -> bool:
        assigns: dict[str, list[ast.Assign]] = {}
        other_store: set[str] = set()
        for n in ast.walk(fn):
            if isinstance(n, ast.Assign) and len(n.targets) == 1 and isinstance(n.targets[0], ast.Name):
                assigns.setdefault(n.targets[0].id, []).append(n)
        for n in ast.walk(fn):
            if isinstance(n, ast.Name) and isinstance(n.ctx, ast.Store):
                if not any(a.targets[0] is n for a in assigns.get(n.id, [])):
                    other_store.add(n.id)
        # seed: variables with at least one construction, stored more than once or aliased by another variable
        cls_of: dict[str, str] = {}
        for v, sts in assigns.items():
            for a in sts:
                if isinstance(a.value, ast.Call) and isinstance(a.value.func, ast.Name) and a.value.func.id in recs:
                    cls_of[v] = a.value.func.id
        changed = True
        while changed:
            changed = False
            for v, sts in assigns.items():
                if v in cls_of:
                    continue
                if sts and all(isinstance(a.value, ast.Name) and a.value.id in cls_of for a in sts):
                    kinds = {cls_of[a.value.id] for a in sts}
                    if len(kinds) == 1:
                        cls_of[v] = kinds.pop()
                        changed = True
        family = set()
        for v, k in cls_of.items():
            if v in other_store:
                continue
            ok = all((isinstance(a.value, ast.Call) and isinstance(a.value.func, ast.Name) and a.value.func.id == k) or (isinstance(a.value, ast.Name) and cls_of.get(a.value.id) == k)
                     for a in assigns[v])
            if ok:
                family.add(v)
        # only worth it when some member is stored several times or aliases another
        if not any(len(assigns[v]) > 1 or any(isinstance(a.value, ast.Name) for a in assigns[v]) for v in family):
            return False
        # every load of a member must be a field load, or the value of an alias assignment inside the family
        parents: dict[int, ast.AST] = {}
        for par in ast.walk(fn):
            for ch in ast.iter_child_nodes(par):
                parents[id(ch)] = par
        for v in list(family):
            _c, fields = recs[cls_of[v]]
            for u in [n for n in ast.walk(fn) if isinstance(n, ast.Name) and n.id == v and isinstance(n.ctx, ast.Load)]:
                par = parents.get(id(u))
                if isinstance(par, ast.Attribute) and par.value is u and par.attr in fields:
                    continue
                if isinstance(par, ast.Assign) and par.value is u and len(par.targets) == 1 and isinstance(par.targets[0], ast.Name) and par.targets[0].id in family:
                    continue
                family.discard(v)
        if not family:
            return False
        # constructions with keywords / positionals resolved per field
        did = False
        for v in family:
            _c, fields = recs[cls_of[v]]
            for a in assigns[v]:
                if isinstance(a.value, ast.Name):
                    if a.value.id not in family:
                        return did
                    vals = [ast.Name(id=f'{a.value.id}_{f}', ctx=ast.Load()) for f in fields]
                else:
                    call = a.value
                    if any(isinstance(x, ast.Starred) for x in call.args) or any(k.arg is None for k in call.keywords):
                        return did
                    vals = list(call.args) + [None] * (len(fields) - len(call.args))
                    for k in call.keywords:
                        if k.arg in fields and vals[fields.index(k.arg)] is None:
                            vals[fields.index(k.arg)] = k.value
                    if any(x is None for x in vals):
                        return did
                a.targets = [ast.Tuple(elts=[ast.Name(id=f'{v}_{f}', ctx=ast.Store()) for f in fields], ctx=ast.Store())]
                a.value = ast.Tuple(elts=vals, ctx=ast.Load())
                self._mark(a, a)
                did = True
        # field loads
        for v in family:
            _c, fields = recs[cls_of[v]]
            for node in [n for n in ast.walk(fn) if isinstance(n, ast.Attribute) and isinstance(n.value, ast.Name) and n.value.id == v and n.attr in fields and isinstance(n.ctx, ast.Load)]:
                new = ast.Name(id=f'{v}_{node.attr}', ctx=ast.Load())
                self._mark(new, node)
                self._replace(fn, node, new)
                did = True
        return did

    def budget_exhausted(self) -> bool:
        return False

    def _relocate_functions(self, trees: dict[str, ast.Module]) -> None:
        world = self.world
        present = {f'{m}.{n.name}' for m, t in trees.items() for n in t.body if isinstance(n, ast.FunctionDef)}
        unknown_defs: dict[str, list[tuple[str, ast.FunctionDef]]] = {}
        for m, t in trees.items():
            for n in t.body:
                if isinstance(n, ast.FunctionDef) and self.func_unknown(f'{m}.{n.name}'):
                    unknown_defs.setdefault(n.name, []).append((m, n))
        for q in sorted(self.known['functions']):
            modname, _, fname = q.rpartition('.')
            if q in present or modname not in trees or modname + '.' + fname in present:
                continue
            if '.' in q[len(modname) + 1:]:
                continue  # a method
            src = None
            module = world.modules.get(modname)
            target = module.imports.get(fname) if module is not None else None
            if target:
                tq = world.canonical(target)
                tm, _, tn = tq.rpartition('.')
                cand = [(m, n) for m, n in unknown_defs.get(tn, []) if m == tm]
                if len(cand) == 1:
                    src = cand[0]
            if src is None:
                cand = unknown_defs.get(fname, [])
                if len(cand) == 1:
                    src = cand[0]
            if src is None:
                continue
            sm, sdef = src
            cp = clone(sdef, sm)
            cp.name = fname
            trees[modname].body.append(cp)
            # the original goes when nothing else in its module refers to it
            others = [x for x in ast.walk(trees[sm]) if isinstance(x, ast.Name) and x.id == sdef.name]
            if not others:
                trees[sm].body = [n for n in trees[sm].body if n is not sdef]
            # import statements of the moved name in the receiving module are dropped (the definition is local again)
            for st in list(trees[modname].body):
                if isinstance(st, ast.ImportFrom):
                    st.names = [a for a in st.names if (a.asname or a.name) != fname]
                    if not st.names:
                        trees[modname].body.remove(st)
            self.log.append(f'{sm}.{sdef.name} put back as {modname}.{fname}')
            self.known_extra.add(f'{sm}.{sdef.name}')
            self.known['functions'] = set(self.known['functions']) | {f'{sm}.{sdef.name}'}

    def _materialise_aliases(self, trees: dict[str, ast.Module]) -> None:
        for modname, tree in trees.items():
            funcs = {n.name: n for n in tree.body if isinstance(n, ast.FunctionDef)}
            redirects: dict[str, tuple[str, str]] = {}
            for cnode in [n for n in tree.body if isinstance(n, ast.ClassDef)]:
                for i, st in enumerate(list(cnode.body)):
                    if not (isinstance(st, ast.Assign) and len(st.targets) == 1 and isinstance(st.targets[0], ast.Name)):
                        continue
                    name = st.targets[0].id
                    v = st.value
                    kind = None
                    if isinstance(v, ast.Call) and isinstance(v.func, ast.Name) and v.func.id in ('staticmethod', 'classmethod') and len(v.args) == 1 and isinstance(v.args[0], ast.Name):
                        kind, fname = v.func.id, v.args[0].id
                    else:
                        continue
                    f = funcs.get(fname)
                    if f is None or self.func_unknown(f'{modname}.{cnode.name}.{name}') or not self.func_unknown(f'{modname}.{fname}'):
                        continue
                    method = clone(f, modname)
                    method.name = name
                    method.decorator_list = [ast.Name(id=kind, ctx=ast.Load(), lineno=st.lineno, col_offset=st.col_offset)]
                    method.decorator_list[0]._omod = modname  # type: ignore[attr-defined]
                    cnode.body[cnode.body.index(st)] = method
                    redirects[fname] = (cnode.name, name)
            if not redirects:
                continue
            # calls of the module-level function become calls of the method (including inside the materialised methods)
            for n in ast.walk(tree):
                if isinstance(n, ast.Call) and isinstance(n.func, ast.Name) and n.func.id in redirects:
                    cname, mname = redirects[n.func.id]
                    base = ast.Name(id=cname, ctx=ast.Load(), lineno=n.func.lineno, col_offset=n.func.col_offset)
                    base._omod = modname  # type: ignore[attr-defined]
                    attr = ast.Attribute(value=base, attr=mname, ctx=ast.Load(), lineno=n.func.lineno, col_offset=n.func.col_offset)
                    attr._omod = modname  # type: ignore[attr-defined]
                    n.func = attr
            # the module-level originals are no longer referenced by name inside the module: drop them if nothing else does
            names_used = {x.id for x in ast.walk(tree) if isinstance(x, ast.Name)}
            tree.body = [n for n in tree.body if not (isinstance(n, ast.FunctionDef) and n.name in redirects and n.name not in names_used)]

    def _drop_orphans(self, trees: dict[str, ast.Module]) -> None:
        """Definitions the rules do not know and that nothing refers to any more (every call was inlined) are removed:
        rules that enumerate functions would otherwise meet the same code twice, once out of context."""
        for _ in range(3):
            used_names: set[str] = set()
            used_attrs: set[str] = set()
            for tree in trees.values():
                for n in ast.walk(tree):
                    if isinstance(n, ast.Name):
                        used_names.add(n.id)
                    elif isinstance(n, ast.Attribute):
                        used_attrs.add(n.attr)
                    elif isinstance(n, ast.Constant) and isinstance(n.value, str) and n.value.isidentifier():
                        used_attrs.add(n.value)  # getattr(x, 'name')
                        used_names.add(n.value)
            removed = 0
            for modname, tree in trees.items():
                keep = []
                for node in tree.body:
                    if isinstance(node, ast.FunctionDef) and self.func_unknown(f'{modname}.{node.name}') and node.name not in used_names and node.name not in used_attrs and not node.decorator_list:
                        removed += 1
                        continue
                    keep.append(node)
                    if isinstance(node, ast.ClassDef):
                        body = []
                        for sub in node.body:
                            if (isinstance(sub, ast.FunctionDef) and self.func_unknown(f'{getattr(sub, "_omod", modname)}.{node.name}.{sub.name}') and self.func_unknown(f'{modname}.{node.name}.{sub.name}')
                                    and sub.name not in self.known_method_names and sub.name not in used_attrs and sub.name not in used_names and not sub.name.startswith('__')
                                    and not any(isinstance(d, ast.Name) and d.id in ('property', 'abstractmethod') or isinstance(d, ast.Attribute) for d in sub.decorator_list)):
                                removed += 1
                                continue
                            body.append(sub)
                        node.body = body or [ast.Pass(lineno=node.lineno, col_offset=0)]
                tree.body = keep
            if not removed:
                break

    # -------------------------------------------------------------- 1. methods of unknown classes
    def _known_strict_ancestors(self, c: ClassInfo) -> list[ClassInfo]:
        return [p for p in (c.mro or [c])[1:] if not self.class_unknown(p)]

    def _push_down(self, cls_nodes: dict[str, ast.ClassDef]) -> None:
        table = self.table
        moved: dict[str, set[str]] = {}
        for c in table.classes.values():
            if self.class_unknown(c) or c.qual not in cls_nodes:
                continue
            for k in (c.mro or [c])[1:]:
                if not self.class_unknown(k):
                    continue
                # a known class between c and k receives the copy instead
                if any(k in (p.mro or []) for p in self._known_strict_ancestors(c)):
                    continue
                for m in k.node.body:
                    # class-level constants (rule operand classes, field lists) are copied down as well
                    if isinstance(m, ast.Assign) and len(m.targets) == 1 and isinstance(m.targets[0], ast.Name) and not m.targets[0].id.startswith('__'):
                        r = table.resolve(c, m.targets[0].id)
                        if r is not None and r.node is m:
                            cls_nodes[c.qual].body.insert(_after_docstring(cls_nodes[c.qual]), clone(m, k.module.name))
                        continue
                    if not isinstance(m, ast.FunctionDef) or m.name in ('__init_subclass__', '__new__', '__class_getitem__', '__set_name__'):
                        continue
                    r = table.resolve(c, m.name)
                    if r is None or r.node is not m or _uses_super(m):
                        continue
                    cp = clone(m, k.module.name)
                    self._propagate_class_constants(cp, c)
                    cls_nodes[c.qual].body.append(cp)
                    self.contexts[id(cp)] = c
                    self.log.append(f'{k.name}.{m.name} copied into {c.name}')
                    moved.setdefault(k.qual, set()).add(m.name)
        # a method that every user now owns a copy of is dropped from the unknown class (rules enumerate overrides)
        for kq, names in moved.items():
            k = table.find(kq)
            if k is None or kq not in cls_nodes:
                continue
            unknown_users = [d for d in table.classes.values() if d is not k and k in (d.mro or []) and self.class_unknown(d)]
            for name in names:
                if any((table.resolve(d, name) or None) is not None and table.resolve(d, name).owner is k for d in unknown_users):
                    continue
                if any(isinstance(n, ast.Attribute) and n.attr == name and isinstance(n.value, ast.Call) and isinstance(n.value.func, ast.Name) and n.value.func.id == 'super'
                       for d in table.classes.values() if d is not k and k in (d.mro or []) for n in ast.walk(d.node)):
                    continue  # still reached through super()
                body = cls_nodes[kq].body
                body[:] = [x for x in body if not (isinstance(x, ast.FunctionDef) and x.name == name)] or [ast.Pass(lineno=k.node.lineno, col_offset=0)]

    def _propagate_class_constants(self, fn: ast.FunctionDef, c: ClassInfo) -> None:
        """In a method copied down from a generic base class, `self.<attr>` naming a class-level constant of the receiving
        class that is bound to a module-level name (`_var = _config_var`) is replaced by that name."""
        if not fn.args.args:
            return
        me = fn.args.args[0].arg
        for parent in ast.walk(fn):
            for f, v in ast.iter_fields(parent):
                items = v if isinstance(v, list) else [v]
                for idx, x in enumerate(items):
                    if not (isinstance(x, ast.Attribute) and isinstance(x.ctx, ast.Load) and isinstance(x.value, ast.Name) and x.value.id == me):
                        continue
                    r = self.table.resolve(c, x.attr)
                    if r is None or not isinstance(r.node, (ast.Assign, ast.AnnAssign)) or r.owner is None:
                        continue
                    val = r.node.value
                    if not isinstance(val, ast.Name) or x.attr in self.known_method_names:
                        continue
                    mod = r.owner.module
                    if val.id not in mod.defs and val.id not in mod.imports:
                        continue
                    new = clone(val, mod.name)
                    new.lineno, new.col_offset = getattr(x, 'lineno', 1), getattr(x, 'col_offset', 0)
                    if isinstance(v, list):
                        v[idx] = new
                    else:
                        setattr(parent, f, new)

    # -------------------------------------------------------------- 2. template methods with unknown hooks
    def _hook_names(self, b: ClassInfo, m: ast.FunctionDef) -> set[str]:
        if not m.args.args:
            return set()
        me = m.args.args[0].arg
        out = set()
        for n in ast.walk(m):
            if isinstance(n, ast.Attribute) and isinstance(n.value, ast.Name) and n.value.id == me and isinstance(n.ctx, ast.Load):
                out.add(n.attr)
        return out

    def _specialise(self, cls_nodes: dict[str, ast.ClassDef]) -> None:
        table = self.table
        for b in table.classes.values():
            if b.qual not in cls_nodes:
                continue
            members = [m for m in cls_nodes[b.qual].body if isinstance(m, ast.FunctionDef)]
            raw_of = {m.name: b.own.get(m.name) for m in members}
            subs = [d for d in table.classes.values() if d is not b and b in (d.mro or []) and not self.class_unknown(d) and d.qual in cls_nodes]
            if not subs:
                continue
            for m in members:
                if _uses_super(m):
                    continue
                specialised = False
                for h in sorted(self._hook_names(b, m)):
                    rb = table.resolve(b, h)
                    defs = {id(table.resolve(d, h).node) for d in subs if table.resolve(d, h) is not None} | ({id(rb.node)} if rb is not None else set())
                    if len(defs) < 2:
                        continue
                    # is the hook unknown to the rules?  (a method *name* they have never seen: a known name defined in
                    # a new place is handled by the copy-down of step 1)
                    if h in self.known_method_names:
                        continue
                    owners = [table.resolve(d, h) for d in subs + [b]]
                    if not any(r is not None and r.owner is not None and isinstance(r.node, ast.FunctionDef) and r.provenance == 'own' and self.func_unknown(f'{r.owner.qual}.{r.node.name}') for r in owners):
                        continue
                    for d in subs:
                        rd_m = table.resolve(d, m.name)
                        raw_m = raw_of.get(m.name)
                        # d must inherit this very method (for methods copied in step 1, raw_m is None: compare by name owner)
                        if rd_m is None or any(isinstance(x, ast.FunctionDef) and x.name == m.name for x in cls_nodes[d.qual].body):
                            continue
                        if raw_m is not None and rd_m.node is not raw_m:
                            continue
                        if raw_m is None and not (rd_m.owner is not None and self.class_unknown(rd_m.owner)):
                            continue
                        rd = table.resolve(d, h)
                        if (rd.node if rd else None) is (rb.node if rb else None):
                            continue
                        anc = [a for a in (d.mro or [])[1:] if a is not b and b in (a.mro or []) and not self.class_unknown(a)]
                        if any((table.resolve(a, h).node if table.resolve(a, h) else None) is (rd.node if rd else None) for a in anc):
                            continue
                        cp = clone(m, getattr(m, '_omod', b.module.name))
                        cls_nodes[d.qual].body.append(cp)
                        self.contexts[id(cp)] = d
                        self.log.append(f'{b.name}.{m.name} specialised into {d.name} (hook {h})')
                        specialised = True
                    # a new template method whose hook is abstract on b itself cannot run on b: its specialisations replace it
                    if specialised and self.func_unknown(f'{b.qual}.{m.name}') and (rb is None or _abstract_body(rb.node)):
                        body = cls_nodes[b.qual].body
                        body[:] = [x for x in body if x is not m]
                    break

    # -------------------------------------------------------------- 3. inlining
    def _inline_module(self, tree: ast.Module, modname: str) -> None:
        for node in tree.body:
            if isinstance(node, ast.FunctionDef):
                self._inline_function(node, None)
            elif isinstance(node, ast.ClassDef):
                for sub in node.body:
                    if isinstance(sub, ast.FunctionDef):
                        self._inline_function(sub, self.contexts.get(id(sub)))

    def _inline_function(self, fn: ast.FunctionDef, cls: ClassInfo | None) -> None:
        decos = _decorators(self.world, fn)
        me = fn.args.args[0].arg if fn.args.args and cls is not None and 'staticmethod' not in decos else None
        self.me_is_class = 'classmethod' in decos
        self.budget = 60
        for _ in range(MAX_ROUNDS):
            changed = self._block(fn.body, fn, cls, me)
            if not changed:
                break

    def _block(self, stmts: list[ast.stmt], fn: ast.FunctionDef, cls: ClassInfo | None, me: str | None) -> bool:
        changed = False
        i = 0
        while i < len(stmts):
            st = stmts[i]
            repl = self._statement(st, fn, cls, me)
            if repl is not None:
                stmts[i:i + 1] = repl
                changed = True
                continue  # look at the replacement again
            for field in ('body', 'orelse', 'finalbody'):
                sub = getattr(st, field, None)
                if isinstance(sub, list) and sub and isinstance(sub[0], ast.stmt) and not isinstance(st, (ast.FunctionDef, ast.ClassDef)):
                    changed |= self._block(sub, fn, cls, me)
            if isinstance(st, ast.Try):
                for h in st.handlers:
                    changed |= self._block(h.body, fn, cls, me)
            if isinstance(st, ast.FunctionDef):
                # nested function: same self, same class context
                changed |= self._block(st.body, fn, cls, me)
            i += 1
        return changed

    # the expressions of a statement that are evaluated before any nested block
    def _header_exprs(self, st: ast.stmt) -> list[ast.AST]:
        if isinstance(st, (ast.Expr, ast.Return)):
            return [st.value] if st.value is not None else []
        if isinstance(st, ast.Assign):
            return [st.value]
        if isinstance(st, (ast.AnnAssign, ast.AugAssign)):
            return [st.value] if st.value is not None else []
        if isinstance(st, (ast.If,)):
            return [st.test]
        if isinstance(st, ast.For):
            return [st.iter]
        if isinstance(st, ast.Raise):
            return [x for x in (st.exc, st.cause) if x is not None]
        if isinstance(st, ast.Assert):
            return [st.test]
        if isinstance(st, ast.With):
            return [it.context_expr for it in st.items]
        return []

    def _statement(self, st: ast.stmt, fn: ast.FunctionDef, cls: ClassInfo | None, me: str | None) -> list[ast.stmt] | None:
        """Replacement statements if something in st was inlined, else None."""
        heads = self._header_exprs(st)
        # 1. expression-level inlining anywhere in the header expressions (incl. lambdas and comprehensions)
        for root in heads:
            for call in [n for n in ast.walk(root) if isinstance(n, ast.Call)]:
                if id(call) in self.failed:
                    continue
                hit = self._callee(call, cls, me)
                if hit is None:
                    continue
                expr = self._as_expression(call, hit, fn)
                if expr is not None:
                    self._replace(st, call, expr)
                    return [st]
        # 1a. a reference (not a call) to an unknown module-level function that is a single return: the lambda it abbreviates
        for root in heads:
            called = {id(n.func) for n in ast.walk(root) if isinstance(n, ast.Call)}
            for ref in [n for n in ast.walk(root) if isinstance(n, ast.Name) and isinstance(n.ctx, ast.Load) and id(n) not in called]:
                module = self._module_of_node(ref)
                q = self.world.qualify(module, ref.id)
                node = self.world.lookup(q) if q else None
                if not (isinstance(node, ast.FunctionDef) and q and self.func_unknown(self.world.canonical(q)) and not isinstance(getattr(node, '_parent', None), ast.ClassDef)):
                    continue
                body = _docless(node.body)
                a = node.args
                if node.decorator_list or len(body) != 1 or not isinstance(body[0], ast.Return) or body[0].value is None or a.vararg or a.kwarg or a.kwonlyargs or a.defaults:
                    continue
                omod = node._module.name
                lam = ast.Lambda(args=ast.arguments(posonlyargs=[], args=[ast.arg(arg=x.arg) for x in a.posonlyargs + a.args], kwonlyargs=[], kw_defaults=[], defaults=[]),
                                 body=clone(body[0].value, omod))
                for x in ast.walk(lam):
                    if not getattr(x, '_omod', None):
                        x._omod = omod  # type: ignore[attr-defined]
                self._mark(lam, ref)
                self._replace(st, ref, lam)
                return [st]
        # 1b. bound-method references to unknown methods: a nested function takes their place
        for root in heads:
            for ref in [n for n in ast.walk(root) if isinstance(n, ast.Attribute) and isinstance(n.ctx, ast.Load)]:
                got = self._method_reference(st, ref, fn, cls, me)
                if got is not None:
                    return got
        # 2. statement-level inlining of calls that are not inside a lambda / comprehension / nested scope
        for root in heads:
            for call in self._hoistable_calls(root):
                if id(call) in self.failed:
                    continue
                hit = self._callee(call, cls, me)
                if hit is None:
                    continue
                try:
                    return self._as_statements(st, call, hit, fn)
                except NotInlinable:
                    self.failed.add(id(call))
        return None

    def _hoistable_calls(self, root: ast.AST) -> list[ast.Call]:
        out: list[ast.Call] = []

        def walk(n: ast.AST) -> None:
            if isinstance(n, (ast.Lambda, ast.ListComp, ast.SetComp, ast.DictComp, ast.GeneratorExp, ast.IfExp, ast.BoolOp)):
                return  # not evaluated unconditionally, or evaluated in another scope
            for c in ast.iter_child_nodes(n):
                walk(c)
            if isinstance(n, ast.Call):
                out.append(n)

        walk(root)
        return out

    def _replace(self, st: ast.AST, old: ast.AST, new: ast.AST) -> None:
        for parent in ast.walk(st):
            for f, v in ast.iter_fields(parent):
                if v is old:
                    setattr(parent, f, new)
                    return
                if isinstance(v, list):
                    for k, x in enumerate(v):
                        if x is old:
                            v[k] = new
                            return
        raise NotInlinable('call site not found')

    # -------------------------------------------------------------- callee resolution
    def _module_of_node(self, node: ast.AST) -> Module:
        return self.world.modules[getattr(node, '_omod')]

    def _callee(self, call: ast.Call, cls: ClassInfo | None, me: str | None):
        """(raw FunctionDef, owner module name, receiver expression or None, kind) for a call of an unknown in-package callee."""
        f = call.func
        world, table = self.world, self.table
        module = self._module_of_node(call)
        if isinstance(f, ast.Name):
            q = world.qualify(module, f.id)
            node = world.lookup(q) if q else None
            if isinstance(node, ast.FunctionDef) and q and self.func_unknown(world.canonical(q)) and not isinstance(getattr(node, '_parent', None), ast.ClassDef):
                return node, node._module.name, None, 'function'
            return None
        if isinstance(f, ast.Attribute):
            if table is None:
                return None
            recv = f.value
            target_cls = None
            bound = None
            if isinstance(recv, ast.Name) and me is not None and recv.id == me and cls is not None:
                target_cls, bound = cls, recv
            else:
                q = world.qualify(module, recv)
                c = table.find(q) if q else None
                if c is not None:
                    target_cls, bound = c, None
                elif q:
                    node = world.lookup(f'{q}.{f.attr}')
                    if isinstance(node, ast.FunctionDef) and self.func_unknown(world.canonical(f'{q}.{f.attr}')) and not isinstance(getattr(node, '_parent', None), ast.ClassDef):
                        return node, node._module.name, None, 'function'
            if target_cls is None:
                # X.m(...) on any receiver, where m is a new method name that exactly one class of the package defines
                # (and nothing overrides): the call can only reach that definition
                owners = [k for k in table.classes.values() if isinstance(k.own.get(f.attr), ast.FunctionDef)]
                if len(owners) == 1 and not f.attr.startswith('__') and self.func_unknown(f'{owners[0].qual}.{f.attr}') and f.attr not in self.known_method_names:
                    node = owners[0].own[f.attr]
                    decos = _decorators(world, node)
                    if not decos and isinstance(recv, (ast.Name, ast.Attribute)):
                        return node, owners[0].module.name, recv, 'method'
                return None
            r = table.resolve(target_cls, f.attr)
            if r is None or not isinstance(r.node, ast.FunctionDef) or r.owner is None or r.is_property:
                return None
            if r.provenance != 'own' or not self.func_unknown(f'{r.owner.qual}.{r.node.name}'):
                return None
            # a method the rules know under the calling class, now written in a new base class / mixin and copied down
            # again by step 1: the call is re-addressed to the known name instead of being inlined
            if cls is not None and self.class_unknown(r.owner) and not self.func_unknown(f'{cls.qual}.{r.node.name}'):
                rc = table.resolve(cls, f.attr)
                if rc is not None and rc.node is r.node and bound is None:
                    f.value = ast.Name(id=cls.name, ctx=ast.Load(), lineno=getattr(f, 'lineno', 1), col_offset=getattr(f, 'col_offset', 0))
                    f.value._omod = cls.module.name  # type: ignore[attr-defined]
                    return None
                if rc is not None and rc.node is r.node:
                    return None
            decos = _decorators(world, r.node)
            kind = 'static' if 'staticmethod' in decos else 'class' if 'classmethod' in decos else 'method'
            if decos - {'staticmethod', 'classmethod'}:
                return None
            if kind == 'class' and bound is not None and getattr(self, 'me_is_class', False):
                return r.node, r.owner.module.name, bound, 'unbound-class'  # the receiver is already the class
            return r.node, r.owner.module.name, bound if bound is not None else recv, kind if bound is not None else ('unbound-' + kind)
        return None

    # -------------------------------------------------------------- argument binding
    def _bind(self, call: ast.Call, callee: ast.FunctionDef, recv: ast.AST | None, kind: str) -> list[tuple[str, ast.AST]]:
        a = callee.args
        kwarg_pair = None
        spreads = [k for k in call.keywords if k.arg is None]
        if a.kwarg and len(spreads) == 1 and isinstance(spreads[0].value, ast.Name) and len(call.keywords) == 1:
            # f(**kw) received as **overrides and only passed on: the dictionary is the caller's
            kwarg_pair = (a.kwarg.arg, spreads[0].value)
            call = ast.Call(func=call.func, args=list(call.args), keywords=[])
        elif a.kwarg or spreads:
            raise NotInlinable('variadic')
        if any(isinstance(x, ast.Starred) for x in call.args):
            raise NotInlinable('variadic')
        params = [p.arg for p in a.posonlyargs + a.args]
        vararg_pair = None
        if a.vararg:
            # *names receives the surplus positional arguments as a tuple
            npos = len(params) - (1 if kind in ('method', 'class', 'unbound-class') else 0)
            surplus = list(call.args[npos:])
            call = ast.Call(func=call.func, args=list(call.args[:npos]), keywords=call.keywords)
            tup = ast.Tuple(elts=surplus, ctx=ast.Load())
            vararg_pair = (a.vararg.arg, tup)
        defaults = [None] * (len(params) - len(a.defaults)) + list(a.defaults)
        args = list(call.args)
        pairs: list[tuple[str, ast.AST]] = []
        if kind == 'method':
            pairs.append((params[0], recv))
            params, defaults = params[1:], defaults[1:]
        elif kind == 'class':
            t = ast.Call(func=ast.Name(id='type', ctx=ast.Load()), args=[recv], keywords=[])
            pairs.append((params[0], t))
            params, defaults = params[1:], defaults[1:]
        elif kind == 'unbound-class':
            pairs.append((params[0], recv))
            params, defaults = params[1:], defaults[1:]
        # 'static', 'unbound-static', 'function', 'unbound-method' (self passed explicitly): positional as written
        kws = {k.arg: k.value for k in call.keywords}
        if len(args) > len(params):
            raise NotInlinable('too many arguments')
        for i, p in enumerate(params):
            if i < len(args):
                pairs.append((p, args[i]))
            elif p in kws:
                pairs.append((p, kws.pop(p)))
            elif defaults[i] is not None:
                pairs.append((p, defaults[i]))
            else:
                raise NotInlinable(f'missing argument {p}')
        for p, d in zip(a.kwonlyargs, a.kw_defaults):
            if p.arg in kws:
                pairs.append((p.arg, kws.pop(p.arg)))
            elif d is not None:
                pairs.append((p.arg, d))
            else:
                raise NotInlinable('missing keyword argument')
        if kws:
            raise NotInlinable('unexpected keyword')
        if vararg_pair is not None:
            pairs.append(vararg_pair)
        if kwarg_pair is not None:
            pairs.append(kwarg_pair)
        return pairs

    def _prepare(self, call: ast.Call, hit, fn: ast.FunctionDef):
        """(binding statements, body statements of the callee with parameters substituted / locals renamed)."""
        callee, omod, recv, kind = hit
        if _has(callee, (ast.Yield, ast.YieldFrom, ast.Await, ast.Global, ast.Nonlocal)) or _uses_super(callee):
            raise NotInlinable('generator / super')
        self.budget -= 1
        if self.budget < 0:
            raise NotInlinable('inlining budget exhausted (recursion?)')
        pairs = self._bind(call, callee, recv, kind)
        stored = {n.id for n in ast.walk(callee) if isinstance(n, ast.Name) and isinstance(n.ctx, (ast.Store, ast.Del))}
        loads: dict[str, int] = {}
        for n in ast.walk(callee):
            if isinstance(n, ast.Name) and isinstance(n.ctx, ast.Load):
                loads[n.id] = loads.get(n.id, 0) + 1
        exprs: dict[str, ast.AST] = {}
        binds: list[tuple[str, ast.AST]] = []
        for p, arg in pairs:
            if p not in stored and (_atomic(arg) or loads.get(p, 0) == 0 or isinstance(arg, ast.Lambda)
                                    or (isinstance(arg, ast.Tuple) and all(isinstance(x, ast.Constant) for x in arg.elts))):
                exprs[p] = arg
            else:
                binds.append((p, arg))
        used_by_caller = _names_used(fn)
        bound = (_names_bound(callee) - set(exprs)) | {p for p, _ in binds}
        self.counter += 1
        renames = {n: f'{n}_inl{self.counter}' for n in bound if n in used_by_caller}
        body = clone(_docless(callee.body), omod)
        sub = _Subst(exprs, renames, omod)
        body = [_Beta().visit(sub.visit(s)) for s in body]
        pre: list[ast.stmt] = []
        for p, arg in binds:
            tgt = ast.Name(id=renames.get(p, p), ctx=ast.Store())
            asg = ast.Assign(targets=[tgt], value=clone(arg, getattr(arg, '_omod', None) or getattr(call, '_omod')), lineno=getattr(call, 'lineno', 1), col_offset=0)
            self._mark(asg, call)
            pre.append(asg)
        return pre, body, len(binds)

    def _mark(self, node: ast.AST, like: ast.AST) -> None:
        for n in ast.walk(node):
            if not hasattr(n, 'lineno') and isinstance(n, (ast.expr, ast.stmt)):
                n.lineno = getattr(like, 'lineno', 1)
                n.col_offset = getattr(like, 'col_offset', 0)
                n.end_lineno = getattr(like, 'end_lineno', n.lineno)
                n.end_col_offset = getattr(like, 'end_col_offset', 0)
            if not getattr(n, '_omod', None):
                n._omod = getattr(like, '_omod')  # type: ignore[attr-defined]


    # -------------------------------------------------------------- expression inlining
    def _as_expression(self, call: ast.Call, hit, fn: ast.FunctionDef) -> ast.AST | None:
        callee = hit[0]
        body = _docless(callee.body)
        if len(body) != 1 or not isinstance(body[0], ast.Return) or body[0].value is None:
            return None
        try:
            pre, stmts, nbinds = self._prepare(call, hit, fn)
        except NotInlinable:
            return None
        if nbinds:
            return None  # an argument would be evaluated several times: statement-level inlining handles it
        expr = stmts[0].value
        return expr

    # -------------------------------------------------------------- bound-method references
    def _method_reference(self, st: ast.stmt, ref: ast.Attribute, fn: ast.FunctionDef, cls: ClassInfo | None, me: str | None):
        if cls is None or me is None or self.table is None or not (isinstance(ref.value, ast.Name) and ref.value.id == me):
            return None
        # must not be the function of a call (that is handled as a call)
        for n in ast.walk(st):
            if isinstance(n, ast.Call) and n.func is ref:
                return None
        r = self.table.resolve(cls, ref.attr)
        if r is None or not isinstance(r.node, ast.FunctionDef) or r.owner is None or r.is_property or r.provenance != 'own' or not self.func_unknown(f'{r.owner.qual}.{r.node.name}'):
            return None
        callee = r.node
        decos = _decorators(self.world, callee)
        if decos or _uses_super(callee) or _has(callee, (ast.Yield, ast.YieldFrom)) or len(callee.args.args) < 1:
            return None
        omod = r.owner.module.name
        self.counter += 1
        used = _names_used(fn)
        name = ref.attr.lstrip('_') or 'f'
        if name in used:
            name = f'{name}_inl{self.counter}'
        nested = clone(callee, omod)
        self_param = nested.args.args[0].arg
        nested.args.args = nested.args.args[1:]
        nested.name = name
        nested.decorator_list = []
        nested.body = _docless(nested.body) or [ast.Pass()]
        bound = _names_bound(nested) - {self_param}
        renames = {n: f'{n}_inl{self.counter}' for n in bound if n in used and n != name}
        sub = _Subst({self_param: ast.Name(id=me, ctx=ast.Load())}, renames, omod)
        nested.body = [sub.visit(s) for s in nested.body]
        for a in nested.args.args:
            if a.arg in renames:
                a.arg = renames[a.arg]
        self._mark(nested, st)
        new_ref = ast.Name(id=name, ctx=ast.Load())
        self._mark(new_ref, ref)
        self._replace(st, ref, new_ref)
        return [nested, st]

    # -------------------------------------------------------------- statement inlining
    def _as_statements(self, st: ast.stmt, call: ast.Call, hit, fn: ast.FunctionDef) -> list[ast.stmt]:
        callee = hit[0]
        pre, body, _ = self._prepare(call, hit, fn)
        # tail position: the callee's returns are the caller's returns
        if isinstance(st, ast.Return) and st.value is call:
            out = pre + body
            if not self._terminates(body):
                ret = ast.Return(value=None)
                self._mark(ret, st)
                out.append(ret)
            return out
        if isinstance(st, ast.Expr) and st.value is call:
            conv, _ = self._single_exit(body, None)
            return pre + (conv or [self._mark_new(ast.Pass(), st)])
        self.counter += 1
        direct = isinstance(st, ast.Assign) and st.value is call and len(st.targets) == 1 and isinstance(st.targets[0], ast.Name)
        res = st.targets[0].id if direct else f'{callee.name.lstrip("_")}_result{self.counter}'
        conv, terminated = self._single_exit(body, res)
        out = list(pre)
        if not terminated:
            init = ast.Assign(targets=[ast.Name(id=res, ctx=ast.Store())], value=ast.Constant(value=None))
            self._mark(init, st)
            out.append(init)
        out += conv
        if not direct:
            name = ast.Name(id=res, ctx=ast.Load())
            self._mark(name, call)
            self._replace(st, call, name)
            out.append(st)
        return out

    def _mark_new(self, node: ast.AST, like: ast.AST) -> ast.AST:
        self._mark(node, like)
        return node

    def _terminates(self, stmts: list[ast.stmt]) -> bool:
        if not stmts:
            return False
        last = stmts[-1]
        if isinstance(last, (ast.Return, ast.Raise)):
            return True
        if isinstance(last, ast.If):
            return self._terminates(last.body) and self._terminates(last.orelse)
        return False

    def _single_exit(self, stmts: list[ast.stmt], res: str | None) -> tuple[list[ast.stmt], bool]:
        """Rewrites returns into assignments to ``res`` (dropped when res is None); (statements, every path ended)."""
        out: list[ast.stmt] = []
        for i, st in enumerate(stmts):
            if isinstance(st, ast.Return):
                if res is not None:
                    asg = ast.Assign(targets=[ast.Name(id=res, ctx=ast.Store())], value=st.value if st.value is not None else ast.Constant(value=None))
                    self._mark(asg, st)
                    out.append(asg)
                elif st.value is not None and isinstance(st.value, ast.Call):
                    ex = ast.Expr(value=st.value)
                    self._mark(ex, st)
                    out.append(ex)
                return out, True
            if isinstance(st, ast.Raise):
                out.append(st)
                return out, True
            if isinstance(st, ast.If) and not _has_own_return(st):
                out.append(st)  # branches that only fall through or raise need no restructuring
                continue
            if isinstance(st, ast.If):
                b, bt = self._single_exit(st.body, res)
                o, ot = self._single_exit(st.orelse, res)
                rest = stmts[i + 1:]
                if bt and ot:
                    st.body, st.orelse = b or [self._mark_new(ast.Pass(), st)], o
                    out.append(st)
                    return out, True
                if bt != ot:
                    r2, rt = self._single_exit(rest, res)
                    if bt:
                        st.body, st.orelse = b or [self._mark_new(ast.Pass(), st)], o + r2
                    else:
                        st.body, st.orelse = (b + r2) or [self._mark_new(ast.Pass(), st)], o
                    out.append(st)
                    return out, rt
                st.body, st.orelse = b or [self._mark_new(ast.Pass(), st)], o
                out.append(st)
                continue
            if isinstance(st, (ast.For, ast.While, ast.Try, ast.With)) and _has(st, (ast.Return,)):
                nested_defs = [n for n in ast.walk(st) if isinstance(n, (ast.FunctionDef, ast.Lambda))]
                returns = [n for n in ast.walk(st) if isinstance(n, ast.Return)]
                inner = {id(r) for d in nested_defs for r in ast.walk(d) if isinstance(r, ast.Return)}
                if any(id(r) not in inner for r in returns):
                    raise NotInlinable('return inside a loop / try / with')
            out.append(st)
        return out, False


# ---------------------------------------------------------------------------------------------- idioms
class _Literals(ast.NodeTransformer):
    """{k: f(k) for k in ('a', 'b')} -> {'a': f('a'), 'b': f('b')} (likewise lists); getattr(x, 'name') -> x.name."""

    def __init__(self) -> None:
        self.n = 0

    def _consts(self, node):
        g = node.generators
        if len(g) == 1 and not g[0].ifs and isinstance(g[0].target, ast.Name) and isinstance(g[0].iter, (ast.Tuple, ast.List)) and 0 < len(g[0].iter.elts) <= 12 \
                and all(isinstance(x, ast.Constant) for x in g[0].iter.elts):
            return g[0].target.id, g[0].iter.elts
        return None

    def visit_DictComp(self, node):
        self.generic_visit(node)
        hit = self._consts(node)
        if hit is None:
            return node
        var, consts = hit
        omod = getattr(node, '_omod', '')
        keys = [_Subst({var: c}, {}, omod).visit(clone(node.key, omod)) for c in consts]
        vals = [_Subst({var: c}, {}, omod).visit(clone(node.value, omod)) for c in consts]
        self.n += 1
        new = ast.Dict(keys=keys, values=[self.visit(v) for v in vals])
        return ast.copy_location(new, node)

    def visit_ListComp(self, node):
        self.generic_visit(node)
        hit = self._consts(node)
        if hit is None:
            return node
        var, consts = hit
        omod = getattr(node, '_omod', '')
        self.n += 1
        new = ast.List(elts=[self.visit(_Subst({var: c}, {}, omod).visit(clone(node.elt, omod))) for c in consts], ctx=ast.Load())
        return ast.copy_location(new, node)

    def visit_Call(self, node):
        self.generic_visit(node)
        if isinstance(node.func, ast.Name) and node.func.id == 'getattr' and len(node.args) == 2 and not node.keywords and isinstance(node.args[1], ast.Constant) \
                and isinstance(node.args[1].value, str) and node.args[1].value.isidentifier():
            self.n += 1
            return ast.copy_location(ast.Attribute(value=node.args[0], attr=node.args[1].value, ctx=ast.Load()), node)
        return node


def canonical_idioms(tree: ast.AST) -> int:
    """`xs = []; for t in it: (a = e)*; [if c:] xs.append(v)`  ->  `xs = [v' for t in it if c']` (locals of the body
    substituted).  Both spellings build the same list; the comprehension is the form the rules read."""
    n = 0
    lit = _Literals()
    for fnode in [x for x in ast.walk(tree) if isinstance(x, ast.FunctionDef)]:
        omods = {id(x): getattr(x, '_omod', None) for x in ast.walk(fnode)}
        lit.visit(fnode)
        for x in ast.walk(fnode):
            if not getattr(x, '_omod', None):
                x._omod = getattr(fnode, '_omod', '')  # type: ignore[attr-defined]
            if isinstance(x, (ast.expr, ast.stmt)) and not hasattr(x, 'lineno'):
                x.lineno, x.col_offset, x.end_lineno, x.end_col_offset = fnode.lineno, 0, fnode.lineno, 0
    n += lit.n
    for node in ast.walk(tree):
        for field in ('body', 'orelse', 'finalbody'):
            block = getattr(node, field, None)
            if isinstance(block, list) and block and isinstance(block[0], ast.stmt):
                n += _loops_to_comprehensions(block)
                n += _loop_target_unpack(block)
                if not isinstance(node, (ast.ClassDef, ast.Module)):
                    n += _reduce_to_loop(block)
                    n += _defs_to_lambdas(block)
                    n += _tables_to_ladders(block, tree)
    return n


def _loop_target_unpack(block: list[ast.stmt]) -> int:
    """`for t in xs: a, b = t; ...` with t used nowhere else  ->  `for a, b in xs: ...`."""
    n = 0
    for st in block:
        if not (isinstance(st, ast.For) and isinstance(st.target, ast.Name) and st.body):
            continue
        first = st.body[0]
        t = st.target.id
        if not (isinstance(first, ast.Assign) and len(first.targets) == 1 and isinstance(first.targets[0], (ast.Tuple, ast.List)) and isinstance(first.value, ast.Name) and first.value.id == t):
            continue
        uses = [x for x in ast.walk(st) if isinstance(x, ast.Name) and x.id == t]
        if len(uses) != 2 or st.orelse:
            continue
        st.target = first.targets[0]
        st.body = st.body[1:] or [ast.Pass(lineno=st.lineno, col_offset=st.col_offset)]
        n += 1
    return n


def _reduce_to_loop(block: list[ast.stmt]) -> int:
    """`v = functools.reduce(step, xs, init)` with a local step function (lambda or nested def)  ->
    `v = init; for x in xs: v = step(v, x)` (beta-reduced): the left fold written out."""
    n = 0
    i = 0
    while i < len(block):
        st = block[i]
        i += 1
        call = st.value if isinstance(st, (ast.Assign, ast.Return)) else None
        if not (isinstance(call, ast.Call) and len(call.args) == 3 and not call.keywords):
            continue
        f = call.func
        name = f.attr if isinstance(f, ast.Attribute) else (f.id if isinstance(f, ast.Name) else None)
        if name != 'reduce':
            continue
        step, xs, init = call.args
        lam = None
        if isinstance(step, ast.Lambda):
            lam = step
        elif isinstance(step, ast.Name):
            # a nested def of the same block, single return, used only here
            defs = [d for d in block if isinstance(d, ast.FunctionDef) and d.name == step.id]
            if len(defs) == 1:
                body = _docless(defs[0].body)
                a = defs[0].args
                if len(body) == 1 and isinstance(body[0], ast.Return) and body[0].value is not None and not (a.vararg or a.kwarg or a.kwonlyargs or a.defaults):
                    lam = ast.Lambda(args=a, body=body[0].value)
                    uses = [x for s2 in block for x in ast.walk(s2) if isinstance(x, ast.Name) and x.id == step.id and isinstance(x.ctx, ast.Load)]
                    if len(uses) == 1:
                        block.remove(defs[0])
                        i = block.index(st) + 1
        multi = None
        if lam is None and isinstance(step, ast.Name):
            defs = [d for d in block if isinstance(d, ast.FunctionDef) and d.name == step.id]
            if len(defs) == 1:
                d0 = defs[0]
                body = _docless(d0.body)
                a = d0.args
                straight = body and isinstance(body[-1], ast.Return) and body[-1].value is not None and all(isinstance(x, (ast.Assign, ast.AnnAssign)) for x in body[:-1])
                uses = [x for s2 in block for x in ast.walk(s2) if isinstance(x, ast.Name) and x.id == step.id and isinstance(x.ctx, ast.Load)]
                if straight and len(a.args) == 2 and not (a.vararg or a.kwarg or a.kwonlyargs or a.defaults) and len(uses) == 1 and not d0.decorator_list:
                    multi = d0
        if multi is not None:
            omod = getattr(st, '_omod', '')
            acc = st.targets[0].id if isinstance(st, ast.Assign) and len(st.targets) == 1 and isinstance(st.targets[0], ast.Name) else '_acc'
            p_acc, p_x = multi.args.args[0].arg, multi.args.args[1].arg
            outer_names = {x.id for s2 in block if s2 is not multi for x in ast.walk(s2) if isinstance(x, ast.Name)}
            xname = p_x if p_x not in outer_names else p_x + '_elem'
            locals_ = {x.id for b in _docless(multi.body) for x in ast.walk(b) if isinstance(x, ast.Name) and isinstance(x.ctx, ast.Store)}
            renames = {nm: nm + '_step' for nm in locals_ if nm in outer_names}
            sub = _Subst({p_acc: ast.Name(id=acc, ctx=ast.Load()), p_x: ast.Name(id=xname, ctx=ast.Load())}, renames, omod)
            new_body = [sub.visit(clone(b, omod)) for b in _docless(multi.body)[:-1]]
            ret = sub.visit(clone(_docless(multi.body)[-1].value, omod))

            def mk2(node):
                for y in ast.walk(node):
                    if not hasattr(y, 'lineno') and isinstance(y, (ast.expr, ast.stmt)):
                        y.lineno, y.col_offset = st.lineno, st.col_offset
                        y.end_lineno, y.end_col_offset = getattr(st, 'end_lineno', st.lineno), 0
                    if not getattr(y, '_omod', None):
                        y._omod = omod  # type: ignore[attr-defined]
                return node

            first = mk2(ast.Assign(targets=[ast.Name(id=acc, ctx=ast.Store())], value=init))
            loop = mk2(ast.For(target=ast.Name(id=xname, ctx=ast.Store()), iter=xs,
                               body=new_body + [ast.Assign(targets=[ast.Name(id=acc, ctx=ast.Store())], value=ret)], orelse=[]))
            new = [first, loop]
            if isinstance(st, ast.Return):
                new.append(mk2(ast.Return(value=ast.Name(id=acc, ctx=ast.Load()))))
            block.remove(multi)
            k = block.index(st)
            block[k:k + 1] = new
            i = k + len(new)
            n += 1
            continue
        if lam is None or len(lam.args.args) != 2:
            continue
        omod = getattr(st, '_omod', '')
        if isinstance(st, ast.Assign) and len(st.targets) == 1 and isinstance(st.targets[0], ast.Name):
            acc = st.targets[0].id
        else:
            acc = '_acc'
        xname = lam.args.args[1].arg
        used = {x.id for x in ast.walk(st) if isinstance(x, ast.Name)} | {acc}
        if xname in used:
            xname = xname + '_elem'
        body_expr = _Subst({lam.args.args[0].arg: ast.Name(id=acc, ctx=ast.Load()), lam.args.args[1].arg: ast.Name(id=xname, ctx=ast.Load())}, {}, omod).visit(clone(lam.body, omod))

        def mk(node):
            for y in ast.walk(node):
                if not hasattr(y, 'lineno') and isinstance(y, (ast.expr, ast.stmt)):
                    y.lineno, y.col_offset = st.lineno, st.col_offset
                    y.end_lineno, y.end_col_offset = getattr(st, 'end_lineno', st.lineno), 0
                if not getattr(y, '_omod', None):
                    y._omod = omod  # type: ignore[attr-defined]
            return node

        first = mk(ast.Assign(targets=[ast.Name(id=acc, ctx=ast.Store())], value=init))
        loop = mk(ast.For(target=ast.Name(id=xname, ctx=ast.Store()), iter=xs,
                          body=[ast.Assign(targets=[ast.Name(id=acc, ctx=ast.Store())], value=body_expr)], orelse=[]))
        new = [first, loop]
        if isinstance(st, ast.Return):
            new.append(mk(ast.Return(value=ast.Name(id=acc, ctx=ast.Load()))))
        k = block.index(st)
        block[k:k + 1] = new
        i = k + len(new)
        n += 1
    return n


def _tables_to_ladders(block: list[ast.stmt], root: ast.AST) -> int:
    """`t = {k1: v1, ...}; x = t.get(key) [; if x is None: <leave>]`  ->  `if key == k1: x = v1 elif ... else: <leave>`.
    A lookup in a literal table of constants is the chain of equality tests it abbreviates."""
    n = 0
    i = 0
    while i + 1 < len(block):
        s0, s1 = block[i], block[i + 1]
        i += 1
        tname = None
        table = None
        if isinstance(s0, ast.Assign) and len(s0.targets) == 1 and isinstance(s0.targets[0], ast.Name) and isinstance(s0.value, ast.Dict):
            tname, table = s0.targets[0].id, s0.value
        elif isinstance(s0, ast.AnnAssign) and isinstance(s0.target, ast.Name) and isinstance(s0.value, ast.Dict):
            tname, table = s0.target.id, s0.value
        if table is None or len(table.keys) < 2 or not all(isinstance(k, ast.Constant) for k in table.keys):
            continue
        if not (isinstance(s1, ast.Assign) and len(s1.targets) == 1 and isinstance(s1.targets[0], ast.Name)):
            continue
        x = s1.targets[0].id
        v = s1.value
        key = default = None
        subscript = False
        if isinstance(v, ast.Call) and isinstance(v.func, ast.Attribute) and v.func.attr == 'get' and isinstance(v.func.value, ast.Name) and v.func.value.id == tname and 1 <= len(v.args) <= 2 and not v.keywords:
            key = v.args[0]
            default = v.args[1] if len(v.args) == 2 else None
        elif isinstance(v, ast.Subscript) and isinstance(v.value, ast.Name) and v.value.id == tname:
            key, subscript = v.slice, True
        if key is None:
            continue
        # the key is evaluated once per test: it must be free of effects (names, attributes, len(...) of such)
        if any(isinstance(c, ast.Call) and not (isinstance(c.func, ast.Name) and c.func.id == 'len') for c in ast.walk(key)):
            continue
        # the table is used nowhere else
        uses = [m for m in ast.walk(root) if isinstance(m, ast.Name) and m.id == tname]
        if len(uses) != 2:
            continue
        leave = None
        take = 2
        s2 = block[i + 1] if i + 1 < len(block) else None
        if (not subscript and default is None and isinstance(s2, ast.If) and not s2.orelse and isinstance(s2.test, ast.Compare) and len(s2.test.ops) == 1 and isinstance(s2.test.ops[0], ast.Is)
                and isinstance(s2.test.left, ast.Name) and s2.test.left.id == x and isinstance(s2.test.comparators[0], ast.Constant) and s2.test.comparators[0].value is None
                and s2.body and isinstance(s2.body[-1], (ast.Raise, ast.Return))):
            leave = s2.body
            take = 3
        omod = getattr(s1, '_omod', '')

        def mk(node):
            for y in ast.walk(node):
                if not hasattr(y, 'lineno') and isinstance(y, (ast.expr, ast.stmt)):
                    y.lineno, y.col_offset = s1.lineno, s1.col_offset
                    y.end_lineno, y.end_col_offset = getattr(s1, 'end_lineno', s1.lineno), 0
                if not getattr(y, '_omod', None):
                    y._omod = omod  # type: ignore[attr-defined]
            return node

        if leave is not None:
            tail: list[ast.stmt] = leave
        elif subscript:
            tail = [mk(ast.Raise(exc=ast.Call(func=ast.Name(id='KeyError', ctx=ast.Load()), args=[clone(key, omod)], keywords=[]), cause=None))]
        else:
            tail = [mk(ast.Assign(targets=[ast.Name(id=x, ctx=ast.Store())], value=clone(default, omod) if default is not None else ast.Constant(value=None)))]
        ladder: list[ast.stmt] = tail
        for k, val in reversed(list(zip(table.keys, table.values))):
            test = ast.Compare(left=clone(key, omod), ops=[ast.Eq()], comparators=[k])
            body = [ast.Assign(targets=[ast.Name(id=x, ctx=ast.Store())], value=val)]
            ladder = [mk(ast.If(test=test, body=body, orelse=ladder))]
        block[i - 1:i - 1 + take] = ladder
        n += 1
    return n


def _defs_to_lambdas(block: list[ast.stmt]) -> int:
    """`def f(a): return e` used exactly once, as a value, later in the same block  ->  `lambda a: e` at the use."""
    n = 0
    i = 0
    while i < len(block):
        st = block[i]
        i += 1
        if not isinstance(st, ast.FunctionDef) or st.decorator_list or st.args.defaults or st.args.kw_defaults or st.args.vararg or st.args.kwarg or st.args.kwonlyargs:
            continue
        body = _docless(st.body)
        if len(body) != 1 or not isinstance(body[0], ast.Return) or body[0].value is None:
            continue
        rest = block[i:]
        uses = [x for s in rest for x in ast.walk(s) if isinstance(x, ast.Name) and x.id == st.name]
        if len(uses) != 1 or not isinstance(uses[0].ctx, ast.Load):
            continue
        if any(isinstance(x, ast.Name) and x.id == st.name for x in ast.walk(st)):
            continue  # recursive
        use = uses[0]
        # the use must not sit inside a loop or nested scope that re-evaluates after a rebinding; same block suffices here
        args = ast.arguments(posonlyargs=[], args=[ast.arg(arg=a.arg) for a in st.args.posonlyargs + st.args.args], kwonlyargs=[], kw_defaults=[], defaults=[])
        lam = ast.Lambda(args=args, body=body[0].value)
        omod = getattr(st, '_omod', '')
        for x in ast.walk(lam):
            if not hasattr(x, 'lineno') and isinstance(x, (ast.expr, ast.arg)):
                x.lineno, x.col_offset = st.lineno, st.col_offset
                x.end_lineno, x.end_col_offset = getattr(st, 'end_lineno', st.lineno), 0
            if not getattr(x, '_omod', None):
                x._omod = omod  # type: ignore[attr-defined]
        replaced = False
        for s in rest:
            for parent in ast.walk(s):
                for f, v in ast.iter_fields(parent):
                    if v is use:
                        setattr(parent, f, lam)
                        replaced = True
                    elif isinstance(v, list):
                        for k, y in enumerate(v):
                            if y is use:
                                v[k] = lam
                                replaced = True
        if replaced:
            block.remove(st)
            i -= 1
            n += 1
    return n


def _loops_to_comprehensions(block: list[ast.stmt]) -> int:
    n = 0
    i = 0
    while i + 1 < len(block):
        a, loop = block[i], block[i + 1]
        i += 1
        tgt = None
        if isinstance(a, ast.Assign) and len(a.targets) == 1 and isinstance(a.targets[0], ast.Name) and isinstance(a.value, ast.List) and not a.value.elts:
            tgt = a.targets[0].id
        elif isinstance(a, ast.AnnAssign) and isinstance(a.target, ast.Name) and isinstance(a.value, ast.List) and not a.value.elts:
            tgt = a.target.id
        if tgt is None or not isinstance(loop, ast.For) or loop.orelse or not loop.body:
            continue
        *pre, last = loop.body
        if not all(isinstance(s, ast.Assign) and len(s.targets) == 1 and isinstance(s.targets[0], ast.Name) and s.targets[0].id != tgt for s in pre):
            continue
        names = [s.targets[0].id for s in pre]
        if len(set(names)) != len(names):
            continue
        cond = None
        if isinstance(last, ast.If) and not last.orelse and len(last.body) == 1:
            cond, last = last.test, last.body[0]
        if not (isinstance(last, ast.Expr) and isinstance(last.value, ast.Call) and isinstance(last.value.func, ast.Attribute) and last.value.func.attr == 'append'
                and isinstance(last.value.func.value, ast.Name) and last.value.func.value.id == tgt and len(last.value.args) == 1 and not last.value.keywords):
            continue
        elt = last.value.args[0]
        mentions = [x for x in ast.walk(loop) if isinstance(x, ast.Name) and x.id == tgt]
        if len(mentions) != 1:
            continue
        # substitute the body's locals, in order
        omod = getattr(loop, '_omod', '')
        env: dict[str, ast.AST] = {}
        for s in pre:
            env[s.targets[0].id] = _Subst(dict(env), {}, omod).visit(clone(s.value, omod))
        elt2 = _Subst(env, {}, omod).visit(clone(elt, omod))
        ifs = [_Subst(env, {}, omod).visit(clone(cond, omod))] if cond is not None else []
        comp = ast.ListComp(elt=elt2, generators=[ast.comprehension(target=loop.target, iter=loop.iter, ifs=ifs, is_async=0)])
        for x in ast.walk(comp):
            if not hasattr(x, 'lineno') and isinstance(x, (ast.expr,)):
                x.lineno, x.col_offset = loop.lineno, loop.col_offset
                x.end_lineno, x.end_col_offset = getattr(loop, 'end_lineno', loop.lineno), 0
            if not getattr(x, '_omod', None):
                x._omod = omod  # type: ignore[attr-defined]
        a.value = comp
        del block[i]
        n += 1
    return n


def normalise(world: World) -> World:
    if getattr(world, 'normalised', False):
        return world
    cached = getattr(world, '_normal_form', None)
    if cached is not None:
        return cached
    try:
        first = Normaliser(world, functions_only=True).run()
        n = Normaliser(first)
        out = n.run()
        if out is not world:
            out.normalise_log = n.log  # type: ignore[attr-defined]
    except (Incomplete, AnalysisError):
        raise
    except Exception as exc:  # noqa: BLE001 - a defect of the normaliser must not take the checks down: analyse the tree as written
        out = world
        world.normalise_error = f'{type(exc).__name__}: {exc}'  # type: ignore[attr-defined]
    world._normal_form = out  # type: ignore[attr-defined]
    return out


if __name__ == '__main__':
    if '--freeze' in sys.argv:
        data = freeze(World(sys.argv[sys.argv.index('--freeze') + 1] if len(sys.argv) > sys.argv.index('--freeze') + 1 else '/repo'))
        with open(KNOWN_FILE, 'w', encoding='utf-8') as f:
            json.dump(data, f, indent=0)
        print(f'{len(data["functions"])} functions, {len(data["classes"])} classes frozen')

"""Thorough tier: (i) class-table cross-check against interpreter reflection, (ii) every symbolic identity
re-decided by a second normaliser (sympy), (iii) the checker self-test: seeded defects must be reported, behaviour-
preserving variants and the current tree must stay silent, the pre-fix revision must show the recorded findings.

None of this is the deciding step of a property: a failure here means the *analyser* is broken (exit 2)."""

from __future__ import annotations

import glob
import json
import os
import subprocess
import sys
import time

from . import poly
from .benign import VARIANTS
from .classes import ClassTable
from .history import world_at, world_with_patch
from .loader import AnalysisError, World
from .report import VERIF

E6_PROPS = {'C01', 'C03', 'C06', 'C08', 'C15', 'C16'}
REFLECT = r'''
import dataclasses, inspect, json, sys
import lineax as lx
import furax, furax.operators, furax.projections, furax.instruments.sat, furax.toast.obs_matrix  # noqa
from furax.operators import toeplitz, hwp, polarizers, qu_rotations  # noqa
from furax._base import axes, blocks, dense, diagonal, indices, linear, rules, core  # noqa
out = {'classes': {}, 'rules': []}
def subclasses(c):
    for s in c.__subclasses__():
        yield s
        yield from subclasses(s)
seen = set()
for c in subclasses(core.AbstractLinearOperator):
    if c in seen or not c.__module__.startswith('furax'):
        continue
    seen.add(c)
    entry = {'mro': [k.__module__ + '.' + k.__qualname__ for k in c.__mro__ if k.__module__.startswith('furax')], 'attrs': {}, 'tags': {}, 'fields': {}}
    for name in ('mv', 'transpose', 'inverse', 'out_structure', 'in_structure', 'as_matrix', 'reduce', '__matmul__', '__init__'):
        try:
            v = inspect.getattr_static(c, name)
        except AttributeError:
            continue
        f = v.fget if isinstance(v, property) else getattr(v, '__func__', v)
        code = getattr(f, '__code__', None)
        if code is not None and 'furax' in code.co_filename:
            entry['attrs'][name] = [code.co_filename.split('/src/')[-1], code.co_firstlineno, code.co_name]
    for tag in ('is_diagonal', 'is_symmetric', 'is_lower_triangular', 'is_upper_triangular', 'is_tridiagonal', 'is_positive_semidefinite', 'is_negative_semidefinite'):
        try:
            entry['tags'][tag] = bool(getattr(lx, tag).dispatch(c)(None))
        except Exception as exc:  # noqa
            entry['tags'][tag] = None
    if dataclasses.is_dataclass(c):
        for f in dataclasses.fields(c):
            entry['fields'][f.name] = bool(f.metadata.get('static', False))
    out['classes'][c.__module__ + '.' + c.__qualname__] = entry
out['rules'] = [type(r).__module__ + '.' + type(r).__qualname__ for r in rules.BINARY_RULE_REGISTRY]
json.dump(out, sys.stdout)
'''


def _reflect(root: str) -> dict:
    env = dict(os.environ, PYTHONPATH=os.path.join(root, 'src'), JAX_PLATFORMS='cpu', PYTHONDONTWRITEBYTECODE='1')
    r = subprocess.run(['/venv/bin/python', '-c', REFLECT], capture_output=True, text=True, env=env, cwd='/', timeout=300)
    if r.returncode != 0:
        raise AnalysisError(f'interpreter reflection failed: {r.stderr.strip()[-300:]}')
    start = r.stdout.index('{')
    return json.loads(r.stdout[start:])


def crosscheck_class_table(world: World) -> tuple[dict, list[str]]:
    table = ClassTable(world)
    refl = _reflect(world.root)
    problems: list[str] = []
    checked = 0
    for cls in table.operators():
        r = refl['classes'].get(cls.qual)
        if r is None:
            problems.append(f'{cls.qual}: not found by the interpreter')
            continue
        mro = [k.qual for k in cls.mro]
        if mro != r['mro']:
            problems.append(f'{cls.qual}: MRO {mro} vs interpreter {r["mro"]}')
        for name, (fname, lineno, coname) in r['attrs'].items():
            res = table.resolve(cls, name)
            checked += 1
            if res is None:
                problems.append(f'{cls.qual}.{name}: unresolved, interpreter has {fname}:{lineno}')
                continue
            node = res.node
            lines = {getattr(node, 'lineno', -1)} | {getattr(d, 'lineno', -1) for d in getattr(node, 'decorator_list', [])}
            from .loader import module_of

            if module_of(node).relpath.split('src/')[-1] != fname or lineno not in lines:
                problems.append(f'{cls.qual}.{name}: resolver says {module_of(node).relpath}:{sorted(lines)} ({res.provenance}), interpreter says {fname}:{lineno} ({coname})')
        for tag, val in r['tags'].items():
            mine = table.tag(cls, tag)[0]
            checked += 1
            if val is not None and (mine if mine is not None else False) != val:
                problems.append(f'{cls.qual} tag {tag}: resolver {mine}, interpreter {val}')
        mine_fields = {f.name: f.static for f in table.fields(cls)}
        if r['fields'] and mine_fields != r['fields']:
            problems.append(f'{cls.qual}: fields {mine_fields} vs interpreter {r["fields"]}')
    mine_rules = {c.qual for c in table.rules()}
    if mine_rules != set(refl['rules']):
        problems.append(f'rule registry: resolver {sorted(mine_rules)} vs interpreter {sorted(refl["rules"])}')
    if refl['rules'] and not refl['rules'][0].endswith('InverseBinaryRule'):
        problems.append(f'registry order: first rule is {refl["rules"][0]}')
    return {'resolver_crosscheck': {'classes': len(refl['classes']), 'attributes_and_tags_compared': checked, 'rules': len(refl['rules']), 'disagreements': len(problems)}}, problems


class SympyCross:
    """Second normaliser: every Poly zero-test made by the checks is re-decided with sympy."""

    def __init__(self) -> None:
        for w in sorted(glob.glob('/opt/veriftools/wheels/mpmath-*.whl')) + sorted(glob.glob('/opt/veriftools/wheels/sympy-*.whl')):
            if w not in sys.path:
                sys.path.insert(0, w)
        import sympy

        self.sp = sympy
        self.n = 0
        self.disagreements: list[str] = []
        self.cache: dict = {}

    def to_sympy(self, p: poly.Poly):
        sp = self.sp
        expr = sp.Integer(0)
        for mono, c in p.t.items():
            term = sp.Rational(c.numerator, c.denominator)
            for atom, k in mono:
                if atom[0] == 'cos':
                    a = sp.cos(sp.Symbol(atom[1], real=True))
                elif atom[0] == 'sin':
                    a = sp.sin(sp.Symbol(atom[1], real=True))
                else:
                    a = sp.Symbol(f'{atom[0]}_{atom[1]}', real=True)
                term = term * a ** k
            expr += term
        return expr

    def is_zero(self, p: poly.Poly, mine: bool) -> None:
        key = tuple(sorted(p.t.items(), key=repr))
        if key in self.cache:
            return
        self.n += 1
        theirs = self.sp.simplify(self.sp.expand_trig(self.to_sympy(p))) == 0
        self.cache[key] = theirs
        if theirs != mine:
            self.disagreements.append(f'{p}: normal form says {"zero" if mine else "non-zero"}, sympy says {"zero" if theirs else "non-zero"}')


def second_normaliser(pid: str, world: World) -> tuple[dict, list[str]]:
    from .run import run_property

    cross = SympyCross()
    old = poly.Poly.is_zero

    def patched(self):  # type: ignore[no-untyped-def]
        res = old(self)
        cross.is_zero(self, res)
        return res

    old_cs = poly.cos_sin
    old_normal = poly.Poly.normal
    seen_cs: set = set()
    seen_nf: set = set()

    def cs_checked(form):  # type: ignore[no-untyped-def]
        c, s = old_cs(form)
        key = tuple(sorted(form.items()))
        if key not in seen_cs:
            seen_cs.add(key)
            sp = cross.sp
            arg = sum(n * sp.Symbol(a, real=True) for a, n in form.items())
            for mine, ref, what in ((c, sp.cos(arg), 'cos'), (s, sp.sin(arg), 'sin')):
                cross.n += 1
                if sp.simplify(sp.expand_trig(cross.to_sympy(mine) - ref)) != 0:
                    cross.disagreements.append(f'{what}({arg}) expanded to {mine}')
        return c, s

    def normal_checked(self):  # type: ignore[no-untyped-def]
        res = old_normal(self)
        key = tuple(sorted(self.t.items(), key=repr))
        if key not in seen_nf and any(a[0] == 'sin' and k >= 2 for m in self.t for a, k in m):
            seen_nf.add(key)
            cross.n += 1
            if cross.sp.simplify(cross.to_sympy(self) - cross.to_sympy(res)) != 0:
                cross.disagreements.append(f'normal form of {self} is {res}')
        return res

    poly.Poly.is_zero = patched  # type: ignore[method-assign]
    poly.cos_sin = cs_checked
    poly.Poly.normal = normal_checked  # type: ignore[method-assign]
    try:
        run_property(pid, world)
    finally:
        poly.Poly.is_zero = old  # type: ignore[method-assign]
        poly.cos_sin = old_cs
        poly.Poly.normal = old_normal  # type: ignore[method-assign]
    return {'second_normaliser': {'engine': f'sympy {cross.sp.__version__} (expand_trig + simplify)', 'zero_tests_rechecked': cross.n, 'disagreements': len(cross.disagreements)}}, cross.disagreements[:5]


def _refactor_job(args):
    pid, root, patch = args
    from .run import run_property

    try:
        v = world_with_patch(root, patch)
    except AnalysisError as exc:
        return patch, 'unappliable', str(exc)
    ck = run_property(pid, v)
    return patch, 'ok', (sorted(o.key for o in ck.violations()), sorted(o.key for o in ck.incompletes()), ck.floor_failures())


def refactor_corpus(pid: str, world: World, base_v: set, base_i: set) -> tuple[int, list[str]]:
    import multiprocessing as mp

    patches = sorted(glob.glob(os.path.join(VERIF, 'refactors', '*', 'patch.diff')))
    if not patches or world.overrides:
        return 0, []
    expected = {}
    exp_file = os.path.join(VERIF, 'refactors', 'expected.json')
    if os.path.exists(exp_file):
        with open(exp_file, encoding='utf-8') as f:
            expected = json.load(f)
    failures: list[str] = []
    with mp.get_context('fork').Pool(min(12, os.cpu_count() or 4)) as pool:
        results = pool.map(_refactor_job, [(pid, world.root, p) for p in patches])
    n = 0
    for patch, status, payload in results:
        rid = os.path.basename(os.path.dirname(patch))
        if status != 'ok':
            continue  # the refactor no longer applies to this tree (the code moved on): nothing to learn from it
        n += 1
        viol, inc, floors = payload
        new_v = [k for k in viol if k not in base_v]
        new_i = [k for k in inc if k not in base_i]
        allowed = expected.get(rid, {}).get(pid)
        if new_v:
            failures.append(f'refactor {rid}: false alarm: {new_v[:2]}')
        elif (new_i or floors) and allowed != 'undecided':
            failures.append(f'refactor {rid}: not decided: {(new_i or floors)[:2]}')
    return n, failures


def _compose_job(args):
    import re
    import shutil
    import tempfile

    pid, root, seed_patch, ref_patch, base_v = args
    from .run import run_property

    tmp = tempfile.mkdtemp(prefix='verif_compose_')
    try:
        shutil.copytree(os.path.join(root, 'src'), os.path.join(tmp, 'src'))
        for patch in (ref_patch, seed_patch):
            r = subprocess.run(['patch', '-p1', '--fuzz=2', '--no-backup-if-mismatch', '-s', '-i', patch], cwd=tmp, capture_output=True, text=True)
            if r.returncode != 0:
                return seed_patch, ref_patch, 'conflict'
        for patch in (ref_patch, seed_patch):
            with open(patch, encoding='utf-8') as f:
                for rel in set(re.findall(r'^\+\+\+ b/(\S+)', f.read(), re.M)):
                    try:
                        with open(os.path.join(tmp, rel), encoding='utf-8') as g:
                            compile(g.read(), rel, 'exec')
                    except (SyntaxError, OSError):
                        return seed_patch, ref_patch, 'conflict'
        ck = run_property(pid, World(tmp))
        new = {o.key for o in ck.violations()} - base_v
        if new:
            return seed_patch, ref_patch, 'reported'
        # on restructured code a structural rule abstains (exit 2, section 11 "restructured code"): undecided is not a miss
        return seed_patch, ref_patch, 'undecided' if (ck.incompletes() or ck.floor_failures()) else 'missed'
    finally:
        shutil.rmtree(tmp, ignore_errors=True)


def composed(pid: str, world: World, base_v: set) -> tuple[int, list[str]]:
    import multiprocessing as mp
    import re

    if world.overrides:
        return 0, []

    def files_of(patch):
        with open(patch, encoding='utf-8') as f:
            return set(re.findall(r'^\+\+\+ b/(\S+)', f.read(), re.M))

    refs = sorted(glob.glob(os.path.join(VERIF, 'refactors', '*', 'patch.diff')))
    jobs = []
    for meta_path in sorted(glob.glob(os.path.join(VERIF, 'seeded', '*', 'meta.json'))):
        with open(meta_path, encoding='utf-8') as f:
            meta = json.load(f)
        if meta.get('property') != pid or pid not in meta.get('caught_by', []):
            continue
        sp = os.path.join(os.path.dirname(meta_path), 'patch.diff')
        sf = files_of(sp)
        for rp in refs:
            if sf & files_of(rp):
                jobs.append((pid, world.root, sp, rp, base_v))
    if not jobs:
        return 0, []
    with mp.get_context('fork').Pool(min(12, os.cpu_count() or 4)) as pool:
        results = pool.map(_compose_job, jobs)
    n = 0
    failures = []
    global LAST_COMPOSED_UNDECIDED
    LAST_COMPOSED_UNDECIDED = 0
    for sp, rp, status in results:
        if status == 'conflict':
            continue
        n += 1
        if status == 'undecided':
            LAST_COMPOSED_UNDECIDED += 1
        if status == 'missed':
            failures.append(f'seed {os.path.basename(os.path.dirname(sp))} on refactor {os.path.basename(os.path.dirname(rp))}: the defect is neither reported nor declared undecided')
    return n, failures


LAST_COMPOSED_UNDECIDED = 0


def self_test(pid: str, world: World) -> tuple[dict, list[str]]:
    from .run import run_property

    failures: list[str] = []
    base = run_property(pid, world)
    base_v = {o.key for o in base.violations()}
    base_i = {o.key for o in base.incompletes()}
    # (a) behaviour-preserving variants must be silent
    nben = 0
    for name, make in VARIANTS.items():
        v = make(world)
        for m in v.modules.values():
            compile(m.source, m.relpath, 'exec')
        ck = run_property(pid, v)
        nben += 1
        new = sorted({o.key for o in ck.violations()} - base_v) + sorted({o.key for o in ck.incompletes()} - base_i) + ck.floor_failures()
        if new:
            failures.append(f'benign variant {name}: the check is not silent: {new[:3]}')
    # (b) seeded defects recorded for this property must be reported
    nseed = ncaught = 0
    for meta_path in sorted(glob.glob(os.path.join(VERIF, 'seeded', '*', 'meta.json'))):
        with open(meta_path, encoding='utf-8') as f:
            meta = json.load(f)
        if pid not in meta.get('caught_by', []):
            continue
        nseed += 1
        try:
            v = world_with_patch(world.root, os.path.join(os.path.dirname(meta_path), 'patch.diff'))
        except AnalysisError as exc:
            failures.append(f'seeded {meta["id"]}: {exc}')
            continue
        ck = run_property(pid, v)
        new = {o.key for o in ck.violations()} - base_v
        want = meta.get('expected_rules', {}).get(pid, [])
        if new and (not want or any(any(k.startswith(w) for w in want) for k in new)):
            ncaught += 1
        else:
            failures.append(f'seeded {meta["id"]}: expected a violation of {want or pid}, got {sorted(new)[:3]}')
    # (b2) behaviour-preserving refactors written by independent agents (helper extraction, control-flow restructuring,
    # equivalent spellings, class-hierarchy moves): the check must stay silent on every one of them
    nref, ref_fail = refactor_corpus(pid, world, base_v, base_i)
    failures += ref_fail
    # (b3) a seeded defect applied on top of a behaviour-preserving refactor of the same file must still be reported:
    # the normaliser and the canonical forms must not hide what they fold away
    ncomp, comp_fail = composed(pid, world, base_v)
    failures += comp_fail
    # (c) the pre-fix revision shows the recorded findings of this property
    hist = {}
    expected_file = os.path.join(VERIF, 'selftest', 'prefix_findings.json')
    if os.path.exists(expected_file):
        with open(expected_file, encoding='utf-8') as f:
            exp = json.load(f)
        want = exp.get('findings', {}).get(pid, [])
        if want:
            try:
                old = world_at(world.root, exp['revision'])
                ck = run_property(pid, old)
                got = {o.key for o in ck.violations()}
                missing = [w for w in want if w not in got]
                hist = {'revision': exp['revision'], 'expected': len(want), 'reported': len(want) - len(missing)}
                if missing:
                    failures.append(f'pre-fix revision {exp["revision"]}: recorded findings not reported: {missing[:3]}')
            except (AnalysisError, subprocess.CalledProcessError) as exc:
                hist = {'revision': exp['revision'], 'skipped': str(exc)[:80]}
    return {'self_test': {'benign_variants_silent': nben - sum(1 for f in failures if f.startswith('benign')), 'benign_variants': nben, 'refactor_corpus': nref,
                          'refactor_corpus_silent': nref - len(ref_fail), 'seed_on_refactor_pairs': ncomp, 'seed_on_refactor_reported': ncomp - len(comp_fail) - LAST_COMPOSED_UNDECIDED, 'seed_on_refactor_undecided': LAST_COMPOSED_UNDECIDED, 'seeded_defects': nseed,
                          'seeded_defects_reported': ncaught, 'historical': hist}}, failures


def run(pid: str, world: World, ck) -> tuple[dict, list[str]]:
    extra: dict = {}
    failures: list[str] = []
    t0 = time.time()
    if not world.overrides:
        e, f = crosscheck_class_table(world)
        extra.update(e)
        failures += [f'resolver disagrees with interpreter: {x}' for x in f[:5]]
    if pid in E6_PROPS:
        e, f = second_normaliser(pid, world)
        extra.update(e)
        failures += [f'second normaliser disagrees: {x}' for x in f]
    e, f = self_test(pid, world)
    extra.update(e)
    failures += f
    extra['thorough_wall_s'] = round(time.time() - t0, 2)
    return extra, failures

"""Thorough tier additions (resolver cross-check, second normaliser, self-test)."""

from __future__ import annotations


def run(pid, world, ck):
    return {}, []

"""E9c - argument selection at call sites to in-package callees.

A positional argument that is a bare name equal to the callee's parameter name at a *different* position,
while the argument at that position is the name of this position's parameter, is a swap
(e.g. ``uniform(key, shape)`` against ``def uniform(shape, key)``).  Exact, no heuristics: both names must
coincide crosswise with the callee's own parameter names.
"""

from __future__ import annotations

import ast

from .classes import ClassTable
from .loader import World, dotted, module_of, qualname


def _params_of(world: World, table: ClassTable, module, call: ast.Call, self_cls=None):
    f = call.func
    d = dotted(f)
    target = None
    skip = 0
    if d is not None:
        q = world.qualify(module, d)
        node = world.lookup(q) if q else None
        if isinstance(node, ast.FunctionDef):
            target = node
            par = getattr(node, '_parent', None)
            if isinstance(par, ast.ClassDef):
                decos = [world.qualify(module_of(node), x) for x in node.decorator_list]
                skip = 0 if 'staticmethod' in decos else 1
                if 'classmethod' not in decos and 'staticmethod' not in decos and not (isinstance(f, ast.Attribute) and isinstance(f.value, ast.Name) and f.value.id in ('self', 'cls')):
                    skip = 0  # Class.method(self, ...) explicit
        elif isinstance(node, ast.ClassDef):
            cls = table.find(qualname(node))
            if cls is not None:
                r = table.resolve(cls, '__init__')
                if r is not None and isinstance(r.node, ast.FunctionDef):
                    target, skip = r.node, 1
                else:
                    names = [fl.name for fl in table.fields(cls)]
                    return names
    if target is None and isinstance(f, ast.Attribute):
        # cls.method(...) / self.method(...) resolved by unique method name in the package
        cands = []
        for c in table.classes.values():
            n = c.own.get(f.attr)
            if isinstance(n, ast.FunctionDef):
                cands.append(n)
        sigs = {tuple(a.arg for a in n.args.args) for n in cands}
        if len(sigs) == 1 and cands:
            target = cands[0]
            decos = [world.qualify(module_of(target), x) for x in target.decorator_list]
            skip = 0 if 'staticmethod' in decos else 1
    if target is None:
        return None
    return [a.arg for a in target.args.posonlyargs + target.args.args][skip:]


def swaps(world: World, table: ClassTable, relpaths: set[str]):
    """(call node, description) for every crosswise swap; also returns the number of call sites examined."""
    found = []
    examined = 0
    for module in world.modules.values():
        if relpaths and module.relpath not in relpaths:
            continue
        for node in ast.walk(module.tree):
            if not isinstance(node, ast.Call) or len(node.args) < 2:
                continue
            params = _params_of(world, table, module, node)
            if not params:
                continue
            examined += 1
            # bare names only: `Cls(self.destination, self.source)` is how a dual operator is legitimately built
            names = [a.id if isinstance(a, ast.Name) else None for a in node.args]
            for i, n in enumerate(names):
                if n is None or i >= len(params) or n == params[i]:
                    continue
                if n in params:
                    j = params.index(n)
                    if j != i and j < len(names) and names[j] == params[i]:
                        if i < j:
                            found.append((node, f'`{ast.unparse(node)[:70]}` passes `{n}` at position {i + 1} and `{names[j]}` at position {j + 1}, but the callee declares ({", ".join(params)}): the two arguments are swapped'))
    return found, examined

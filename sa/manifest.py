"""Generates /verif/MANIFEST.json from the table below:  /venv/bin/python -m sa.manifest"""

from __future__ import annotations

import importlib
import json
import os

VERIF = os.path.dirname(os.path.dirname(os.path.abspath(__file__)))

from sa.manifest_table import CLAIMS, NOT_APPLICABLE


def build() -> dict:
    from sa.manifest_table import finalize

    finalize()
    checks = []
    for pid in sorted(CLAIMS):
        category, technique, text, note, ref = CLAIMS[pid]
        importlib.import_module(f'sa.props.{pid.lower()}')
        checks.append(
            {
                'property_id': pid,
                'quick_cmd': f'./check {pid}',
                'thorough_cmd': f'./check {pid} --tier thorough',
                'evidence_file': f'/verif/evidence/{pid}.json',
                'replay_cmd_template': f'./check {pid} -v',
                'engine': 'furax-sa',
                'level_claimed': {'category': category, 'text': text, 'design_ref': ref},
                'level_note': note,
                'technique': technique,
            }
        )
    return {
        'version': 1,
        'setup_cmd': '/venv/bin/python -m sa.setup_check',
        'hooks': {
            'guard': 'CMBSCIPOL_FURAX_VERIF',
            'enable': 'none needed: the checks read the source of /repo/src/furax and never execute it; no hook was added to the repository',
            'baseline_off_cmd': 'cd /repo && /venv/bin/python -m pytest -ra -q -p no:cacheprovider --timeout=900 --continue-on-collection-errors',
            'source_commits': [],
            'add_only': True,
        },
        'engines': [
            {
                'name': 'furax-sa',
                'path': '/verif/sa',
                'serves_properties': sorted(CLAIMS),
                'kind_free_text': 'repository-specific static analysis over the Python AST: class table with interpreted '
                'decorator effects, structured path enumeration with guard facts, canonical accessor terms, '
                'kind/linearity/trace-taint abstract interpretation of mv bodies, exact linear-form interpretation of the '
                'polarimetry arithmetic with a trigonometric polynomial normal form, definite-assignment/escape analysis '
                'of constructors, call graph, table-agreement rules',
            }
        ],
        'checks': checks,
        'not_applicable': [{'property_id': pid, 'reason': NOT_APPLICABLE[pid]} for pid in sorted(NOT_APPLICABLE)],
        'notes': 'All checks are static: they parse /repo/src/furax on every run (stdlib ast under /venv/bin/python) and decide '
        'rule obligations on the resolved program. Exit 0 = all obligations discharged; 1 = definite refutation (VIOLATION '
        'line); 2 = ANALYSIS-ERROR / ANALYSIS-INCOMPLETE (never a verdict). Known findings: /verif/known_findings.json.',
    }


def main() -> None:
    doc = build()
    path = os.path.join(VERIF, 'MANIFEST.json')
    with open(path, 'w', encoding='utf-8') as f:
        json.dump(doc, f, indent=1)
        f.write('\n')
    print(f'wrote {path}: {len(doc["checks"])} checks, {len(doc["not_applicable"])} not applicable')


if __name__ == '__main__':
    main()

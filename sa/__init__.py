"""Static-analysis engine for the furax verification checks.

Everything in this package reads the *source text* of /repo/src/furax (or of an
in-memory variant of it, for controls and the self-test).  Nothing here imports
furax, builds an operator or runs a test.
"""

"""E8 - name-resolved call graph over the package (over-approximate).

Edges: direct calls to module-level functions / classes (constructor -> __init__),
``self.m(...)`` and ``X.m(...)`` fanned out over every in-package class defining ``m``
(property reads ``X.p`` likewise, since properties execute code), ``super().m``.
Nested functions and lambdas belong to their enclosing top-level function / method.
"""

from __future__ import annotations

import ast

from .classes import ClassTable
from .loader import World, dotted, module_of, parent, qualname


def owner_function(node: ast.AST) -> ast.AST | None:
    """Outermost enclosing function (method or module-level function) of a node."""
    cur: ast.AST | None = node
    out = None
    while cur is not None:
        if isinstance(cur, (ast.FunctionDef, ast.AsyncFunctionDef)):
            out = cur
        cur = parent(cur)
    return out


class CallGraph:
    def __init__(self, world: World, table: ClassTable):
        self.world = world
        self.table = table
        self.functions: dict[str, ast.FunctionDef] = {}
        self.methods_by_name: dict[str, list[ast.FunctionDef]] = {}
        self.edges: dict[str, set[str]] = {}
        self._build()

    def _build(self) -> None:
        world = self.world
        for module in world.modules.values():
            for node in module.tree.body:
                if isinstance(node, ast.FunctionDef):
                    self.functions[qualname(node)] = node
                elif isinstance(node, ast.ClassDef):
                    for sub in node.body:
                        if isinstance(sub, ast.FunctionDef):
                            self.functions[qualname(sub)] = sub
                            self.methods_by_name.setdefault(sub.name, []).append(sub)
        for q, fn in self.functions.items():
            self.edges[q] = self._callees(fn)

    def _callees(self, fn: ast.FunctionDef) -> set[str]:
        world = self.world
        module = module_of(fn)
        out: set[str] = set()
        for node in ast.walk(fn):
            if isinstance(node, ast.Call):
                f = node.func
                d = dotted(f)
                if d is not None:
                    q = world.qualify(module, d)
                    target = world.lookup(q) if q else None
                    if isinstance(target, ast.FunctionDef):
                        out.add(qualname(target))
                        continue
                    if isinstance(target, ast.ClassDef):
                        cls = self.table.find(qualname(target))
                        if cls is not None:
                            for name in ('__init__', '__post_init__'):
                                r = self.table.resolve(cls, name)
                                if r and isinstance(r.node, ast.FunctionDef):
                                    out.add(qualname(r.node))
                        continue
                if isinstance(f, ast.Attribute):
                    for m in self.methods_by_name.get(f.attr, []):
                        out.add(qualname(m))
                elif isinstance(f, ast.Name):
                    # call of a local / parameter: could be an operator (__call__)
                    for m in self.methods_by_name.get('__call__', []):
                        out.add(qualname(m))
            elif isinstance(node, ast.Attribute) and isinstance(node.ctx, ast.Load):
                # property reads and bound-method references (e.g. passing self.mv around)
                for m in self.methods_by_name.get(node.attr, []):
                    out.add(qualname(m))
        out.discard(qualname(fn))
        return out

    def reachable(self, roots: list[str], skip=None) -> set[str]:
        """Functions reachable from the roots; with ``skip`` (a predicate on qualified names) such nodes are not entered."""
        seen: set[str] = set()
        stack = list(roots)
        while stack:
            q = stack.pop()
            if q in seen or (skip is not None and q not in roots and skip(q)):
                continue
            seen.add(q)
            stack.extend(self.edges.get(q, ()))
        return seen

    def path(self, root: str, target: str, skip=None) -> list[str] | None:
        prev: dict[str, str | None] = {root: None}
        queue = [root]
        while queue:
            q = queue.pop(0)
            if q == target:
                out = []
                cur: str | None = q
                while cur is not None:
                    out.append(cur)
                    cur = prev[cur]
                return out[::-1]
            for n in sorted(self.edges.get(q, ())):
                if skip is not None and skip(n):
                    continue
                if n not in prev:
                    prev[n] = q
                    queue.append(n)
        return None

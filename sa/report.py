"""Obligation bookkeeping, known findings, evidence files and exit codes."""

from __future__ import annotations

import ast
import json
import os
import time
from dataclasses import asdict, dataclass, field

from .loader import qualname, site

VERIF = os.path.dirname(os.path.dirname(os.path.abspath(__file__)))
EVIDENCE_DIR = os.path.join(VERIF, 'evidence')
KNOWN_FILE = os.path.join(VERIF, 'known_findings.json')


@dataclass
class Ob:
    rule: str
    construct: str
    site: str
    status: str  # ok | violation | incomplete
    how: str
    nontrivial: bool = True

    @property
    def key(self) -> str:
        return f'{self.rule} {self.construct}'


# functions (qualified names) of the analysed tree that are written with names the rule tables do not know -> reason; set per run
RESTRUCTURED: dict[str, str] = {}
# rules that decide by evaluating the code (E10) or by the mere presence of a construct: never demoted
SEMANTIC_RULES = {'N7', 'D7', 'X6', 'E7', 'P7', 'J7', 'V4', 'I7'}


_KNOWN_KEYS: set | None = None


def _known_keys() -> set:
    """Keys of the recorded known findings (they stay violations whatever happened to the code around them)."""
    global _KNOWN_KEYS
    if _KNOWN_KEYS is None:
        try:
            with open(KNOWN_FILE, encoding='utf-8') as f:
                data = json.load(f)
            _KNOWN_KEYS = {e.get('key') for e in data.get('known', []) if e.get('key')}
        except (OSError, ValueError):
            _KNOWN_KEYS = set()
    return _KNOWN_KEYS


def _construct(target: 'ast.AST | str', instance: str | None = None) -> tuple[str, str]:
    if isinstance(target, str):
        c, s = target, ''
    else:
        c, s = qualname(target), site(target)
    if instance:
        c = f'{c} [{instance}]'
    return c, s


@dataclass
class Checker:
    pid: str
    obs: list[Ob] = field(default_factory=list)
    notes: list[str] = field(default_factory=list)
    counts: dict[str, int] = field(default_factory=dict)
    trusted: list[str] = field(default_factory=list)
    assumptions: list[str] = field(default_factory=list)
    floors: list[tuple[str, int, int, str]] = field(default_factory=list)

    def ok(self, rule: str, target: 'ast.AST | str', how: str, instance: str | None = None, nontrivial: bool = True) -> None:
        c, s = _construct(target, instance)
        self.obs.append(Ob(f'{self.pid}.{rule}', c, s, 'ok', how, nontrivial))

    def bad(self, rule: str, target: 'ast.AST | str', why: str, instance: str | None = None, semantic: bool = False) -> None:
        c, s = _construct(target, instance)
        head = c.split(' [', 1)[0]
        if not semantic and rule not in SEMANTIC_RULES and head in RESTRUCTURED and f'{self.pid}.{rule} {c}' not in _known_keys():
            # a structural rule on code written with names it does not know: it cannot tell a defect from a rewrite
            self.obs.append(Ob(f'{self.pid}.{rule}', c, s, 'incomplete', f'{why}  [not decided: {head} {RESTRUCTURED[head]}; the structural rule does not refute restructured code]', True))
            return
        self.obs.append(Ob(f'{self.pid}.{rule}', c, s, 'violation', why, True))

    def incomplete(self, rule: str, target: 'ast.AST | str', why: str, instance: str | None = None) -> None:
        c, s = _construct(target, instance)
        self.obs.append(Ob(f'{self.pid}.{rule}', c, s, 'incomplete', why, True))

    def expect(
        self,
        rule: str,
        cond: bool,
        target: 'ast.AST | str',
        how_ok: str,
        why_bad: str,
        instance: str | None = None,
        nontrivial: bool = True,
        semantic: bool = False,
    ) -> bool:
        if cond:
            self.ok(rule, target, how_ok, instance, nontrivial)
        else:
            self.bad(rule, target, why_bad, instance, semantic=semantic)
        return cond

    def floor(self, rule: str, count: int, minimum: int, what: str) -> None:
        """A rule that enumerates instances must find at least the number confirmed by hand."""
        self.floors.append((f'{self.pid}.{rule}', count, minimum, what))
        self.counts[f'{rule}:{what}'] = count

    def note(self, text: str) -> None:
        self.notes.append(text)

    def trust(self, *items: str) -> None:
        for it in items:
            if it not in self.trusted:
                self.trusted.append(it)

    def assume(self, *items: str) -> None:
        for it in items:
            if it not in self.assumptions:
                self.assumptions.append(it)

    # ------------------------------------------------------------------
    def violations(self) -> list[Ob]:
        return [o for o in self.obs if o.status == 'violation']

    def incompletes(self) -> list[Ob]:
        return [o for o in self.obs if o.status == 'incomplete']

    def floor_failures(self) -> list[str]:
        return [
            f'{rule}: found {count} {what}, floor is {minimum}'
            for rule, count, minimum, what in self.floors
            if count < minimum
        ]


def load_known() -> dict:
    if not os.path.exists(KNOWN_FILE):
        return {'known': [], 'fixed': []}
    with open(KNOWN_FILE, encoding='utf-8') as f:
        return json.load(f)


def write_evidence(
    ck: Checker,
    *,
    tier: str,
    seed: int,
    level: str,
    explanation: str,
    rule_text: str,
    checker_cmd: str,
    world_stats: dict,
    wall_s: float,
    new_violations: list[Ob],
    known_hits: list[Ob],
    extra: dict | None = None,
) -> str:
    os.makedirs(EVIDENCE_DIR, exist_ok=True)
    nobs = len(ck.obs)
    discharged = sum(1 for o in ck.obs if o.status == 'ok')
    distinct_nontrivial = len({o.key for o in ck.obs if o.nontrivial and o.status == 'ok'})
    samples = []
    seen_rules: set[str] = set()
    for o in ck.obs:
        if o.rule not in seen_rules:
            seen_rules.add(o.rule)
            samples.append({'rule': o.rule, 'construct': o.construct, 'site': o.site, 'status': o.status, 'how': o.how})
    coverage = {
        'obligations': nobs,
        'discharged': discharged,
        'evaluations': nobs,
        'distinct_nontrivial': distinct_nontrivial,
        'rule': rule_text,
        'samples': samples[:40],
        'checker_cmd': checker_cmd,
        'trusted_base': ck.trusted,
        'explanation': explanation,
        'exhaustive': True,
        'analysed': world_stats,
        'instance_counts': ck.counts,
        'floors': [
            {'rule': r, 'found': c, 'floor': m, 'what': w} for r, c, m, w in ck.floors
        ],
        'rules_applied': sorted(seen_rules),
        'obligation_list': [
            {'rule': o.rule, 'construct': o.construct, 'site': o.site, 'status': o.status, 'how': o.how}
            for o in ck.obs
        ],
        'known_findings_reported': [o.key for o in known_hits],
        'notes': ck.notes,
    }
    if extra:
        coverage.update(extra)
    doc = {
        'property_id': ck.pid,
        'tier': tier,
        'seed': seed,
        'level': level,
        'coverage': coverage,
        'assumptions': ck.assumptions,
        'wall_s': round(wall_s, 3),
        'violations': len(new_violations),
    }
    path = os.path.join(EVIDENCE_DIR, f'{ck.pid}.json')
    with open(path, 'w', encoding='utf-8') as f:
        json.dump(doc, f, indent=1, sort_keys=False)
        f.write('\n')
    vpath = os.path.join(EVIDENCE_DIR, f'{ck.pid}.violations.json')
    if new_violations:
        with open(vpath, 'w', encoding='utf-8') as f:
            json.dump([asdict(o) | {'key': o.key} for o in new_violations], f, indent=1)
            f.write('\n')
    elif os.path.exists(vpath):
        os.remove(vpath)
    return path


class Timer:
    def __init__(self) -> None:
        self.t0 = time.time()

    def elapsed(self) -> float:
        return time.time() - self.t0

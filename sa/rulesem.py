"""Shared analysis of the binary reduction rules (used by C01, C07, C10, C12, C13, C15, C16).

``check`` is analysed as the driver calls it: before ``apply``, on the same (left, right).
Conditions that only involve the rule's own class attributes (``self.operator_class is not
None``, ``self.right_operator_class is TransposeOperator``) are decided from the class table,
which prunes infeasible paths; the remaining conditions become facts about ``left``/``right``.
"""

from __future__ import annotations

import ast
from dataclasses import dataclass

from .classes import ClassInfo, ClassTable
from .loader import Incomplete, World, module_of, site
from .paths import Path, function_paths, split_cond
from .terms import atom_facts, path_env, subst, term

LEFT, RIGHT = ('var', 'left'), ('var', 'right')


@dataclass
class RuleInfo:
    cls: ClassInfo
    style: str  # 'sides' | 'either'
    left: list[ClassInfo] | None
    right: list[ClassInfo] | None
    either: list[ClassInfo] | None
    left_is_exact_transpose: bool
    right_is_exact_transpose: bool


def rule_info(table: ClassTable, rule: ClassInfo) -> RuleInfo:
    oc = table.class_refs(rule, 'operator_class')
    lc = table.class_refs(rule, 'left_operator_class')
    rc = table.class_refs(rule, 'right_operator_class')
    transpose = table.by_name('TransposeOperator')

    def exact(name: str, refs: list[ClassInfo] | None) -> bool:
        return refs is not None and len(refs) == 1 and refs[0] is transpose and not table.is_tuple_attr(rule, name)

    return RuleInfo(
        cls=rule,
        style='either' if oc is not None else 'sides',
        left=lc,
        right=rc,
        either=oc,
        left_is_exact_transpose=exact('left_operator_class', lc),
        right_is_exact_transpose=exact('right_operator_class', rc),
    )


def _static_truth(world: World, table: ClassTable, rule: ClassInfo, atom: ast.AST, self_name: str) -> bool | None:
    """Truth value of a condition that depends only on the rule's class attributes."""
    if isinstance(atom, ast.Compare) and len(atom.ops) == 1 and isinstance(atom.ops[0], (ast.Is, ast.IsNot)):
        l, r = atom.left, atom.comparators[0]
        if not (isinstance(l, ast.Attribute) and isinstance(l.value, ast.Name) and l.value.id == self_name):
            l, r = r, l
        if isinstance(l, ast.Attribute) and isinstance(l.value, ast.Name) and l.value.id == self_name:
            value, owner = table.class_attr(rule, l.attr)
            if owner is None and value is None and l.attr not in ('operator_class', 'left_operator_class', 'right_operator_class'):
                return None
            is_none = value is None or (isinstance(value, ast.Constant) and value.value is None)
            if isinstance(r, ast.Constant) and r.value is None:
                res = is_none
            else:
                q = world.qualify(module_of(atom), r)
                k = table.find(q) if q else None
                if k is None:
                    return None
                if is_none or isinstance(value, ast.Tuple):
                    res = False
                else:
                    assert owner is not None and value is not None
                    vq = world.qualify(module_of(value), value)
                    res = vq is not None and table.find(vq) is k
            return res if isinstance(atom.ops[0], ast.Is) else not res
    return None


def _simplify(world, table, rule, expr: ast.AST, self_name: str):
    """Partially evaluates a condition w.r.t. the rule's class attributes: True / False / residual expr."""
    if isinstance(expr, ast.BoolOp):
        vals = [_simplify(world, table, rule, v, self_name) for v in expr.values]
        if isinstance(expr.op, ast.And):
            if any(v is False for v in vals):
                return False
            rest = [v for v in vals if v is not True]
            if not rest:
                return True
            return rest[0] if len(rest) == 1 else ast.BoolOp(op=ast.And(), values=rest)
        if any(v is True for v in vals):
            return True
        rest = [v for v in vals if v is not False]
        if not rest:
            return False
        return rest[0] if len(rest) == 1 else ast.BoolOp(op=ast.Or(), values=rest)
    if isinstance(expr, ast.UnaryOp) and isinstance(expr.op, ast.Not):
        v = _simplify(world, table, rule, expr.operand, self_name)
        if isinstance(v, bool):
            return not v
        return ast.UnaryOp(op=ast.Not(), operand=v)
    st = _static_truth(world, table, rule, expr, self_name)
    return expr if st is None else st


def _rename(fn: ast.FunctionDef) -> dict:
    """Maps the parameter names of check/apply to canonical left/right."""
    params = [a.arg for a in fn.args.args]
    if len(params) < 3:
        raise Incomplete(site(fn), 'rule method without (self, left, right)')
    return {('var', params[1]): LEFT, ('var', params[2]): RIGHT, ('var', params[0]): ('var', 'self')}


def _expand_self_classes(table: ClassTable, rule: ClassInfo, t):
    """isinstance(x, self.left_operator_class) -> the declared classes."""
    if isinstance(t, tuple) and t[0] == 'attr' and t[1] == ('var', 'self') and t[2] in ('operator_class', 'left_operator_class', 'right_operator_class'):
        refs = table.class_refs(rule, t[2])
        if refs is not None:
            return ('classes',) + tuple(sorted(c.qual for c in refs))
    return t


def classes_of_term(world: World, table: ClassTable, module, t) -> list[ClassInfo] | None:
    """Resolves the class operand of an isinstance fact."""
    if isinstance(t, tuple) and t[0] == 'classes':
        return [table.get(q) for q in t[1:]]
    if isinstance(t, tuple) and t[0] == 'tuple':
        out = []
        for x in t[1:]:
            sub = classes_of_term(world, table, module, x)
            if sub is None:
                return None
            out.extend(sub)
        return out
    name = None
    if isinstance(t, tuple) and t[0] == 'var':
        name = t[1]
    elif isinstance(t, tuple) and t[0] == 'attr':
        parts = []
        cur = t
        while cur[0] == 'attr':
            parts.append(cur[2])
            cur = cur[1]
        if cur[0] == 'var':
            name = '.'.join([cur[1]] + parts[::-1])
    if name is None:
        return None
    q = world.qualify(module, name)
    k = table.find(q) if q else None
    if k is None and '.' not in name:
        # a term does not remember the module it was written in (inlined code keeps the names of its own module):
        # a simple name that denotes exactly one class of the package is that class
        hits = [c for c in table.classes.values() if c.name == name]
        if len(hits) == 1:
            k = hits[0]
    return [k] if k is not None else None


def method_paths(world: World, table: ClassTable, rule: ClassInfo, name: str, depth: int = 0):
    """Feasible paths of rule.<name> as (facts, path, env, fn) tuples, with ``super().<name>(left,
    right)`` inlined (non-raising paths of the parent only) and rule-attribute conditions decided."""
    r = table.resolve(rule, name)
    if r is None or not isinstance(r.node, ast.FunctionDef):
        raise Incomplete(site(rule.node), f'{rule.name}.{name} does not resolve to a function')
    return _fn_paths(world, table, rule, r.node, r.owner, name, depth)


def _fn_paths(world, table, rule, fn: ast.FunctionDef, owner: ClassInfo | None, name: str, depth: int):
    if depth > 4:
        raise Incomplete(site(fn), 'super() chain too deep')
    ren = _rename(fn)
    self_name = fn.args.args[0].arg
    out = []
    for path in function_paths(fn):
        feasible = True
        fs: set = set()
        env: dict = {}
        inherited: list[set] = [set()]
        for ev in path.events:
            if ev[0] == 'cond':
                simp = _simplify(world, table, rule, ev[1], self_name)
                if isinstance(simp, bool):
                    if simp != ev[2]:
                        feasible = False
                    continue
                for atom, pol in split_cond(simp, ev[2]):
                    for f in atom_facts(atom, pol, env):
                        f = subst(f, ren)
                        if f[0] == 'isinstance':
                            f = (f[0], f[1], _expand_self_classes(table, rule, f[2]), f[3])
                        fs.add(f)
            elif ev[0] == 'stmt':
                st = ev[1]
                # super().<name>(left, right)
                if (
                    isinstance(st, ast.Expr)
                    and isinstance(st.value, ast.Call)
                    and isinstance(st.value.func, ast.Attribute)
                    and st.value.func.attr == name
                    and isinstance(st.value.func.value, ast.Call)
                    and isinstance(st.value.func.value.func, ast.Name)
                    and st.value.func.value.func.id == 'super'
                ):
                    if owner is None:
                        raise Incomplete(site(st), 'super() call outside a class')
                    idx = rule.mro.index(owner)
                    parent_fn = None
                    parent_owner = None
                    for k in rule.mro[idx + 1:]:
                        if isinstance(k.own.get(name), ast.FunctionDef):
                            parent_fn, parent_owner = k.own[name], k
                            break
                    if parent_fn is None:
                        raise Incomplete(site(st), f'super().{name} does not resolve')
                    sub = _fn_paths(world, table, rule, parent_fn, parent_owner, name, depth + 1)
                    normal = [s for s in sub if s[1].exit in ('fall', 'return')]
                    inherited = [a | s[0] for a in inherited for s in normal]
                elif (
                    isinstance(st, ast.Expr)
                    and isinstance(st.value, ast.Call)
                    and isinstance(st.value.func, ast.Attribute)
                    and isinstance(st.value.func.value, ast.Name)
                    and st.value.func.value.id == self_name
                    and len(st.value.args) == 2
                    and not st.value.keywords
                    and [subst(term(a, env), ren) for a in st.value.args] == [LEFT, RIGHT]
                    and (helper := table.resolve(rule, st.value.func.attr)) is not None
                    and isinstance(helper.node, ast.FunctionDef)
                    and len(helper.node.args.args) == 3
                ):
                    # self.<helper>(left, right) as a statement: execution continues only on the helper's normal paths
                    sub = _fn_paths(world, table, rule, helper.node, helper.owner, st.value.func.attr, depth + 1)
                    normal = [s for s in sub if s[1].exit in ('fall', 'return')]
                    inherited = [a | s[0] for a in inherited for s in normal]
                else:
                    env = path_env(Path([ev]), env)
            elif ev[0] == 'iter':
                env = path_env(Path([ev]), env)
            if not feasible:
                break
        if not feasible:
            continue
        # `return super().<name>(left, right)` / `return self.<helper>(left, right)`: the outcome is the callee's
        tail = _tail_callee(world, table, rule, fn, owner, name, path, env, ren, self_name)
        if tail is not None:
            callee_fn, callee_owner, callee_name = tail
            for cfs, cpath, cenv, cfn in _fn_paths(world, table, rule, callee_fn, callee_owner, callee_name, depth + 1):
                for inh in inherited:
                    if not _contradictory(fs | inh | cfs):
                        out.append((fs | inh | cfs, cpath, cenv, cfn))
            continue
        for inh in inherited:
            out.append((fs | inh, path, env, fn))
    return out


def _tail_callee(world, table, rule, fn, owner, name, path, env, ren, self_name):
    if path.exit != 'return' or not isinstance(path.node, ast.Return) or not isinstance(path.node.value, ast.Call):
        return None
    call = path.node.value
    f = call.func
    if call.keywords or len(call.args) != 2 or not isinstance(f, ast.Attribute):
        return None
    if [subst(term(a, env), ren) for a in call.args] != [LEFT, RIGHT]:
        return None
    if isinstance(f.value, ast.Call) and isinstance(f.value.func, ast.Name) and f.value.func.id == 'super' and owner is not None:
        idx = rule.mro.index(owner)
        for k in rule.mro[idx + 1:]:
            if isinstance(k.own.get(f.attr), ast.FunctionDef):
                return k.own[f.attr], k, f.attr
        return None
    if isinstance(f.value, ast.Name) and f.value.id == self_name:
        r = table.resolve(rule, f.attr)
        if r is not None and isinstance(r.node, ast.FunctionDef) and len(r.node.args.args) == 3 and r.node is not fn:
            return r.node, r.owner, f.attr
    return None


def combined_paths(world: World, table: ClassTable, rule: ClassInfo):
    """(check facts ∪ apply facts, apply path, env, apply fn) for every feasible combination in
    which check returns normally."""
    checks = [c for c in method_paths(world, table, rule, 'check') if c[1].exit in ('fall', 'return')]
    applies = method_paths(world, table, rule, 'apply')
    out = []
    for cf, _, _, _ in checks:
        for af, path, env, fn in applies:
            facts = cf | af
            if _contradictory(facts):
                continue
            out.append((facts, path, env, fn))
    return out


def _contradictory(fs: set) -> bool:
    for f in fs:
        if f[0] == 'isinstance':
            if (f[0], f[1], f[2], not f[3]) in fs:
                return True
        if f[0] == 'is' and ('isnot', f[1]) in fs:
            return True
        if f[0] == 'eq' and ('ne', f[1]) in fs:
            return True
        if f[0] == 'truth' and ('truth', f[1], not f[2]) in fs:
            return True
    return False


def identity_guard(fs: set) -> str | None:
    if ('is', frozenset({('attr', LEFT, 'operator'), RIGHT})) in fs:
        return 'left.operator is right'
    if ('is', frozenset({('attr', RIGHT, 'operator'), LEFT})) in fs:
        return 'right.operator is left'
    return None


def known_classes(world: World, table: ClassTable, module, fs: set, var) -> list[ClassInfo] | None:
    """Classes that ``var`` is known to be an instance of (positive isinstance facts)."""
    out: list[ClassInfo] | None = None
    for f in fs:
        if f[0] == 'isinstance' and f[1] == var and f[3] is True:
            ks = classes_of_term(world, table, module, f[2])
            if ks is None:
                continue
            if out is None:
                out = ks
            else:
                # intersection by subclass relation
                out = [a for a in out if any(table.is_subclass(a, b) for b in ks)] + [
                    b for b in ks if any(table.is_subclass(b, a) and b is not a for a in out)
                ]
    return out


def _homothety_roles_partition(fn: ast.FunctionDef, roles: dict) -> dict | None:
    """The same roles when the operands are partitioned by two comprehensions and the scalars multiplied in a loop over
    the scalar part: scalars = [x for x in ops if isinstance(x, H)]; kept = [x for x in ops if not isinstance(x, H)];
    for h in scalars: value *= h.value.  The number of scalars is len(scalars)."""
    ops = roles['ops']
    scalars = kept = None
    test = elem = None
    for st in fn.body:
        if not (isinstance(st, ast.Assign) and len(st.targets) == 1 and isinstance(st.targets[0], ast.Name) and isinstance(st.value, ast.ListComp)):
            continue
        c = st.value
        if len(c.generators) != 1 or not isinstance(c.generators[0].target, ast.Name) or len(c.generators[0].ifs) != 1:
            continue
        g = c.generators[0]
        if not (isinstance(g.iter, ast.Name) and g.iter.id == ops and isinstance(c.elt, ast.Name) and c.elt.id == g.target.id):
            continue
        t = term(g.ifs[0])
        if t[0] == 'call' and t[1] == ('var', 'isinstance') and t[2][0] == ('var', g.target.id):
            scalars, test, elem = st.targets[0].id, t, g.target.id
        elif t[0] == 'unop' and t[1] == 'not' and t[2][0] == 'call' and t[2][1] == ('var', 'isinstance') and t[2][2][0] == ('var', g.target.id):
            kept = st.targets[0].id
            if test is None:
                test, elem = t[2], g.target.id
    if scalars is None or kept is None:
        return None
    # the partition must be by one and the same class test
    out = dict(roles)
    out.update({'kept': kept, 'scalars': scalars, 'test': test if test[2][0] == ('var', elem) else test, 'elem': elem, 'count': f'len({scalars})',
                'count_term': ('call', ('var', 'len'), (('var', scalars),), ())})
    for st in fn.body:
        if isinstance(st, ast.For) and isinstance(st.iter, ast.Name) and st.iter.id == scalars and isinstance(st.target, ast.Name):
            for b in st.body:
                if isinstance(b, ast.AugAssign) and isinstance(b.target, ast.Name) and isinstance(b.op, ast.Mult) and term(b.value) == ('attr', ('var', st.target.id), 'value'):
                    out['value'] = b.target.id
                    out['loop'] = st
    return out if 'value' in out else None


def homothety_roles(fn: ast.FunctionDef) -> dict | None:
    """Discovers, by role, the local names of HomothetyRule.apply: the operand list parameter, first/last (from the
    starred unpacking), the scalar accumulator, the list of kept operands, the scalar counter and the side flag."""
    if len(fn.args.args) < 2:
        return None
    ops = fn.args.args[1].arg
    roles: dict = {'ops': ops}
    for st in ast.walk(fn):
        if isinstance(st, ast.Assign) and isinstance(st.targets[0], ast.Tuple) and isinstance(st.value, ast.Name) and st.value.id == ops:
            elts = st.targets[0].elts
            if len(elts) == 3 and isinstance(elts[0], ast.Name) and isinstance(elts[1], ast.Starred) and isinstance(elts[2], ast.Name):
                roles['first'], roles['last'] = elts[0].id, elts[2].id
    loops = [n for n in fn.body if isinstance(n, ast.For) and isinstance(n.iter, ast.Name) and n.iter.id == ops and isinstance(n.target, ast.Name)]
    if len(loops) != 1:
        alt = _homothety_roles_partition(fn, roles)
        if alt is not None:
            for st in fn.body:
                if isinstance(st, ast.Assign) and isinstance(st.targets[0], ast.Name) and isinstance(st.value, ast.Compare):
                    alt['side'] = st.targets[0].id
                    alt['side_term'] = term(st.value)
        return alt
    loop = loops[0]
    v = loop.target.id
    roles['loop'], roles['elem'] = loop, v
    for st in loop.body:
        if isinstance(st, ast.If):
            t = term(st.test)
            if t[0] == 'call' and t[1] == ('var', 'isinstance') and t[2][0] == ('var', v):
                roles['test'] = t
                for b in st.body:
                    if isinstance(b, ast.AugAssign) and isinstance(b.target, ast.Name):
                        if isinstance(b.op, ast.Mult) and term(b.value) == ('attr', ('var', v), 'value'):
                            roles['value'] = b.target.id
                        elif isinstance(b.op, ast.Add) and term(b.value) == ('const', '1'):
                            roles['count'] = b.target.id
                for b in st.orelse:
                    if isinstance(b, ast.Expr) and isinstance(b.value, ast.Call) and isinstance(b.value.func, ast.Attribute) and b.value.func.attr == 'append' \
                            and isinstance(b.value.func.value, ast.Name) and term(b.value.args[0]) == ('var', v):
                        roles['kept'] = b.value.func.value.id
    for st in fn.body:
        if isinstance(st, ast.Assign) and isinstance(st.targets[0], ast.Name) and isinstance(st.value, ast.Compare):
            roles['side'] = st.targets[0].id
            roles['side_term'] = term(st.value)
    return roles

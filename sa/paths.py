"""E3 - structured path enumeration over function bodies.

furax's control flow is fully structured, so paths are enumerated syntactically.  Loops are
summarised by 0-or-1 iterations; ``try`` by "body completes" plus "handler entered after an
unknown prefix of the body".  A path is a list of events and an exit.

Events
    ('stmt', node)              a simple statement executed
    ('cond', expr, polarity)    a branch / loop / assert condition known on this path
    ('iter', node, entered)     a for loop entered (target bound to an element) or skipped
    ('try', node)               entering a try body
    ('except', handler)         an exception handler entered (body prefix unknown)
    ('with', node)              a with statement entered
Exits
    'return' (node), 'raise' (node), 'fall' (None), and internally 'break' / 'continue'.
"""

from __future__ import annotations

import ast
from dataclasses import dataclass, field

from .loader import Incomplete, site

MAX_PATHS = 20000


@dataclass
class Path:
    events: list[tuple] = field(default_factory=list)
    exit: str = 'fall'
    node: ast.AST | None = None

    def extend(self, other: 'Path') -> 'Path':
        return Path(self.events + other.events, other.exit, other.node)

    def conds(self) -> list[tuple[ast.AST, bool]]:
        out: list[tuple[ast.AST, bool]] = []
        for ev in self.events:
            if ev[0] == 'cond':
                out.extend(split_cond(ev[1], ev[2]))
        return out

    def stmts(self) -> list[ast.AST]:
        return [ev[1] for ev in self.events if ev[0] == 'stmt']


def split_cond(expr: ast.AST, polarity: bool) -> list[tuple[ast.AST, bool]]:
    """De Morgan flattening: returns atomic (expr, polarity) facts implied by the condition."""
    if isinstance(expr, ast.UnaryOp) and isinstance(expr.op, ast.Not):
        return split_cond(expr.operand, not polarity)
    if isinstance(expr, ast.BoolOp):
        if isinstance(expr.op, ast.And) and polarity:
            return [f for v in expr.values for f in split_cond(v, True)]
        if isinstance(expr.op, ast.Or) and not polarity:
            return [f for v in expr.values for f in split_cond(v, False)]
    if isinstance(expr, ast.NamedExpr):
        return [(expr, polarity)] + split_cond(expr.value, polarity)
    return [(expr, polarity)]


def _is_const_false(expr: ast.AST) -> bool:
    return isinstance(expr, ast.Constant) and expr.value is False


def enum_paths(stmts: list[ast.stmt]) -> list[Path]:
    paths = [Path()]
    for stmt in stmts:
        live = [p for p in paths if p.exit == 'fall']
        dead = [p for p in paths if p.exit != 'fall']
        if not live:
            break
        nxt = _stmt_paths(stmt)
        paths = dead + [p.extend(q) for p in live for q in nxt]
        if len(paths) > MAX_PATHS:
            raise Incomplete(site(stmt), 'path explosion')
    return paths


def _loop_after(body_paths: list[Path], orelse: list[ast.stmt]) -> list[Path]:
    out: list[Path] = []
    else_paths = enum_paths(orelse) if orelse else [Path()]
    for bp in body_paths:
        if bp.exit in ('fall', 'continue'):
            for ep in else_paths:
                out.append(Path(bp.events, 'fall', None).extend(ep))
        elif bp.exit == 'break':
            out.append(Path(bp.events, 'fall', None))
        else:
            out.append(bp)
    return out


def _stmt_paths(stmt: ast.stmt) -> list[Path]:
    # `x = a if c else b` / `return a if c else b` are branches: one path per arm, with the condition as an event and
    # the statement specialised to the arm (a shallow copy: position, parent and module links are kept)
    if isinstance(stmt, (ast.Assign, ast.AnnAssign, ast.Return)) and isinstance(stmt.value, ast.IfExp):
        import copy

        out = []
        for pol, arm in ((True, stmt.value.body), (False, stmt.value.orelse)):
            clone = copy.copy(stmt)
            clone.value = arm
            for q in _stmt_paths(clone):
                out.append(Path([('cond', stmt.value.test, pol)] + q.events, q.exit, q.node))
        return out
    if isinstance(stmt, ast.Return):
        return [Path([], 'return', stmt)]
    if isinstance(stmt, ast.Raise):
        return [Path([], 'raise', stmt)]
    if isinstance(stmt, ast.Break):
        return [Path([], 'break', stmt)]
    if isinstance(stmt, ast.Continue):
        return [Path([], 'continue', stmt)]
    if isinstance(stmt, ast.Assert):
        out = []
        if not _is_const_false(stmt.test):
            out.append(Path([('cond', stmt.test, True)], 'fall', None))
        out.append(Path([('cond', stmt.test, False)], 'raise', stmt))
        return out
    if isinstance(stmt, ast.If):
        out = []
        for q in enum_paths(stmt.body):
            out.append(Path([('cond', stmt.test, True)] + q.events, q.exit, q.node))
        for q in enum_paths(stmt.orelse) if stmt.orelse else [Path()]:
            out.append(Path([('cond', stmt.test, False)] + q.events, q.exit, q.node))
        return out
    if isinstance(stmt, (ast.For, ast.AsyncFor)):
        skipped = [Path([('iter', stmt, False)])]
        entered = [Path([('iter', stmt, True)] + q.events, q.exit, q.node) for q in enum_paths(stmt.body)]
        return _loop_after(skipped, stmt.orelse) + _loop_after(entered, stmt.orelse)
    if isinstance(stmt, ast.While):
        skipped = [Path([('cond', stmt.test, False)])]
        entered = [Path([('cond', stmt.test, True)] + q.events, q.exit, q.node) for q in enum_paths(stmt.body)]
        return _loop_after(skipped, stmt.orelse) + _loop_after(entered, stmt.orelse)
    if isinstance(stmt, ast.Try) or (hasattr(ast, 'TryStar') and isinstance(stmt, ast.TryStar)):
        out = []
        final = enum_paths(stmt.finalbody) if stmt.finalbody else [Path()]
        else_paths = enum_paths(stmt.orelse) if stmt.orelse else [Path()]
        for q in enum_paths(stmt.body):
            base = Path([('try', stmt)] + q.events, q.exit, q.node)
            if q.exit == 'fall':
                for e in else_paths:
                    out.append(base.extend(e))
            else:
                out.append(base)
        for h in stmt.handlers:
            for q in enum_paths(h.body):
                out.append(Path([('try', stmt), ('except', h)] + q.events, q.exit, q.node))
        if stmt.finalbody:
            out2 = []
            for p in out:
                for f in final:
                    if f.exit == 'fall':
                        out2.append(Path(p.events + f.events, p.exit, p.node))
                    else:
                        out2.append(p.extend(f))
            out = out2
        return out
    if isinstance(stmt, (ast.With, ast.AsyncWith)):
        return [Path([('with', stmt)] + q.events, q.exit, q.node) for q in enum_paths(stmt.body)]
    if hasattr(ast, 'Match') and isinstance(stmt, ast.Match):
        raise Incomplete(site(stmt), 'match statement')
    # simple statements (incl. nested def/class, import, pass, expr, assign ...)
    return [Path([('stmt', stmt)], 'fall', None)]


def function_paths(fn: ast.FunctionDef | ast.Lambda) -> list[Path]:
    if isinstance(fn, ast.Lambda):
        ret = ast.Return(value=fn.body)
        ast.copy_location(ret, fn.body)
        ret._parent = fn  # type: ignore[attr-defined]
        ret._module = fn._module  # type: ignore[attr-defined]
        return [Path([], 'return', ret)]
    body = list(fn.body)
    if body and isinstance(body[0], ast.Expr) and isinstance(body[0].value, ast.Constant) and isinstance(body[0].value.value, str):
        body = body[1:]
    return [p for p in enum_paths(body) if _feasible(p)]


def _feasible(path: 'Path') -> bool:
    """False when a branch condition of the path is a constant, given the straight-line assignments before it, and the
    path takes the other arm (`ok = False; ...; if not ok:` - the shape single-exit helpers take once they are inlined)."""
    from .terms import NotEvaluable, eval_term, path_env, term

    if not any(ev[0] == 'cond' for ev in path.events):
        return True
    env: dict = {}
    for ev in path.events:
        if ev[0] == 'cond':
            t = term(ev[1], env)
            try:
                v = eval_term(t, {})
            except NotEvaluable:
                v = None
            except Exception:  # noqa: BLE001 - anything odd in a condition: keep the path
                v = None
            if v is not None and bool(v) != ev[2]:
                return False
        env = path_env(Path([ev]), env)
    return True


def exception_name(node: ast.AST | None) -> str | None:
    """Name of the exception class raised by a Raise/Assert node."""
    if isinstance(node, ast.Assert):
        return 'AssertionError'
    if isinstance(node, ast.Raise):
        exc = node.exc
        if exc is None:
            # a bare raise re-raises what the enclosing handler caught
            cur = getattr(node, '_parent', None)
            while cur is not None and not isinstance(cur, (ast.ExceptHandler, ast.FunctionDef, ast.Lambda)):
                cur = getattr(cur, '_parent', None)
            if isinstance(cur, ast.ExceptHandler) and isinstance(cur.type, (ast.Name, ast.Attribute)):
                return cur.type.id if isinstance(cur.type, ast.Name) else cur.type.attr
            return '<reraise>'
        if isinstance(exc, ast.Call):
            exc = exc.func
        if isinstance(exc, ast.Name):
            return exc.id
        if isinstance(exc, ast.Attribute):
            return exc.attr
    return None


def paths_at_defaults(fn: ast.FunctionDef, nknown: int) -> list[Path]:
    """Paths of fn on which every parameter beyond the first ``nknown`` positional ones takes its (constant) default: an
    optional parameter added later, whose default is the previous behaviour, does not multiply the cases a rule sees."""
    from .terms import NotEvaluable, eval_term, path_env, term

    a = fn.args
    pos = a.posonlyargs + a.args
    defaults = dict(zip([p.arg for p in pos[len(pos) - len(a.defaults):]], a.defaults))
    defaults.update({p.arg: d for p, d in zip(a.kwonlyargs, a.kw_defaults) if d is not None})
    extra = {}
    for p in pos[nknown:] + a.kwonlyargs:
        d = defaults.get(p.arg)
        if isinstance(d, ast.Constant) and (isinstance(d.value, (bool, int)) or d.value is None):
            extra[('var', p.arg)] = d.value if d.value is not None else 0
            if d.value is None:
                extra[('var', p.arg)] = None
    out = []
    for path in function_paths(fn):
        env: dict = {}
        ok = True
        for ev in path.events:
            if ev[0] == 'cond':
                t = term(ev[1], env)
                val = None
                if t in extra:
                    val = bool(extra[t])
                elif t[0] == 'cmp' and t[1] in ('is', 'isnot') and t[2] in extra and t[3] == ('const', 'None'):
                    val = (extra[t[2]] is None) == (t[1] == 'is')
                else:
                    try:
                        val = bool(eval_term(t, {k: v for k, v in extra.items() if v is not None}))
                    except (NotEvaluable, TypeError):
                        val = None
                if val is not None and val != ev[2]:
                    ok = False
                    break
            env = path_env(Path([ev]), env)
        if ok:
            out.append(path)
    return out

"""E4 - canonical terms for accessor-like expressions and facts along a path.

A term is a nested tuple.  ``.T`` / ``.transpose()`` -> ('T', x); ``.I`` / ``.inverse()`` ->
('I', x); ``x.in_structure()`` -> ('IN', x); ``x.out_structure()`` -> ('OUT', x);
``op.mv(v)`` and ``op(v)`` (when ``op`` is a known operator-valued term) -> ('apply', op, v).
Local names are substituted by the terms they were assigned on the path.
"""

from __future__ import annotations

import ast
from typing import Any

from .paths import Path, split_cond

Term = Any

_CMP = {
    ast.Eq: 'eq', ast.NotEq: 'ne', ast.Is: 'is', ast.IsNot: 'isnot', ast.Lt: 'lt', ast.LtE: 'le',
    ast.Gt: 'gt', ast.GtE: 'ge', ast.In: 'in', ast.NotIn: 'notin',
}
_BIN = {
    ast.Add: '+', ast.Sub: '-', ast.Mult: '*', ast.Div: '/', ast.MatMult: '@', ast.FloorDiv: '//',
    ast.Mod: '%', ast.Pow: '**', ast.BitAnd: '&', ast.BitOr: '|', ast.BitXor: '^', ast.LShift: '<<', ast.RShift: '>>',
}
_UN = {ast.USub: 'neg', ast.UAdd: 'pos', ast.Not: 'not', ast.Invert: 'inv'}


def var(name: str) -> Term:
    return ('var', name)


# Import aliases are irrelevant: a name bound by an import is rewritten to the conventional alias the rule
# patterns are written with, and jax.tree_util spellings to their jax.tree synonyms.
CANONICAL_ALIAS = {
    'jax.numpy': 'jnp', 'numpy': 'np', 'jax': 'jax', 'lineax': 'lx', 'functools': 'functools', 'jax.scipy.linalg': 'jsl',
    'jax.lax': 'lax', 'jax_healpy': 'jhp', 'operator': 'operator', 'equinox': 'equinox', 'math': 'math',
}
TREE_SYNONYMS = {'tree_map': 'map', 'tree_leaves': 'leaves', 'tree_flatten': 'flatten', 'tree_unflatten': 'unflatten',
                 'tree_structure': 'structure', 'tree_reduce': 'reduce', 'tree_all': 'all'}


def _canonical_name(expr: ast.Name) -> Term:
    module = getattr(expr, '_module', None)
    if module is not None and expr.id in module.imports and expr.id not in module.defs:
        target = module.imports[expr.id]
        if target in CANONICAL_ALIAS:
            alias = CANONICAL_ALIAS[target]
            if alias == 'functools' and expr.id == 'ft':
                return ('var', 'ft')
            return ('var', alias)
        if target == 'jax.tree_util':
            return ('attr', ('var', 'jax'), 'tree_util')
        if target == 'jax.tree':
            return ('attr', ('var', 'jax'), 'tree')
        if target.startswith('jax.tree_util.') and target.split('.')[-1] in TREE_SYNONYMS:
            return ('attr', ('attr', ('var', 'jax'), 'tree'), TREE_SYNONYMS[target.split('.')[-1]])
        if target.startswith('jax.tree.'):
            return ('attr', ('attr', ('var', 'jax'), 'tree'), target.split('.')[-1])
        # from <module with a conventional alias> import name  ->  alias.name
        head, _, last = target.rpartition('.')
        if head in ('jax.numpy', 'numpy', 'jax.scipy.linalg', 'jax.lax', 'functools', 'operator', 'math') and last:
            return ('attr', ('var', CANONICAL_ALIAS[head]), last)
    return ('var', expr.id)


# positional-or-keyword parameter names of in-package callables, by simple name (set by the driver once the class
# table is built): a keyword argument naming such a parameter is moved to its positional slot, so that
# `CompositionOperator(operands=x)` and `CompositionOperator(x)` are one term
SIGNATURES: dict[str, list[str]] = {}

_OPERATOR_FUNCS = {'operator.matmul': '@', 'operator.add': '+', 'operator.sub': '-', 'operator.mul': '*', 'operator.truediv': '/'}


def _qualified(f: ast.AST) -> str | None:
    """Dotted name of a callee with the import aliases of its module resolved (no package knowledge needed)."""
    parts: list[str] = []
    cur = f
    while isinstance(cur, ast.Attribute):
        parts.append(cur.attr)
        cur = cur.value
    if not isinstance(cur, ast.Name):
        return None
    module = getattr(cur, '_module', None)
    head = cur.id
    if module is not None and head in module.imports and head not in module.defs:
        head = module.imports[head]
    return '.'.join([head] + parts[::-1])


# positional parameters of a few external functions the package passes positionally, and keyword arguments that only
# restate a default (dropping them changes nothing)
EXTERNAL_SIGNATURES = {'moveaxis': ['a', 'source', 'destination'], 'broadcast_to': ['array', 'shape']}
EXTERNAL_DEFAULTS = {
    'concatenate': {'axis': ('const', '0')}, 'diag': {'k': ('const', '0')}, 'pad': {'mode': ('const', "'constant'")},
    'unique': {'return_index': ('const', 'False'), 'return_inverse': ('const', 'False'), 'axis': ('const', 'None')},
    'add': {'mode': ('const', 'None')}, 'set': {'mode': ('const', 'None')},
    'leaves': {'is_leaf': ('const', 'None')}, 'map': {'is_leaf': ('const', 'None')}, 'tree_leaves': {'is_leaf': ('const', 'None')}, 'tree_map': {'is_leaf': ('const', 'None')},
    'ang2pix': {'nest': ('const', 'False'), 'lonlat': ('const', 'False')},
}


def _positional(fname: str | None, args: tuple, kwargs: tuple) -> tuple[tuple, tuple]:
    if kwargs and fname in EXTERNAL_DEFAULTS and fname not in SIGNATURES:
        d = EXTERNAL_DEFAULTS[fname]
        kwargs = tuple((k, v) for k, v in kwargs if d.get(k) != v)
    if not kwargs or fname is None or (fname not in SIGNATURES and fname not in EXTERNAL_SIGNATURES):
        return args, kwargs
    params = SIGNATURES[fname] if fname in SIGNATURES else EXTERNAL_SIGNATURES[fname]
    kw = dict(kwargs)
    out = list(args)
    while len(out) < len(params) and params[len(out)] in kw:
        out.append(kw.pop(params[len(out)]))
    return tuple(out), tuple(sorted(kw.items()))


def canon_lambda(t: Term) -> Term:
    """A lambda term with its parameters renamed _a, _b, ... (alpha-equivalent lambdas compare equal)."""
    if isinstance(t, tuple) and t and t[0] == 'lambda':
        names = tuple('_' + chr(ord('a') + i) for i in range(len(t[1])))
        if len(t[1]) == 1 and t[1][0] == '_x':
            return t
        return ('lambda', names, subst(t[2], {('var', p): ('var', n) for p, n in zip(t[1], names)}))
    return t


def beta(f: Term, args: tuple) -> Term | None:
    """Application of a lambda term to argument terms."""
    if f[0] == 'lambda' and len(f[1]) == len(args):
        return subst(f[2], {('var', p): a for p, a in zip(f[1], args)})
    return None


def term(expr: ast.AST | None, env: dict[str, Term] | None = None) -> Term:
    env = env or {}
    if expr is None:
        return ('none',)
    if isinstance(expr, ast.Name):
        if expr.id in env:
            return env[expr.id]
        if _qualified(expr) in _OPERATOR_FUNCS:
            return ('lambda', ('_a', '_b'), ('binop', _OPERATOR_FUNCS[_qualified(expr)], ('var', '_a'), ('var', '_b')))
        return _canonical_name(expr)
    if isinstance(expr, ast.Constant):
        return ('const', repr(expr.value))
    if isinstance(expr, (ast.Attribute, ast.Name)) and not (isinstance(expr, ast.Name) and expr.id in env):
        q0 = _qualified(expr)
        if q0 in _OPERATOR_FUNCS:
            return ('lambda', ('_a', '_b'), ('binop', _OPERATOR_FUNCS[q0], ('var', '_a'), ('var', '_b')))
    if isinstance(expr, ast.Attribute):
        base = term(expr.value, env)
        if base == ('attr', ('var', 'jax'), 'tree_util') and expr.attr in TREE_SYNONYMS:
            return ('attr', ('attr', ('var', 'jax'), 'tree'), TREE_SYNONYMS[expr.attr])
        if expr.attr == 'T':
            return ('T', base)
        if expr.attr == 'I':
            return ('I', base)
        return ('attr', base, expr.attr)
    if isinstance(expr, ast.Call):
        f = expr.func
        args = tuple(term(a, env) for a in expr.args)
        kwargs = tuple(sorted((kw.arg or '**', term(kw.value, env)) for kw in expr.keywords))
        if isinstance(f, ast.Attribute) and not kwargs:
            base = term(f.value, env)
            if not args:
                if f.attr == 'in_structure':
                    return ('IN', base)
                if f.attr == 'out_structure':
                    return ('OUT', base)
                if f.attr == 'transpose':
                    return ('T', base)
                if f.attr == 'inverse':
                    return ('I', base)
                if f.attr == 'reduce':
                    return ('RED', base)
            if f.attr == 'mv' and len(args) == 1:
                return ('apply', base, args[0])
        # structure(T).unflatten([g(l, r) for l, r in zip(leaves(T), leaves(U))]) is jax.tree.map(g, T, U) (for containers of one
        # structure, which is what the guard in front of it establishes; the rules check that guard separately)
        if isinstance(f, ast.Attribute) and f.attr == 'unflatten' and len(args) == 1 and not kwargs:
            base = term(f.value, env)
            c = args[0]
            if (base[0] == 'call' and base[1] == ('attr', _TREE_NS, 'structure') and len(base[2]) == 1 and c[0] == 'comp' and len(c[2]) == 1 and not c[2][0][2]
                    and c[2][0][1][0] == 'call' and c[2][0][1][1] == ('var', 'zip') and c[2][0][0][0] == 'tuple'):
                tgt, it = c[2][0][0], c[2][0][1]
                leaves = it[2]
                names = [x[1] for x in tgt[1:] if x[0] == 'var']
                if len(names) == len(tgt) - 1 == len(leaves) and all(
                    l[0] == 'call' and l[1] == ('attr', _TREE_NS, 'leaves') and len(l[2]) == 1 and l[3] == base[3] for l in leaves
                ) and leaves[0][2] == base[2]:
                    lam = ('lambda', tuple(names), c[1])
                    return ('call', ('attr', _TREE_NS, 'map'), (lam,) + tuple(l[2][0] for l in leaves), base[3])
        q = _qualified(f)
        # operator.attrgetter('a') is lambda x: x.a; operator.matmul is lambda a, b: a @ b
        if q == 'operator.attrgetter' and len(expr.args) == 1 and not kwargs and isinstance(expr.args[0], ast.Constant) and isinstance(expr.args[0].value, str) and '.' not in expr.args[0].value:
            a = expr.args[0].value
            x = ('var', '_x')
            return ('lambda', ('_x',), ('T', x) if a == 'T' else ('I', x) if a == 'I' else ('attr', x, a))
        if q == 'operator.methodcaller' and len(expr.args) == 1 and not kwargs and isinstance(expr.args[0], ast.Constant) and isinstance(expr.args[0].value, str):
            m = ast.Call(func=ast.Attribute(value=ast.Name(id='_x', ctx=ast.Load()), attr=expr.args[0].value, ctx=ast.Load()), args=[], keywords=[])
            return ('lambda', ('_x',), term(m, {}))
        # map(f, xs) / list(map(f, xs)) / list(<generator>) are comprehensions
        if isinstance(f, ast.Name) and f.id == 'map' and len(args) == 2 and not kwargs and 'map' not in env:
            tgt = ('var', '_m')
            elt = beta(args[0], (tgt,)) or ('call', args[0], (tgt,), ())
            return ('comp', elt, ((tgt, args[1], ()),))
        if isinstance(f, ast.Name) and f.id == 'list' and len(args) == 1 and not kwargs and args[0][0] == 'comp' and isinstance(expr.args[0], (ast.GeneratorExp, ast.Call)):
            return args[0]
        # functools.reduce(operator.add, xs, init) is sum(xs, start=init) (a left fold with +)
        if q == 'functools.reduce' and len(args) in (2, 3) and not kwargs and canon_lambda(args[0]) == ('lambda', ('_a', '_b'), ('binop', '+', ('var', '_a'), ('var', '_b'))):
            return ('call', ('var', 'sum'), (args[1],), (('start', args[2]),) if len(args) == 3 else ())
        # jax.tree.reduce(operator.add, tree, init) is sum(jax.tree.leaves(tree), start=init) (a left fold over the leaves)
        if q in ('jax.tree.reduce', 'jax.tree_util.tree_reduce') and len(args) in (2, 3) and not kwargs and canon_lambda(args[0]) == ('lambda', ('_a', '_b'), ('binop', '+', ('var', '_a'), ('var', '_b'))):
            leaves = ('call', ('attr', ('attr', ('var', 'jax'), 'tree'), 'leaves'), (args[1],), ())
            return ('call', ('var', 'sum'), (leaves,), (('start', args[2]),) if len(args) == 3 else ())
        # typing.cast(T, x) is x
        if q in ('typing.cast', 'typing_extensions.cast') and len(args) == 2 and not kwargs:
            return args[1]
        # jnp.logical_and(a, b) is a & b on boolean arrays (likewise or / not)
        if q in ('jax.numpy.logical_and', 'numpy.logical_and', 'jax.numpy.logical_or', 'numpy.logical_or') and len(args) == 2 and not kwargs:
            return ('binop', '&' if q.endswith('and') else '|', args[0], args[1])
        # function spellings of array methods: jnp.reshape(a, s) is a.reshape(s); a 1-tuple shape is its element
        if q in ('jax.numpy.reshape', 'numpy.reshape', 'jax.numpy.ravel', 'numpy.ravel', 'jax.numpy.astype') and args and not kwargs:
            return ('call', ('attr', args[0], q.rsplit('.', 1)[-1]), args[1:], ())
        if q in ('jax.numpy.zeros', 'jax.numpy.ones', 'jax.numpy.empty', 'numpy.zeros', 'numpy.ones', 'numpy.empty') and args and args[0][0] == 'tuple' and len(args[0]) == 2:
            args = (args[0][1],) + args[1:]
        # all(jax.tree.leaves(t)) is jax.tree.all(t)
        tree_ns = ('attr', ('var', 'jax'), 'tree')
        if isinstance(f, ast.Name) and f.id in ('all', 'any') and len(args) == 1 and not kwargs and args[0][0] == 'call' and args[0][1] == ('attr', tree_ns, 'leaves') and len(args[0][2]) == 1 and not args[0][3]:
            return ('call', ('attr', tree_ns, f.id), args[0][2], ())
        if isinstance(f, (ast.Name, ast.Attribute)):
            simple = f.id if isinstance(f, ast.Name) else f.attr
            args, kwargs = _positional(simple, args, kwargs)
        return ('call', term(f, env), args, kwargs)
    if isinstance(expr, (ast.List, ast.Tuple)):
        kind = 'list' if isinstance(expr, ast.List) else 'tuple'
        return (kind,) + tuple(term(e, env) for e in expr.elts)
    if isinstance(expr, ast.Starred):
        return ('star', term(expr.value, env))
    if isinstance(expr, ast.BinOp):
        return ('binop', _BIN.get(type(expr.op), type(expr.op).__name__), term(expr.left, env), term(expr.right, env))
    if isinstance(expr, ast.UnaryOp):
        return ('unop', _UN[type(expr.op)], term(expr.operand, env))
    if isinstance(expr, ast.BoolOp):
        return ('and' if isinstance(expr.op, ast.And) else 'or',) + tuple(term(v, env) for v in expr.values)
    if isinstance(expr, ast.Compare):
        if len(expr.ops) == 1:
            return ('cmp', _CMP[type(expr.ops[0])], term(expr.left, env), term(expr.comparators[0], env))
        parts = [term(expr.left, env)] + [term(c, env) for c in expr.comparators]
        return ('chain', tuple(_CMP[type(o)] for o in expr.ops)) + tuple(parts)
    if isinstance(expr, ast.Subscript):
        base_t, idx_t = term(expr.value, env), term(expr.slice, env)
        if idx_t in (('const', '0'), ('const', '1')):
            part = _flatten_part(base_t, int(idx_t[1]))
            if part is not None:
                return part
        return ('sub', base_t, idx_t)
    if isinstance(expr, ast.Slice):
        return ('slice', term(expr.lower, env), term(expr.upper, env), term(expr.step, env))
    if isinstance(expr, ast.IfExp):
        return ('ifexp', term(expr.test, env), term(expr.body, env), term(expr.orelse, env))
    if isinstance(expr, ast.Lambda):
        names = [a.arg for a in expr.args.args]
        inner = {k: v for k, v in env.items() if k not in names}
        return ('lambda', tuple(names), term(expr.body, inner))
    if isinstance(expr, (ast.ListComp, ast.GeneratorExp)) and len(expr.generators) == 1 and not expr.generators[0].ifs and isinstance(expr.generators[0].target, ast.Name) \
            and isinstance(expr.generators[0].iter, (ast.Tuple, ast.List)) and not any(isinstance(x, ast.Starred) for x in expr.generators[0].iter.elts) and 1 <= len(expr.generators[0].iter.elts) <= 6:
        # [f(x) for x in (a, b)] is [f(a), f(b)]
        g = expr.generators[0]
        items = []
        for x in g.iter.elts:
            inner = dict(env)
            inner[g.target.id] = term(x, env)
            items.append(term(expr.elt, inner))
        return ('list',) + tuple(items)
    if isinstance(expr, (ast.ListComp, ast.GeneratorExp, ast.SetComp)):
        inner = dict(env)
        gens = []
        for g in expr.generators:
            it = term(g.iter, inner)
            for n in ast.walk(g.target):
                if isinstance(n, ast.Name):
                    inner.pop(n.id, None)
            gens.append((term(g.target, {}), it, tuple(term(i, inner) for i in g.ifs)))
        return ('comp', term(expr.elt, inner), tuple(gens))
    if isinstance(expr, ast.NamedExpr):
        return term(expr.value, env)
    if isinstance(expr, ast.JoinedStr):
        return ('fstr',)
    if isinstance(expr, ast.Dict):
        return ('dict',) + tuple((term(k, env), term(v, env)) for k, v in zip(expr.keys, expr.values))
    return ('expr', ast.dump(expr))


def bind_target(target: ast.AST, value: Term, env: dict[str, Term]) -> None:
    if isinstance(target, ast.Name):
        env[target.id] = value
    elif isinstance(target, (ast.Tuple, ast.List)):
        if value[0] in ('tuple', 'list') and len(value) - 1 == len(target.elts) and not any(
            isinstance(e, ast.Starred) for e in target.elts
        ):
            for e, v in zip(target.elts, value[1:]):
                bind_target(e, v, env)
        else:
            for i, e in enumerate(target.elts):
                if isinstance(e, ast.Starred):
                    bind_target(e.value, ('rest', value, i), env)
                else:
                    idx = i if not any(isinstance(x, ast.Starred) for x in target.elts[:i]) else i - len(target.elts)
                    if len(target.elts) == 1:
                        bind_target(e, ('sub', value, ('const', '0')), env)  # (y,) = v is y = v[0]
                    else:
                        part = _flatten_part(value, idx) if len(target.elts) == 2 else None
                        if part is None and isinstance(value, tuple) and value and value[0] in ('list', 'tuple') and len(value) - 1 == len(target.elts):
                            part = value[1 + i]
                        bind_target(e, part if part is not None else ('item', value, idx), env)


_TREE_NS = ('attr', ('var', 'jax'), 'tree')


def _flatten_part(value: Term, idx: int) -> Term | None:
    """jax.tree.flatten(t, ...)[0] is jax.tree.leaves(t, ...); [1] is jax.tree.structure(t, ...)."""
    if isinstance(value, tuple) and len(value) == 4 and value[0] == 'call' and value[1] == ('attr', _TREE_NS, 'flatten') and idx in (0, 1):
        return ('call', ('attr', _TREE_NS, 'leaves' if idx == 0 else 'structure'), value[2], value[3])
    return None


def path_env(path: Path, env: dict[str, Term] | None = None, upto: ast.AST | None = None, track_items: bool = False) -> dict[str, Term]:
    """Environment of local names after the straight-line assignments of the path.
    With ``track_items`` an item store ``name[i] = v`` rebinds name to ('setitem', old, i, v)."""
    env = dict(env or {})
    for ev in path.events:
        if ev[0] == 'stmt':
            st = ev[1]
            if st is upto:
                break
            if isinstance(st, ast.Assign):
                v = term(st.value, env)
                for t in st.targets:
                    if track_items and isinstance(t, ast.Subscript) and isinstance(t.value, ast.Name):
                        env[t.value.id] = ('setitem', env.get(t.value.id, ('var', t.value.id)), term(t.slice, env), v)
                    else:
                        bind_target(t, v, env)
            elif isinstance(st, ast.AnnAssign) and st.value is not None:
                bind_target(st.target, term(st.value, env), env)
            elif isinstance(st, ast.FunctionDef) and not st.decorator_list:
                lam = _def_as_lambda(st, env)
                if lam is not None:
                    env[st.name] = lam
            elif isinstance(st, ast.AugAssign) and isinstance(st.target, ast.Name):
                env[st.target.id] = ('binop', _BIN.get(type(st.op), '?'), term(st.target, env), term(st.value, env))
        elif ev[0] == 'iter' and ev[2]:
            bind_target(ev[1].target, ('elem', term(ev[1].iter, env)), env)
        elif ev[0] == 'cond':
            for n in ast.walk(ev[1]):
                if isinstance(n, ast.NamedExpr):
                    env[n.target.id] = term(n.value, env)
    return env


def _def_as_lambda(fn: ast.FunctionDef, env: dict[str, Term]) -> Term | None:
    """A nested function whose body is straight-line assignments and one return is the lambda of its return term."""
    a = fn.args
    if a.vararg or a.kwarg or a.kwonlyargs or a.defaults:
        return None
    body = [s for s in fn.body if not (isinstance(s, ast.Expr) and isinstance(s.value, ast.Constant))]
    names = [p.arg for p in a.posonlyargs + a.args]
    inner = {k: v for k, v in env.items() if k not in names}
    t = _return_term(body, inner)
    return ('lambda', tuple(names), t) if t is not None else None


def _return_term(body: list[ast.stmt], env: dict[str, Term]) -> Term | None:
    """The value returned by straight-line assignments and if / return chains, as one (conditional) term."""
    env = dict(env)
    for i, s in enumerate(body):
        if isinstance(s, ast.Return):
            return term(s.value, env) if s.value is not None else ('const', 'None')
        if isinstance(s, (ast.Assign, ast.AnnAssign)):
            env = path_env(Path([('stmt', s)]), env)
            continue
        if isinstance(s, ast.If):
            rest = body[i + 1:]
            a = _return_term(s.body + rest, env)
            b = _return_term(s.orelse + rest, env)
            if a is None or b is None:
                return None
            return ('ifexp', term(s.test, env), a, b)
        return None
    return None


def facts(path: Path, env0: dict[str, Term] | None = None, resolver=None, _depth: int = 0) -> set[tuple]:
    """Atomic facts known at the end of the path: ('eq', frozenset({a,b})), ('ne', ...),
    ('is', a, b), ('isnot', a, b), ('isinstance', x, classes-term, bool), ('truth', t, bool).

    With a ``resolver`` (call node -> (FunctionDef, [argument expressions incl. the receiver]) or None) a call statement to a
    checking helper contributes the facts that hold on *every* normally-returning path of the helper, with its
    parameters replaced by the argument terms ("raises unless ...")."""
    out: set[tuple] = set()
    env = dict(env0 or {})
    for ev in path.events:
        if resolver is not None and _depth < 2 and ev[0] == 'stmt' and isinstance(ev[1], ast.Expr) and isinstance(ev[1].value, ast.Call):
            hit = resolver(ev[1].value)
            if hit is not None:
                callee, args = hit
                params = [a.arg for a in callee.args.args]
                if len(args) == len(params):
                    from .paths import function_paths

                    mapping = {('var', p): term(a, env) for p, a in zip(params, args)}
                    common = None
                    for q in function_paths(callee):
                        if q.exit == 'raise':
                            continue
                        fq = {subst(f, mapping) for f in facts(q, None, resolver, _depth + 1)}
                        common = fq if common is None else (common & fq)
                    out |= common or set()
        if ev[0] == 'cond':
            for n in ast.walk(ev[1]):
                if isinstance(n, ast.NamedExpr):
                    env[n.target.id] = term(n.value, env)
            for atom, pol in split_cond(ev[1], ev[2]):
                out |= atom_facts(atom, pol, env)
        else:
            env = path_env(Path([ev]), env)
    return out


def atom_facts(atom: ast.AST, pol: bool, env: dict[str, Term]) -> set[tuple]:
    out: set[tuple] = set()
    if isinstance(atom, ast.Compare) and len(atom.ops) == 1:
        a, b = term(atom.left, env), term(atom.comparators[0], env)
        op = type(atom.ops[0])
        if op in (ast.Eq, ast.NotEq):
            equal = (op is ast.Eq) == pol
            out.add(('eq' if equal else 'ne', frozenset({a, b})))
        elif op in (ast.Is, ast.IsNot):
            same = (op is ast.Is) == pol
            out.add(('is' if same else 'isnot', frozenset({a, b})))
        elif op in (ast.Lt, ast.Gt, ast.LtE, ast.GtE):
            # canonical orderings: ('lt', x, y) means x < y, ('le', x, y) means x <= y
            if op in (ast.Gt, ast.GtE):
                a, b = b, a
                op = ast.Lt if op is ast.Gt else ast.LtE
            if pol:
                out.add(('lt' if op is ast.Lt else 'le', a, b))
            else:
                out.add(('le' if op is ast.Lt else 'lt', b, a))
            out.add(('truth', term(atom, env), pol))
        elif op in (ast.In, ast.NotIn):
            out.add(('in', a, b, (op is ast.In) == pol))
            out.add(('truth', term(atom, env), pol))
        else:
            out.add(('truth', term(atom, env), pol))
    elif (
        isinstance(atom, ast.Call)
        and isinstance(atom.func, ast.Name)
        and atom.func.id == 'isinstance'
        and len(atom.args) == 2
    ):
        out.add(('isinstance', term(atom.args[0], env), term(atom.args[1], env), pol))
    else:
        out |= term_facts(term(atom, env), pol)
    return out


def term_facts(t: Term, pol: bool) -> set[tuple]:
    """Facts of a condition given as a term (a name bound earlier to a comparison, a negation, a conjunction)."""
    out: set[tuple] = {('truth', t, pol)}
    if not isinstance(t, tuple) or not t:
        return out
    if t[0] == 'unop' and t[1] == 'not':
        return out | term_facts(t[2], not pol)
    if t[0] == 'call' and t[1] == ('var', 'bool') and len(t[2]) == 1 and not t[3]:
        return out | term_facts(t[2][0], pol)
    if t[0] == 'and' and pol:
        for x in t[1:]:
            out |= term_facts(x, True)
    elif t[0] == 'or' and not pol:
        for x in t[1:]:
            out |= term_facts(x, False)
    elif t[0] == 'cmp':
        op, a, b = t[1], t[2], t[3]
        if op in ('eq', 'ne'):
            out.add(('eq' if (op == 'eq') == pol else 'ne', frozenset({a, b})))
        elif op in ('is', 'isnot'):
            out.add(('is' if (op == 'is') == pol else 'isnot', frozenset({a, b})))
        elif op in ('lt', 'gt', 'le', 'ge'):
            if op in ('gt', 'ge'):
                a, b = b, a
                op = 'lt' if op == 'gt' else 'le'
            if pol:
                out.add((op, a, b))
            else:
                out.add(('le' if op == 'lt' else 'lt', b, a))
        elif op in ('in', 'notin'):
            out.add(('in', a, b, (op == 'in') == pol))
    elif t[0] == 'call' and t[1] == ('var', 'isinstance') and len(t[2]) == 2 and not t[3]:
        out.add(('isinstance', t[2][0], t[2][1], pol))
    return out


def raise_paths(fn, exc: str | None = None):
    """(facts, env, path) of every path of fn that ends in a raise (optionally of a given exception class)."""
    from .paths import exception_name, function_paths

    out = []
    for p in function_paths(fn):
        if p.exit == 'raise' and (exc is None or exception_name(p.node) == exc):
            out.append((facts(p), path_env(p), p))
    return out


def normal_paths(fn):
    from .paths import function_paths

    return [(facts(p), path_env(p), p) for p in function_paths(fn) if p.exit != 'raise']


def has_eq(fs: set[tuple], a: Term, b: Term) -> bool:
    return ('eq', frozenset({a, b})) in fs


def has_is(fs: set[tuple], a: Term, b: Term) -> bool:
    return ('is', frozenset({a, b})) in fs


def show(t: Term) -> str:
    """Compact rendering of a term for reports."""
    if not isinstance(t, tuple):
        return str(t)
    k = t[0]
    if k == 'var':
        return t[1]
    if k == 'const':
        return t[1]
    if k in ('IN', 'OUT', 'T', 'I', 'RED'):
        return f'{k}({show(t[1])})'
    if k == 'attr':
        return f'{show(t[1])}.{t[2]}'
    if k == 'call':
        args = [show(a) for a in t[2]] + [f'{n}={show(v)}' for n, v in t[3]]
        return f'{show(t[1])}({", ".join(args)})'
    if k in ('list', 'tuple'):
        return ('[%s]' if k == 'list' else '(%s)') % ', '.join(show(x) for x in t[1:])
    if k == 'binop':
        return f'({show(t[2])} {t[1]} {show(t[3])})'
    if k == 'unop':
        return f'{t[1]}({show(t[2])})'
    if k == 'sub':
        return f'{show(t[1])}[{show(t[2])}]'
    if k == 'apply':
        return f'{show(t[1])}·{show(t[2])}'
    if k == 'lambda':
        return f'λ{",".join(t[1])}.{show(t[2])}'
    if k == 'cmp':
        return f'({show(t[2])} {t[1]} {show(t[3])})'
    if k == 'comp':
        return f'[{show(t[1])} for {"; ".join(show(g[0]) + " in " + show(g[1]) for g in t[2])}]'
    if k == 'elem':
        return f'elem({show(t[1])})'
    if k == 'item':
        return f'{show(t[1])}[{t[2]}]'
    if k == 'slice':
        return ':'.join('' if x == ('none',) else show(x) for x in t[1:])
    if k == 'none':
        return 'None'
    return '(' + ' '.join(show(x) if isinstance(x, tuple) else str(x) for x in t) + ')'


def subst(t: Term, mapping: dict[Term, Term]) -> Term:
    if t in mapping:
        return mapping[t]
    if isinstance(t, tuple):
        return tuple(subst(x, mapping) for x in t)
    if isinstance(t, frozenset):
        return frozenset(subst(x, mapping) for x in t)
    return t


def contains(t: Term, needle: Term) -> bool:
    if t == needle:
        return True
    if isinstance(t, (tuple, frozenset)):
        return any(contains(x, needle) for x in t)
    return False


def return_cases(world, fn, depth: int = 2, resolver=None):
    """(facts, returned term, environment, description of the conditions, return node) for every returning path of fn.

    When the returned expression is a call of a module-level function of the repository, the callee's returning paths
    are spliced in with its parameters replaced by the argument terms, so moving the tail of a function into a helper
    leaves the cases unchanged.  Raising paths of the helper are dropped (they do not return)."""
    from .loader import module_of
    from .paths import function_paths

    out = []
    for p in function_paths(fn):
        if p.exit != 'return' or p.node is None or not isinstance(p.node, ast.Return) or p.node.value is None:
            continue
        env = path_env(p)
        fs = facts(p, None, resolver)
        txt = ' and '.join(ast.unparse(ev[1]) + ('' if ev[2] else ' [false]') for ev in p.events if ev[0] == 'cond')
        val = p.node.value
        callee = None
        if depth > 0 and isinstance(val, ast.Call) and isinstance(val.func, ast.Name) and not val.keywords and not any(isinstance(a, ast.Starred) for a in val.args):
            module = module_of(val)
            q = world.qualify(module, val.func.id) if module is not None else None
            node = world.lookup(q) if q else None
            if isinstance(node, ast.FunctionDef) and not node.decorator_list and len(node.args.args) == len(val.args) and not node.args.vararg and not node.args.kwarg:
                callee = node
        if callee is None:
            out.append((fs, term(val, env), env, txt, p.node))
            continue
        mapping = {('var', a.arg): term(v, env) for a, v in zip(callee.args.args, val.args)}
        for cfs, crt, _cenv, ctxt, _n in return_cases(world, callee, depth - 1):
            out.append((fs | {subst(f, mapping) for f in cfs}, subst(crt, mapping), env, ' and '.join(x for x in (txt, ctxt) if x), p.node))
    return out


def predicate_alternatives(world, module, fs: set[tuple], depth: int = 2) -> list[set[tuple]]:
    """Expands facts of the form `helper(args)` is true, for boolean module-level helpers of the repository.

    Returns the alternative fact sets (one per way the helpers can return true), each including fs itself; a caller
    that needs a guard must find it in every alternative."""
    from .paths import function_paths

    alts: list[set[tuple]] = [set(fs)]
    for f in sorted(fs, key=repr):
        if not (f[0] == 'truth' and f[2] is True and isinstance(f[1], tuple) and f[1][0] == 'call' and f[1][1][0] == 'var' and not f[1][3]):
            continue
        q = world.qualify(module, f[1][1][1])
        node = world.lookup(q) if q else None
        if not isinstance(node, ast.FunctionDef) or node.decorator_list or len(node.args.args) != len(f[1][2]):
            continue
        mapping = {('var', a.arg): v for a, v in zip(node.args.args, f[1][2])}
        ways: list[set[tuple]] = []
        for p in function_paths(node):
            if p.exit != 'return' or not isinstance(p.node, ast.Return) or p.node.value is None:
                continue
            v = p.node.value
            if isinstance(v, ast.Constant) and v.value is False:
                continue
            pf = facts(p)
            if not (isinstance(v, ast.Constant) and v.value is True):
                env = path_env(p)
                for atom, pol in split_cond(v, True):
                    pf |= atom_facts(atom, pol, env)
            ways.append({subst(x, mapping) for x in pf})
        if ways:
            alts = [a | w for a in alts for w in ways]
    return alts


class NotEvaluable(Exception):
    pass


def eval_term(t: Term, env: dict[Term, int]):
    """Value of an integer / boolean term built from comparisons, boolean connectives and integer arithmetic, under an
    assignment of integers to its free terms.  Used to decide the equivalence of two guards by enumerating the finitely
    many orderings of the quantities they compare (a guard that only *compares* its operands cannot tell two
    assignments of the same order type apart)."""
    if t in env:
        return env[t]
    if not isinstance(t, tuple) or not t:
        raise NotEvaluable(repr(t))
    k = t[0]
    if k == 'const':
        try:
            v = eval(t[1], {})  # a literal
        except Exception as exc:  # noqa: BLE001
            raise NotEvaluable(t[1]) from exc
        if isinstance(v, (int, bool)):
            return v
        raise NotEvaluable(t[1])
    if k == 'cmp':
        a, b = eval_term(t[2], env), eval_term(t[3], env)
        return {'lt': a < b, 'le': a <= b, 'gt': a > b, 'ge': a >= b, 'eq': a == b, 'ne': a != b}.get(t[1]) if t[1] in ('lt', 'le', 'gt', 'ge', 'eq', 'ne') else _ne(t)
    if k == 'chain':
        vals = [eval_term(x, env) for x in t[2:]]
        ok = True
        for op, a, b in zip(t[1], vals, vals[1:]):
            ok = ok and {'lt': a < b, 'le': a <= b, 'gt': a > b, 'ge': a >= b, 'eq': a == b, 'ne': a != b}[op]
        return ok
    if k == 'and':
        return all(bool(eval_term(x, env)) for x in t[1:])
    if k == 'or':
        return any(bool(eval_term(x, env)) for x in t[1:])
    if k == 'unop':
        v = eval_term(t[2], env)
        return (not v) if t[1] == 'not' else (-v if t[1] == 'neg' else v)
    if k == 'binop' and t[1] in ('+', '-', '*'):
        a, b = eval_term(t[2], env), eval_term(t[3], env)
        return a + b if t[1] == '+' else a - b if t[1] == '-' else a * b
    if k == 'ifexp':
        return eval_term(t[2], env) if eval_term(t[1], env) else eval_term(t[3], env)
    if k == 'call' and t[1] in (('var', 'max'), ('var', 'min')) and t[2] and not t[3]:
        vals = [eval_term(x, env) for x in t[2]]
        return max(vals) if t[1][1] == 'max' else min(vals)
    raise NotEvaluable(show(t))


def _ne(t):
    raise NotEvaluable(show(t))


# ---------------------------------------------------------------------------------------------- quantified predicates
ELEM = ('var', '$e')


def _bind_pattern(pattern: Term, value: Term, out: dict) -> bool:
    if pattern[0] == 'var':
        out[pattern] = value
        return True
    if pattern[0] in ('tuple', 'list') and value[0] in ('tuple', 'list') and len(pattern) == len(value):
        return all(_bind_pattern(p, v, out) for p, v in zip(pattern[1:], value[1:]))
    return False


def elementwise(seq: Term, base: Term) -> Term | None:
    """The generic element of `seq` when the generic element of the sequence `base` is ELEM: base itself, a
    comprehension without filter over such a sequence, or a zip of such sequences."""
    if seq == base:
        return ELEM
    if seq[0] == 'comp' and len(seq[2]) == 1 and not seq[2][0][2]:
        tgt, it, _ifs = seq[2][0]
        inner = elementwise(it, base)
        if inner is None:
            return None
        m: dict = {}
        if not _bind_pattern(tgt, inner, m):
            return None
        return subst(seq[1], m)
    if seq[0] == 'call' and seq[1] == ('var', 'zip') and not seq[3]:
        parts = [elementwise(x, base) for x in seq[2]]
        if any(x is None for x in parts):
            return None
        return ('tuple',) + tuple(parts)
    if seq[0] == 'call' and seq[1] in (('var', 'list'), ('var', 'tuple')) and len(seq[2]) == 1 and not seq[3]:
        return elementwise(seq[2][0], base)
    return None


def quantified(t: Term, base: Term):
    """('all' | 'any', predicate over ELEM) for all(...) / any(...) of a sequence derived element-wise from base."""
    if t[0] == 'call' and t[1] in (('var', 'all'), ('var', 'any')) and len(t[2]) == 1 and not t[3]:
        body = elementwise(t[2][0], base)
        if body is not None:
            return t[1][1], body
    return None


def _atoms(t: Term, acc: list) -> None:
    if isinstance(t, tuple) and t and t[0] in ('and', 'or'):
        for x in t[1:]:
            _atoms(x, acc)
    elif isinstance(t, tuple) and t and t[0] == 'unop' and t[1] == 'not':
        _atoms(t[2], acc)
    elif isinstance(t, tuple) and t and t[0] == 'cmp' and t[1] in ('ne', 'isnot', 'notin'):
        pos = ('cmp', {'ne': 'eq', 'isnot': 'is', 'notin': 'in'}[t[1]], t[2], t[3])
        if pos not in acc:
            acc.append(pos)
    elif t not in acc:
        acc.append(t)


def _prop_eval(t: Term, val: dict) -> bool:
    if isinstance(t, tuple) and t and t[0] == 'and':
        return all(_prop_eval(x, val) for x in t[1:])
    if isinstance(t, tuple) and t and t[0] == 'or':
        return any(_prop_eval(x, val) for x in t[1:])
    if isinstance(t, tuple) and t and t[0] == 'unop' and t[1] == 'not':
        return not _prop_eval(t[2], val)
    if isinstance(t, tuple) and t and t[0] == 'cmp' and t[1] in ('ne', 'isnot', 'notin'):
        return not val[('cmp', {'ne': 'eq', 'isnot': 'is', 'notin': 'in'}[t[1]], t[2], t[3])]
    return val[t]


def _sym_cmp(t: Term) -> Term:
    """Symmetric comparisons with their operands in a canonical order, recursively."""
    if isinstance(t, tuple) and t:
        t = tuple(_sym_cmp(x) if isinstance(x, tuple) else x for x in t)
        if t[0] == 'cmp' and t[1] in ('eq', 'ne', 'is', 'isnot') and len(t) == 4:
            a, b = sorted((t[2], t[3]), key=repr)
            return ('cmp', t[1], a, b)
    return t


def prop_equiv(a: Term, b: Term, max_atoms: int = 8) -> bool | None:
    """Propositional equivalence of two conditions over their atoms (anything that is not and / or / not); None when
    there are too many atoms.  Short-circuit evaluation is ignored: the atoms are treated as total."""
    import itertools

    a, b = _sym_cmp(a), _sym_cmp(b)
    atoms: list = []
    _atoms(a, atoms)
    _atoms(b, atoms)
    if len(atoms) > max_atoms:
        return None
    for bits in itertools.product((False, True), repeat=len(atoms)):
        val = dict(zip(atoms, bits))
        if _prop_eval(a, val) != _prop_eval(b, val):
            return False
    return True

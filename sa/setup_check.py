"""setup_cmd: verifies that everything the checks need is present (nothing is built)."""

import ast
import os
import sys


def main() -> int:
    ok = True
    if sys.version_info[:2] < (3, 10):
        print('setup: python >= 3.10 required'); ok = False
    if not os.path.isdir('/repo/src/furax'):
        print('setup: /repo/src/furax missing'); ok = False
    if not hasattr(ast, 'unparse'):
        print('setup: ast.unparse missing'); ok = False
    os.makedirs(os.path.join(os.path.dirname(os.path.dirname(os.path.abspath(__file__))), 'evidence'), exist_ok=True)
    print('setup ok' if ok else 'setup FAILED')
    return 0 if ok else 1


if __name__ == '__main__':
    sys.exit(main())

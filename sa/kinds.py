"""E5 - kind / linearity / trace-taint abstract interpreter for ``mv`` bodies and their callees.

Abstract values
    Py        static under tracing: ints, strs, shapes, dtypes, structures, isinstance results
    Par       array derived from operator fields only (constant w.r.t. the input x)
    Zero      an array of zeros
    Lin(k)    array or pytree of arrays linear in x; k in Id <= Perm <= Select <= Gen, or Scale
    Op        operator object / container of operators (optionally with a known class)
    Tup/UList known-length / homogeneous containers;  TreeOf(elem) a pytree with such leaves
    Fn        a closure;  Obj  ``self``
    NonLin    definitely not linear in x (reason kept);  Unknown  outside the language

Transfer functions are a whitelist of linear array primitives.  The same walk applies the
trace-taint rule: conditions of if/while/assert and the arguments of int/float/bool/range and
of any ``numpy`` call must be Py.
"""

from __future__ import annotations

import ast
import re
from dataclasses import dataclass, field
from typing import Any

from .classes import OPERATOR_BASE, ClassInfo, ClassTable, FieldInfo
from .loader import World, dotted, module_of, qualname, site

# ------------------------------------------------------------------------------ values


class V:
    pass


@dataclass(frozen=True)
class Py(V):
    what: str = ''


@dataclass(frozen=True)
class Par(V):
    pass


@dataclass(frozen=True)
class Zero(V):
    pass


@dataclass(frozen=True)
class Lin(V):
    k: str  # Id Perm Select Scale Gen


@dataclass(frozen=True)
class Op(V):
    cls: str | None = None  # qualified class name when known


@dataclass(frozen=True)
class Tup(V):
    items: tuple


@dataclass(frozen=True)
class Rec(Tup):
    """An instance of a plain record class (NamedTuple / dataclass without __init__): a tuple whose items have names."""

    names: tuple = ()
    cls: Any = None


@dataclass(frozen=True)
class UList(V):
    elem: Any


@dataclass(frozen=True)
class TreeOf(V):
    elem: Any


@dataclass(frozen=True)
class NonLin(V):
    why: str


@dataclass(frozen=True)
class Unknown(V):
    why: str


@dataclass(frozen=True)
class Struct(V):
    """A pytree of ShapeDtypeStruct (static)."""


@dataclass(frozen=True)
class Solution(V):
    value: Any


@dataclass(eq=False)
class Obj(V):
    cls: ClassInfo


@dataclass(eq=False)
class Fn(V):
    node: ast.AST  # FunctionDef or Lambda
    env: dict
    bound: tuple = ()
    self_obj: Any = None
    owner: ClassInfo | None = None
    special: str | None = None  # 'vectorize', 'linear_transpose', 'opmv', 'extern:<name>'
    extra: Any = None


@dataclass(eq=False)
class FnSet(V):
    items: tuple


@dataclass(eq=False)
class AtRef(V):
    base: Any
    indexed: bool = False


KIND_ORDER = {'Id': 0, 'Perm': 1, 'Select': 2, 'Gen': 4}


def kjoin(a: str, b: str) -> str:
    if a == b:
        return a
    if {a, b} <= {'Id', 'Scale'}:
        return 'Scale'
    if {a, b} <= {'Id', 'Scale', 'RScale', 'Perm'} and ('RScale' in (a, b) or 'Scale' in (a, b)):
        return 'RScale'
    if a in ('Scale', 'RScale') or b in ('Scale', 'RScale'):
        return 'Gen'
    return a if KIND_ORDER[a] >= KIND_ORDER[b] else b


def _all_py(v: Any) -> bool:
    if isinstance(v, Py):
        return True
    if isinstance(v, Tup):
        return all(_all_py(x) for x in v.items)
    if isinstance(v, UList):
        return _all_py(v.elem)
    return False


def _has_unknown(v: Any) -> bool:
    if isinstance(v, Unknown):
        return True
    if isinstance(v, Tup):
        return any(_has_unknown(x) for x in v.items)
    if isinstance(v, (UList, TreeOf)):
        return _has_unknown(v.elem)
    return False


def join(a: Any, b: Any) -> Any:
    if a is None:
        return b
    if b is None:
        return a
    if a == b:
        return a
    if isinstance(a, Unknown):
        return a
    if isinstance(b, Unknown):
        return b
    if isinstance(a, (Fn, FnSet)) and isinstance(b, (Fn, FnSet)):
        ia = a.items if isinstance(a, FnSet) else (a,)
        ib = b.items if isinstance(b, FnSet) else (b,)
        return FnSet(tuple(list(ia) + [x for x in ib if not any(x is y for y in ia)]))
    if isinstance(a, NonLin):
        return a
    if isinstance(b, NonLin):
        return b
    if isinstance(a, Lin) and isinstance(b, Lin):
        return Lin(kjoin(a.k, b.k))
    if isinstance(a, Lin) and isinstance(b, Zero):
        return a
    if isinstance(b, Lin) and isinstance(a, Zero):
        return b
    if isinstance(a, Par) and isinstance(b, (Zero, Py)) or isinstance(b, Par) and isinstance(a, (Zero, Py)):
        return Par()
    if isinstance(a, Py) and isinstance(b, Py):
        return Py()
    # a static Python value on one branch, a tuple / list of static Python values on the other: a static Python value
    for x, y in ((a, b), (b, a)):
        if isinstance(x, Py) and isinstance(y, (UList, Tup)) and _all_py(y):
            return Py()
    if isinstance(a, Zero) and isinstance(b, Py) or isinstance(b, Zero) and isinstance(a, Py):
        return Par()
    if isinstance(a, Op) and isinstance(b, Op):
        return Op(a.cls if a.cls == b.cls else None)
    if isinstance(a, Tup) and isinstance(b, Tup) and len(a.items) == len(b.items):
        return Tup(tuple(join(x, y) for x, y in zip(a.items, b.items)))
    if isinstance(a, UList) and isinstance(b, UList):
        return UList(join(a.elem, b.elem))
    if isinstance(a, TreeOf) and isinstance(b, TreeOf):
        return TreeOf(join(a.elem, b.elem))
    if isinstance(a, Struct) and isinstance(b, (Struct, Py)) or isinstance(b, Struct) and isinstance(a, Py):
        return Struct()
    if isinstance(a, (Lin,)) and isinstance(b, (Par, Py)) or isinstance(b, Lin) and isinstance(a, (Par, Py)):
        return NonLin('a value that is linear in the input on one path is a constant on another (affine / input-independent result)')
    if isinstance(a, (Lin, Zero, Par)) or isinstance(b, (Lin, Zero, Par)):
        other = b if isinstance(a, (Lin, Zero, Par)) else a
        return NonLin(f'the result can be a non-array value ({describe(other)}) instead of an array linear in the input')
    return Unknown(f'join of {describe(a)} and {describe(b)}')


def describe(v: Any) -> str:
    if isinstance(v, Lin):
        return f'Lin({v.k})'
    if isinstance(v, Tup):
        return 'Tup(' + ', '.join(describe(x) for x in v.items) + ')'
    if isinstance(v, (UList, TreeOf)):
        return f'{type(v).__name__}({describe(v.elem)})'
    if isinstance(v, Op):
        return 'Op' + (f'<{v.cls.split(".")[-1]}>' if v.cls else '')
    if isinstance(v, (NonLin, Unknown)):
        return f'{type(v).__name__}[{v.why}]'
    if isinstance(v, Obj):
        return f'Obj<{v.cls.name}>'
    if isinstance(v, Fn):
        return 'Fn'
    return type(v).__name__


def scale_kind(k: str) -> str:
    """Element-wise multiplication by a constant: Scale keeps the structure, RScale = a
    relabelling (reshape / moveaxis) followed by an element-wise scaling."""
    return {'Id': 'Scale', 'Scale': 'Scale', 'Perm': 'RScale', 'RScale': 'RScale'}.get(k, 'Gen')


def perm_kind(k: str) -> str:
    return {'Id': 'Perm', 'Perm': 'Perm', 'Select': 'Select', 'Scale': 'RScale', 'RScale': 'RScale'}.get(k, 'Gen')


def select_kind(k: str) -> str:
    return {'Id': 'Select', 'Perm': 'Select', 'Select': 'Select'}.get(k, 'Gen')


ARRAY_ANN = re.compile(r'\b(Array|Scalar|CSR|ArrayLike)\b|\b(Float|Inexact|Bool|Integer|Num|Shaped|Real|Complex|Key)\[')
LINEAR_UNARY = {  # jnp function -> effect on the kind
    'reshape': perm_kind, 'ravel': perm_kind, 'moveaxis': perm_kind, 'transpose': perm_kind, 'swapaxes': perm_kind,
    'flip': perm_kind, 'roll': perm_kind, 'squeeze': perm_kind, 'expand_dims': perm_kind, 'atleast_1d': perm_kind,
    'atleast_2d': perm_kind, 'rollaxis': perm_kind, 'flipud': perm_kind, 'fliplr': perm_kind, 'rot90': perm_kind,
    'take': select_kind, 'take_along_axis': select_kind, 'compress': select_kind, 'diagonal': select_kind,
    'broadcast_to': lambda k: 'Gen', 'tile': lambda k: 'Gen', 'repeat': lambda k: 'Gen', 'cumsum': lambda k: 'Gen',
    'sum': lambda k: 'Gen', 'mean': lambda k: 'Gen', 'diff': lambda k: 'Gen', 'trace': lambda k: 'Gen',
    'real': lambda k: 'Gen', 'imag': lambda k: 'Gen', 'conj': lambda k: 'Gen', 'conjugate': lambda k: 'Gen',
    'negative': scale_kind, 'positive': lambda k: k, 'asarray': lambda k: k, 'array': lambda k: k, 'copy': lambda k: k,
    'triu': select_kind, 'tril': select_kind, 'nansum': None, 'diag': lambda k: 'Gen', 'diagflat': lambda k: 'Gen',
}
FFT_LINEAR = {'fft', 'ifft', 'rfft', 'irfft', 'fft2', 'ifft2', 'fftn', 'ifftn', 'fftshift', 'ifftshift', 'hfft', 'ihfft'}
BILINEAR = {'einsum', 'dot', 'matmul', 'tensordot', 'kron', 'convolve', 'correlate', 'inner', 'outer', 'vdot', 'multiply', 'cross'}
STACKING = {'concatenate', 'stack', 'hstack', 'vstack', 'dstack', 'column_stack', 'block'}
CREATE_ZERO = {'zeros', 'zeros_like'}
CREATE_PAR = {'ones', 'ones_like', 'full', 'full_like', 'empty', 'empty_like', 'eye', 'identity', 'arange', 'linspace', 'tri', 'indices'}
STATIC_FUNCS = {'result_type', 'broadcast_shapes', 'dtype', 'promote_types', 'iinfo', 'finfo', 'ndim', 'shape', 'size', 'isscalar', 'issubdtype', 'can_cast'}
NONLINEAR_HINT = {'abs', 'absolute', 'square', 'sqrt', 'exp', 'log', 'cos', 'sin', 'tan', 'arccos', 'arcsin', 'arctan', 'arctan2', 'power', 'maximum',
                  'minimum', 'clip', 'sign', 'round', 'floor', 'ceil', 'sort', 'argsort', 'argmax', 'argmin', 'max', 'min', 'prod', 'var', 'std',
                  'linalg.norm', 'tanh', 'sinh', 'cosh', 'reciprocal', 'divide', 'true_divide', 'mod', 'remainder', 'unique', 'nonzero',
                  'cumprod', 'logical_not', 'isnan', 'isfinite', 'nan_to_num', 'rint', 'trunc', 'fix', 'heaviside', 'sinc', 'log1p', 'expm1'}
JNP = ('jax.numpy.', 'jnp.')


@dataclass
class Taint:
    node: ast.AST
    why: str
    definite: bool = True  # False: the value could not be classified (not known to be an array): undecided, not a finding


class KindInterp:
    def __init__(self, world: World, table: ClassTable):
        self.world = world
        self.table = table
        self.taints: list[Taint] = []
        self.unknowns: list[tuple[ast.AST, str]] = []
        self.creations: list[tuple[ast.Call, str, bool]] = []  # (call, func name, has explicit dtype)
        self.depth = 0
        self.memo: dict = {}
        self.in_index = 0
        self.casts: list[tuple[ast.AST, bool, str]] = []  # (call, casts to the dtype of an input-dependent value, text)

    # -------------------------------------------------------------- field typing
    def field_value(self, f: FieldInfo) -> Any:
        text = f.ann_text
        if self._names_operator(f):
            return Op(self._operator_class(f))
        if 'ShapeDtypeStruct' in text:
            return Struct()
        if f.static:
            return Py(f'static field {f.name}')
        if ARRAY_ANN.search(text):
            return Par()
        if 'ConfigState' in text:
            return Py('config')
        cleaned = re.sub(r'\b(int|str|bool|float|None|tuple|list|Sequence|Optional|Union|EllipsisType|slice)\b|[\[\],.| ]', '', text)
        if cleaned == '':
            return Py(f'field {f.name}')
        return Unknown(f'field {f.name} of unrecognised type {text}')

    def _names_operator(self, f: FieldInfo) -> bool:
        for n in ast.walk(f.annotation):
            d = dotted(n) if isinstance(n, (ast.Name, ast.Attribute)) else None
            if d:
                q = self.world.qualify(f.owner.module, d)
                c = self.table.find(q) if q else None
                if c is not None and self.table.is_subclass(c, OPERATOR_BASE):
                    return True
        return False

    def _operator_class(self, f: FieldInfo) -> str | None:
        found = []
        for n in ast.walk(f.annotation):
            d = dotted(n) if isinstance(n, (ast.Name, ast.Attribute)) else None
            if d:
                q = self.world.qualify(f.owner.module, d)
                c = self.table.find(q) if q else None
                if c is not None and self.table.is_subclass(c, OPERATOR_BASE):
                    found.append(c)
        if len(found) == 1 and 'PyTree' not in f.ann_text and 'list' not in f.ann_text:
            return found[0].qual
        return None

    # -------------------------------------------------------------- entry points
    def analyse_method(self, cls: ClassInfo, name: str, args: list[Any]) -> Any:
        r = self.table.resolve(cls, name)
        if r is None or not isinstance(r.node, (ast.FunctionDef, ast.Lambda)):
            return Unknown(f'{cls.name}.{name} does not resolve')
        static = isinstance(r.node, ast.FunctionDef) and any(isinstance(d, ast.Name) and d.id == 'staticmethod' for d in r.node.decorator_list)
        if static:
            return self.call_fn(Fn(r.node, {}, owner=r.owner), args, {}, r.node)
        return self.call_fn(Fn(r.node, {}, self_obj=Obj(cls), owner=r.owner), args, {}, r.node)

    # -------------------------------------------------------------- calls
    def call_fn(self, fn: Fn, args: list[Any], kwargs: dict[str, Any], at: ast.AST) -> Any:
        if fn.special is not None:
            return self.call_special(fn, args, kwargs, at)
        self.depth += 1
        try:
            if self.depth > 30:
                return Unknown('recursion too deep')
            node = fn.node
            all_args = list(fn.bound) + list(args)
            if fn.self_obj is not None:
                all_args = [fn.self_obj] + all_args
            env = dict(fn.env)
            env['__owner__'] = fn.owner
            a = node.args  # type: ignore[attr-defined]
            params = [p.arg for p in a.posonlyargs + a.args]
            defaults = [None] * (len(params) - len(a.defaults)) + list(a.defaults)
            for i, p in enumerate(params):
                if i < len(all_args):
                    env[p] = all_args[i]
                elif p in kwargs:
                    env[p] = kwargs[p]
                elif defaults[i] is not None:
                    env[p] = self.eval(defaults[i], env)
                else:
                    env[p] = Unknown(f'missing argument {p}')
            if a.vararg is not None:
                env[a.vararg.arg] = Tup(tuple(all_args[len(params):]))
            elif len(all_args) > len(params):
                return Unknown('too many arguments')
            for p, d in zip(a.kwonlyargs, a.kw_defaults):
                env[p.arg] = kwargs.get(p.arg, self.eval(d, env) if d is not None else Unknown(f'missing {p.arg}'))
            if a.kwarg is not None:
                env[a.kwarg.arg] = Py('kwargs')
            if isinstance(node, ast.Lambda):
                return self.eval(node.body, env)
            rets: list[Any] = []
            self.exec_block(node.body, env, rets)  # type: ignore[attr-defined]
            out = None
            for r in rets:
                out = join(out, r)
            return out if out is not None else Py('None')
        finally:
            self.depth -= 1

    def call_special(self, fn: Fn, args: list[Any], kwargs: dict[str, Any], at: ast.AST) -> Any:
        sp = fn.special
        if sp == 'vectorize':
            return self.call_value(fn.extra, args, {}, at)
        if sp == 'partial':
            f, bound, bkw = fn.extra
            return self.call_value(f, list(bound) + args, {**bkw, **kwargs}, at)
        if sp == 'linear_transpose':
            inner = fn.extra
            res = self.call_value(inner, [Lin('Id')], {}, at)
            if isinstance(res, (NonLin, Unknown)):
                return res
            if not isinstance(res, Lin):
                return NonLin(f'jax.linear_transpose of a function whose result is {describe(res)}')
            x = args[0] if args else Unknown('no argument')
            return Tup((self.apply_linear(x, 'Gen'),))
        if sp == 'opmv':
            return self.apply_op(args[0] if args else Unknown('no argument'))
        if sp == 'opmethod':
            name = fn.extra
            if name in ('transpose', 'inverse', 'reduce'):
                return Op()
            if name in ('in_structure', 'out_structure'):
                return Struct()
            if name in ('as_matrix',):
                return Par()
            if name in ('in_size', 'out_size'):
                return Py()
            return Unknown(f'operator method {name}')
        return Unknown(f'special {sp}')

    def apply_op(self, x: Any) -> Any:
        return self.apply_linear(x, 'Gen')

    def apply_linear(self, x: Any, k: str) -> Any:
        if isinstance(x, Lin):
            return Lin(k if k == 'Gen' else kjoin(x.k, k))
        if isinstance(x, (Par, Py)):
            return Par()
        if isinstance(x, Zero):
            return Zero()
        if isinstance(x, Struct):
            return Struct()
        if isinstance(x, (NonLin, Unknown)):
            return x
        if isinstance(x, TreeOf):
            return self.apply_linear(x.elem, k)
        if isinstance(x, (Tup, UList)):
            items = x.items if isinstance(x, Tup) else (x.elem,)
            out = None
            for it in items:
                out = join(out, self.apply_linear(it, k))
            return out
        return Unknown(f'operator applied to {describe(x)}')

    def call_value(self, f: Any, args: list[Any], kwargs: dict[str, Any], at: ast.AST) -> Any:
        if isinstance(f, Fn):
            return self.call_fn(f, args, kwargs, at)
        if isinstance(f, FnSet):
            out = None
            for g in f.items:
                out = join(out, self.call_fn(g, args, kwargs, at))
            return out
        if isinstance(f, Py):
            if all(self.is_static(a) for a in list(args) + list(kwargs.values())):
                return Py('call of a static value')
            return Unknown(f'static callable {f.what} applied to dynamic arguments')
        if isinstance(f, Op):
            return self.apply_op(args[0] if args else Unknown('no argument'))
        if isinstance(f, Obj):
            r = self.table.resolve(f.cls, '__call__')
            if r is not None and isinstance(r.node, ast.FunctionDef):
                return self.call_fn(Fn(r.node, {}, self_obj=f, owner=r.owner), args, kwargs, at)
        if isinstance(f, ExternFn):
            return self.external(f.name, args, kwargs, at)
        if isinstance(f, (NonLin, Unknown)):
            return f
        return Unknown(f'call of {describe(f)}')

    # -------------------------------------------------------------- statements
    def exec_block(self, stmts: list[ast.stmt], env: dict, rets: list[Any]) -> bool:
        """Returns False when the block cannot fall through (return/raise on every path)."""
        for st in stmts:
            if not self.exec(st, env, rets):
                return False
        return True

    def exec(self, st: ast.stmt, env: dict, rets: list[Any]) -> bool:
        if isinstance(st, ast.Expr):
            if not isinstance(st.value, ast.Constant):
                self.eval(st.value, env)
            return True
        if isinstance(st, ast.Return):
            rets.append(self.eval(st.value, env) if st.value is not None else Py('None'))
            return False
        if isinstance(st, ast.Raise):
            return False
        if isinstance(st, ast.Assign):
            v = self.eval(st.value, env)
            for t in st.targets:
                self.assign(t, v, env)
            return True
        if isinstance(st, ast.AnnAssign):
            if st.value is not None:
                self.assign(st.target, self.eval(st.value, env), env)
            return True
        if isinstance(st, ast.AugAssign):
            cur = self.eval(st.target, env)
            v = self.binop(type(st.op), cur, self.eval(st.value, env), st)
            self.assign(st.target, v, env)
            return True
        if isinstance(st, ast.If):
            self.static_cond(st.test, env, 'if')
            e1, e2 = dict(env), dict(env)
            f1 = self.exec_block(st.body, e1, rets)
            f2 = self.exec_block(st.orelse, e2, rets)
            self._merge(env, [e for e, f in ((e1, f1), (e2, f2)) if f])
            return f1 or f2
        if isinstance(st, ast.Assert):
            if not (isinstance(st.test, ast.Constant)):
                self.static_cond(st.test, env, 'assert')
            return not (isinstance(st.test, ast.Constant) and st.test.value is False)
        if isinstance(st, (ast.For, ast.While)):
            if isinstance(st, ast.For):
                it = self.eval(st.iter, env)
                elem = self.iter_elem(it, st.iter)
            else:
                self.static_cond(st.test, env, 'while')
                elem = None
            base = dict(env)
            cur = dict(env)
            for _ in range(6):
                if isinstance(st, ast.For):
                    self.assign(st.target, elem, cur)
                body_env = dict(cur)
                self.exec_block(st.body, body_env, rets)
                merged = dict(cur)
                self._merge(merged, [cur, body_env])
                if self._same(merged, cur):
                    break
                cur = merged
            self._merge(env, [base, cur])
            if st.orelse:
                self.exec_block(st.orelse, env, rets)
            return True
        if isinstance(st, ast.FunctionDef):
            fn = Fn(st, env)
            # decorated nested functions (e.g. @partial(jnp.vectorize, signature=...))
            val: Any = fn
            for deco in reversed(st.decorator_list):
                d = self.eval(deco, env)
                val = self.call_value(d, [val], {}, st)
            env[st.name] = val
            return True
        if isinstance(st, (ast.Pass, ast.Import, ast.ImportFrom, ast.Global, ast.Nonlocal)):
            return True
        if isinstance(st, ast.With):
            for item in st.items:
                self.eval(item.context_expr, env)
            return self.exec_block(st.body, env, rets)
        if isinstance(st, ast.Try):
            e1 = dict(env)
            f = self.exec_block(st.body, e1, rets)
            envs = [e1] if f else []
            for h in st.handlers:
                e2 = dict(env)
                self._merge(e2, [env, e1])
                if self.exec_block(h.body, e2, rets):
                    envs.append(e2)
            self._merge(env, envs)
            return bool(envs)
        self.unknowns.append((st, f'statement {type(st).__name__}'))
        return True

    def _merge(self, env: dict, envs: list[dict]) -> None:
        if not envs:
            return
        keys = set()
        for e in envs:
            keys |= set(e)
        for k in keys:
            if k == '__owner__':
                continue
            out = None
            first = True
            for e in envs:
                if k in e:
                    out = e[k] if first else join(out, e[k])
                    first = False
            env[k] = out

    def _same(self, a: dict, b: dict) -> bool:
        return all(a.get(k) == b.get(k) for k in set(a) | set(b) if k != '__owner__')

    def assign(self, target: ast.AST, v: Any, env: dict) -> None:
        if isinstance(target, ast.Name):
            env[target.id] = v
        elif isinstance(target, (ast.Tuple, ast.List)):
            n = len(target.elts)
            if isinstance(v, Tup) and len(v.items) == n and not any(isinstance(e, ast.Starred) for e in target.elts):
                for t, x in zip(target.elts, v.items):
                    self.assign(t, x, env)
            else:
                elem = self.iter_elem(v, target)
                for t in target.elts:
                    if isinstance(t, ast.Starred):
                        self.assign(t.value, UList(elem), env)
                    else:
                        self.assign(t, elem, env)
        elif isinstance(target, ast.Subscript):
            base = self.eval(target.value, env)
            if isinstance(base, (UList, Tup, Py, TreeOf)):
                if isinstance(target.value, ast.Name):
                    if isinstance(base, UList):
                        env[target.value.id] = UList(join(base.elem, v))
                    elif isinstance(base, Tup):
                        env[target.value.id] = UList(join(self.iter_elem(base, target), v))
            else:
                self.unknowns.append((target, f'item assignment on {describe(base)}'))
        elif isinstance(target, ast.Attribute):
            pass
        else:
            self.unknowns.append((target, 'assignment target'))

    def iter_elem(self, it: Any, node: ast.AST) -> Any:
        if isinstance(it, UList):
            return it.elem
        if isinstance(it, Tup):
            out = None
            for x in it.items:
                out = join(out, x)
            return out if out is not None else Py('empty')
        if isinstance(it, TreeOf):
            return it.elem
        if isinstance(it, (Py, Struct)):
            return Py('element')
        if isinstance(it, Op):
            return Op()
        if isinstance(it, (Lin, Par, Zero)):
            # iterating over the leading axis of an array
            return self.index(it, Py(), node)
        if isinstance(it, (NonLin, Unknown)):
            return it
        return Unknown(f'iteration over {describe(it)}')

    # -------------------------------------------------------------- taint
    def static_cond(self, test: ast.AST, env: dict, what: str) -> None:
        v = self.eval(test, env)
        if not self.is_static(v):
            self.taints.append(Taint(test, f'{what} condition `{ast.unparse(test)[:60]}` depends on {describe(v)}: Python control flow on a traced value',
                                     definite=self.is_array(v)))

    def is_array(self, v: Any) -> bool:
        """v is known to be (or to contain) an array that is traced under jit."""
        if isinstance(v, (Lin, Par, Zero, NonLin)):
            return True
        if isinstance(v, Tup):
            return any(self.is_array(x) for x in v.items)
        if isinstance(v, (UList, TreeOf)):
            return self.is_array(v.elem)
        return False

    def is_static(self, v: Any) -> bool:
        if isinstance(v, (Py, Struct, Op, Obj, Fn, FnSet, ExternFn)):
            return True
        if isinstance(v, Tup):
            return all(self.is_static(x) for x in v.items)
        if isinstance(v, (UList, TreeOf)):
            return self.is_static(v.elem)
        return False

    # -------------------------------------------------------------- expressions
    def eval(self, e: ast.AST | None, env: dict) -> Any:
        if e is None:
            return Py('None')
        if isinstance(e, ast.Constant):
            return Py(repr(e.value))
        if isinstance(e, ast.Name):
            if e.id in env:
                return env[e.id]
            return self.global_name(e)
        if isinstance(e, ast.Attribute):
            return self.getattr(self.eval(e.value, env), e.attr, e, env)
        if isinstance(e, ast.BinOp):
            return self.binop(type(e.op), self.eval(e.left, env), self.eval(e.right, env), e)
        if isinstance(e, ast.UnaryOp):
            v = self.eval(e.operand, env)
            if isinstance(e.op, ast.Not):
                return Py() if self.is_static(v) else self._dyn_bool(v)
            if isinstance(e.op, ast.USub):
                if isinstance(v, Lin):
                    return Lin(scale_kind(v.k))
                return v
            if isinstance(e.op, ast.UAdd):
                return v
            if isinstance(v, Lin):
                return NonLin('bitwise inversion of the input')
            return v
        if isinstance(e, ast.BoolOp):
            vals = [self.eval(v, env) for v in e.values]
            if all(self.is_static(v) for v in vals):
                return Py()
            out = None
            for v in vals:
                out = join(out, v)
            return out
        if isinstance(e, ast.Compare):
            vals = [self.eval(e.left, env)] + [self.eval(c, env) for c in e.comparators]
            if all(isinstance(o, (ast.Is, ast.IsNot)) for o in e.ops):
                return Py()
            if all(self.is_static(v) for v in vals):
                return Py()
            if any(isinstance(v, (Lin, NonLin)) for v in vals):
                return NonLin('comparison involving the input')
            unk = next((v for v in vals if isinstance(v, Unknown)), None)
            if unk is not None and not any(self.is_array(v) for v in vals):
                return unk
            return Par()
        if isinstance(e, (ast.Tuple, ast.List)):
            items = []
            for x in e.elts:
                if isinstance(x, ast.Starred):
                    v = self.eval(x.value, env)
                    if isinstance(v, Tup):
                        items.extend(v.items)
                    else:
                        return UList(join(self.iter_elem(v, x), None))
                else:
                    items.append(self.eval(x, env))
            return Tup(tuple(items))
        if isinstance(e, ast.Call):
            return self.call(e, env)
        if isinstance(e, ast.Subscript):
            base = self.eval(e.value, env)
            self.in_index += 1
            try:
                idx = self.eval(e.slice, env)
            finally:
                self.in_index -= 1
            if isinstance(base, AtRef):
                return AtRef(base.base, True) if self._index_ok(idx) else Unknown('at[] with an input-dependent index')
            return self.index(base, idx, e)
        if isinstance(e, ast.Slice):
            parts = [self.eval(x, env) for x in (e.lower, e.upper, e.step) if x is not None]
            if all(self.is_static(p) for p in parts):
                return Py('slice')
            if any(isinstance(p, (Lin, NonLin)) for p in parts):
                return NonLin('slice bound depends on the input')
            return Par()
        if isinstance(e, ast.IfExp):
            self.static_cond(e.test, env, 'conditional expression')
            return join(self.eval(e.body, env), self.eval(e.orelse, env))
        if isinstance(e, ast.Lambda):
            return Fn(e, env, owner=env.get('__owner__'))
        if isinstance(e, (ast.ListComp, ast.GeneratorExp, ast.SetComp)):
            inner = dict(env)
            for g in e.generators:
                it = self.eval(g.iter, inner)
                self.assign(g.target, self.iter_elem(it, g.iter), inner)
                for cond in g.ifs:
                    self.static_cond(cond, inner, 'comprehension filter')
            return UList(self.eval(e.elt, inner))
        if isinstance(e, ast.DictComp):
            return Py('dict')
        if isinstance(e, ast.Dict):
            # a dispatch table: its values as one abstract element (keys must be static)
            if e.values and all(k is not None for k in e.keys):
                elem = None
                for k, v in zip(e.keys, e.values):
                    if not self.is_static(self.eval(k, env)):
                        return Py('dict')
                    elem = join(elem, self.eval(v, env))
                if isinstance(elem, (Fn, FnSet)):
                    return UList(elem)
            return Py('dict')
        if isinstance(e, ast.JoinedStr):
            return Py('str')
        if isinstance(e, ast.NamedExpr):
            v = self.eval(e.value, env)
            env[e.target.id] = v
            return v
        if isinstance(e, ast.Starred):
            return self.eval(e.value, env)
        self.unknowns.append((e, f'expression {type(e).__name__}'))
        return Unknown(f'expression {type(e).__name__}')

    def _dyn_bool(self, v: Any) -> Any:
        if isinstance(v, (Lin, NonLin)):
            return NonLin('boolean of the input')
        return Par()

    def _index_ok(self, idx: Any) -> bool:
        if isinstance(idx, Tup):
            return all(self._index_ok(x) for x in idx.items)
        if isinstance(idx, UList):
            return self._index_ok(idx.elem)  # a tuple of index entries built by a comprehension
        return isinstance(idx, (Py, Par, Zero, Struct))

    def index(self, base: Any, idx: Any, node: ast.AST) -> Any:
        if isinstance(base, (NonLin, Unknown)):
            return base
        if isinstance(base, Tup):
            if isinstance(node, ast.Subscript) and isinstance(node.slice, ast.Constant) and isinstance(node.slice.value, int):
                i = node.slice.value
                if -len(base.items) <= i < len(base.items):
                    return base.items[i]
            if isinstance(node, ast.Subscript) and isinstance(node.slice, ast.Slice):
                return UList(self.iter_elem(base, node))
            return self.iter_elem(base, node)
        if isinstance(base, UList):
            if isinstance(node, ast.Subscript) and isinstance(node.slice, ast.Slice):
                return base
            return base.elem
        if isinstance(base, TreeOf):
            return base
        if isinstance(base, (Py, Struct)):
            return Py('item')
        if isinstance(base, Op):
            return Op()
        if not self._index_ok(idx):
            return NonLin('index depends on the input') if isinstance(idx, (Lin, NonLin)) else Unknown(f'index {describe(idx)}')
        if isinstance(base, Lin):
            return Lin(select_kind(base.k))
        if isinstance(base, Zero):
            return Zero()
        if isinstance(base, Par):
            return Par()
        return Unknown(f'subscript of {describe(base)}')

    def global_name(self, e: ast.Name) -> Any:
        module = module_of(e)
        q = self.world.qualify(module, e.id)
        if q and q != e.id or e.id in module.imports:
            assert q is not None
            cls = self.table.find(q)
            if cls is not None:
                return ClassVal(cls)
            node = self.world.lookup(q)
            if isinstance(node, ast.FunctionDef):
                val: Any = Fn(node, {})
                for deco in reversed(node.decorator_list):
                    dq = self.world.qualify(module_of(node), deco.func if isinstance(deco, ast.Call) else deco)
                    if dq in ('jax.jit', 'jax.vmap', 'functools.partial', 'equinox.filter_jit'):
                        continue
                return val
            if isinstance(node, (ast.Assign, ast.AnnAssign)):
                return Py(f'module constant {e.id}')
            return ExternFn(q)
        if e.id in module.defs:
            node = module.defs[e.id]
            if isinstance(node, ast.FunctionDef):
                return Fn(node, {})
            if isinstance(node, ast.ClassDef):
                c = self.table.find(f'{module.name}.{e.id}')
                if c is not None:
                    return ClassVal(c)
            return Py(f'module constant {e.id}')
        if e.id in BUILTINS:
            return ExternFn(e.id)
        if e.id in ('Ellipsis', 'NotImplemented', 'None', 'True', 'False'):
            return Py(e.id)
        return Unknown(f'unbound name {e.id}')

    def getattr(self, base: Any, attr: str, node: ast.AST, env: dict) -> Any:
        if isinstance(base, (NonLin, Unknown)):
            return base
        if isinstance(base, Rec):
            if attr in base.names:
                return base.items[base.names.index(attr)]
            r = self.table.resolve(base.cls, attr) if base.cls is not None else None
            if r is not None and isinstance(r.node, ast.FunctionDef):
                fn = Fn(r.node, {}, bound=(base,), owner=r.owner)
                if r.is_property or any(ast.unparse(d) == 'property' for d in r.node.decorator_list):
                    return self.call_fn(fn, [], {}, node)
                return fn
            return Unknown(f'attribute {attr} of a {base.cls.name if base.cls is not None else "record"}')
        if isinstance(base, Obj):
            return self.obj_attr(base, attr, node)
        if isinstance(base, Op):
            if base.cls is not None:
                cls = self.table.find(base.cls)
                if cls is not None:
                    for f in self.table.fields(cls):
                        if f.name == attr:
                            return self.field_value(f)
            if attr == 'mv':
                return Fn(node, {}, special='opmv')
            if attr in ('T', 'I'):
                return Op()
            if attr in ('operator',):
                return Op()
            if attr in ('operands', 'blocks', 'operand_leaves', 'block_leaves'):
                return Op()
            if attr in ('transpose', 'inverse', 'reduce', 'in_structure', 'out_structure', 'as_matrix', 'in_size', 'out_size'):
                return Fn(node, {}, special='opmethod', extra=attr)
            if attr in ('in_promoted_dtype', 'out_promoted_dtype'):
                return Py('dtype')
            return Unknown(f'attribute {attr} of an operator of unknown class')
        if isinstance(base, (Lin, Par, Zero)):
            if attr in ('shape', 'ndim', 'size', 'dtype', 'itemsize', 'nbytes'):
                return Py(f'.{attr}')
            if attr == 'T' or attr == 'mT':
                return self.apply_linear(base, 'Perm') if isinstance(base, Lin) else base
            if attr in ('real', 'imag'):
                return Lin('Gen') if isinstance(base, Lin) else base
            if attr == 'at':
                return AtRef(base)
            if attr == 'value' and isinstance(base, Par):
                return Par()
            # class-level constants of the Stokes containers (x.stokes): Python values, not data
            if self._stokes_class_constant(attr):
                return Py(f'.{attr}')
            # Stokes component of a pytree value (x.q)
            if len(attr) == 1 and attr in 'iquv':
                return Lin(select_kind(base.k)) if isinstance(base, Lin) else base
            return Fn(node, {}, special=None, extra=None) if False else MethodOf(base, attr)
        if isinstance(base, AtRef):
            return MethodOf(base, attr)
        if isinstance(base, (Py, Struct)):
            return Py(f'.{attr}')
        if isinstance(base, (Tup, UList, TreeOf)):
            return MethodOf(base, attr)
        if isinstance(base, ExternFn):
            return ExternFn(f'{base.name}.{attr}')
        if isinstance(base, ClassVal):
            r = self.table.resolve(base.cls, attr)
            if r is not None and isinstance(r.node, ast.FunctionDef):
                decos = [self.world.qualify(module_of(r.node), d) for d in r.node.decorator_list]
                if 'staticmethod' in decos:
                    return Fn(r.node, {}, owner=r.owner)
                if 'classmethod' in decos:
                    return Fn(r.node, {}, self_obj=base, owner=r.owner)
                return Fn(r.node, {}, owner=r.owner)
            return Py(f'class attribute {attr}')
        if isinstance(base, Solution):
            if attr == 'value':
                return base.value
            return Py(f'solution.{attr}')
        if isinstance(base, Fn):
            return Py('function attribute')
        return Unknown(f'attribute {attr} of {describe(base)}')

    def _stokes_class_constant(self, attr: str) -> bool:
        from .linform import STOKES_BASE

        hits = 0
        for c in self.table.subclasses(STOKES_BASE):
            v = c.own.get(attr)
            if isinstance(v, (ast.Assign, ast.AnnAssign)) and isinstance(getattr(v, 'value', None), ast.Constant):
                if any(f.name == attr for f in self.table.fields(c)):
                    return False
                hits += 1
        return hits > 0

    def obj_attr(self, obj: Obj, attr: str, node: ast.AST) -> Any:
        for f in self.table.fields(obj.cls):
            if f.name == attr:
                return self.field_value(f)
        r = self.table.resolve(obj.cls, attr)
        if r is not None:
            if isinstance(r.node, ast.FunctionDef):
                if r.is_property:
                    return self.call_fn(Fn(r.node, {}, self_obj=obj, owner=r.owner), [], {}, node)
                decos = [self.world.qualify(module_of(r.node), d) for d in r.node.decorator_list]
                if 'staticmethod' in decos:
                    return Fn(r.node, {}, owner=r.owner)
                return Fn(r.node, {}, self_obj=obj, owner=r.owner)
            if isinstance(r.node, ast.Lambda):
                return Fn(r.node, {}, self_obj=obj, owner=r.owner)
            return Py(f'class attribute {attr}')
        if attr in ('T', 'I'):
            return Op()
        return Unknown(f'{obj.cls.name}.{attr} does not resolve')

    # -------------------------------------------------------------- arithmetic
    def binop(self, op: type, l: Any, r: Any, node: ast.AST) -> Any:
        for v in (l, r):
            if isinstance(v, (NonLin, Unknown)):
                return v
        if isinstance(l, (Tup, UList)) or isinstance(r, (Tup, UList)):
            # python sequence arithmetic (shape tuples, list concatenation)
            if self.is_static(l) and self.is_static(r):
                return Py('sequence')
            if op is ast.Add and isinstance(l, (Tup, UList)) and isinstance(r, (Tup, UList)):
                return UList(join(self.iter_elem(l, node), self.iter_elem(r, node)))
            if op is ast.Mult:
                seq = l if isinstance(l, (Tup, UList)) else r
                return UList(self.iter_elem(seq, node))
        if op is ast.MatMult:
            if isinstance(l, Op) or isinstance(r, Op) or isinstance(l, Obj) or isinstance(r, Obj):
                return Op()
            return self.bilinear([l, r], 'matmul')
        lin_l, lin_r = isinstance(l, Lin), isinstance(r, Lin)
        const_l, const_r = isinstance(l, (Par, Py)), isinstance(r, (Par, Py))
        if op in (ast.Add, ast.Sub):
            if lin_l and lin_r:
                return Lin('Scale' if l.k in ('Id', 'Scale') and r.k in ('Id', 'Scale') else 'Gen')  # sum of two linear maps
            if lin_l and isinstance(r, Zero):
                return l
            if lin_r and isinstance(l, Zero):
                return r if op is ast.Add else Lin(scale_kind(r.k))
            if (lin_l and const_r) or (lin_r and const_l):
                return NonLin('a constant is added to a value that is linear in the input (affine, not linear)')
            if isinstance(l, Zero) and isinstance(r, Zero):
                return Zero()
            if isinstance(l, Py) and isinstance(r, Py):
                return Py()
            return Par()
        if op is ast.Mult:
            if lin_l and lin_r:
                return NonLin('product of two values that both depend on the input')
            if lin_l and (const_r or isinstance(r, Zero)):
                return Lin(scale_kind(l.k)) if not isinstance(r, Zero) else Zero()
            if lin_r and (const_l or isinstance(l, Zero)):
                return Lin(scale_kind(r.k)) if not isinstance(l, Zero) else Zero()
            if isinstance(l, Zero) or isinstance(r, Zero):
                return Zero()
            if isinstance(l, Py) and isinstance(r, Py):
                return Py()
            return Par()
        if op in (ast.Div, ast.FloorDiv, ast.Mod):
            if lin_r:
                return NonLin('division by a value that depends on the input')
            if lin_l:
                if op is ast.Div and const_r:
                    return Lin(scale_kind(l.k))
                return NonLin('floor division / modulo of the input')
            if isinstance(l, Py) and isinstance(r, Py):
                return Py()
            if isinstance(l, Zero):
                return Zero()
            return Par()
        if op is ast.Pow:
            if lin_l or lin_r:
                return NonLin('power involving the input')
            if isinstance(l, Py) and isinstance(r, Py):
                return Py()
            return Par()
        if lin_l or lin_r:
            return NonLin(f'operator {op.__name__} applied to the input')
        if isinstance(l, Py) and isinstance(r, Py):
            return Py()
        return Par()

    def bilinear(self, vals: list[Any], what: str) -> Any:
        arr = [v for v in vals if not isinstance(v, Py) or True]
        nlin = sum(isinstance(v, Lin) for v in arr)
        for v in arr:
            if isinstance(v, (NonLin, Unknown)):
                return v
        if nlin >= 2:
            return NonLin(f'{what} of two values that both depend on the input')
        if nlin == 1:
            if any(isinstance(v, Zero) for v in arr):
                return Zero()
            return Lin('Gen')
        if any(isinstance(v, Zero) for v in arr):
            return Zero()
        return Par()

    # -------------------------------------------------------------- calls (syntax)
    def call(self, e: ast.Call, env: dict) -> Any:
        f = e.func
        # super().m(...)
        if isinstance(f, ast.Attribute) and isinstance(f.value, ast.Call) and isinstance(f.value.func, ast.Name) and f.value.func.id == 'super':
            owner: ClassInfo | None = env.get('__owner__')
            self_obj = next((v for k, v in env.items() if isinstance(v, Obj)), None)
            if owner is None or self_obj is None:
                return Unknown('super() outside a method')
            mro = self_obj.cls.mro
            for k in mro[mro.index(owner) + 1:] if owner in mro else []:
                if f.attr in k.patched or f.attr in k.own:
                    r = self.table.resolve(k, f.attr)
                    if r is not None and isinstance(r.node, (ast.FunctionDef, ast.Lambda)):
                        args, kwargs = self.args(e, env)
                        return self.call_fn(Fn(r.node, {}, self_obj=self_obj, owner=r.owner), args, kwargs, e)
            return Unknown(f'super().{f.attr} does not resolve')
        # getattr(obj, f'<prefix>{...}<suffix>'[, default]): one of the methods of the object named that way
        if isinstance(f, ast.Name) and f.id == 'getattr' and 'getattr' not in env and len(e.args) in (2, 3) and isinstance(e.args[1], ast.JoinedStr):
            target = self.eval(e.args[0], env)
            parts = e.args[1].values
            holes = [v for v in parts if isinstance(v, ast.FormattedValue)]
            if isinstance(target, Obj) and len(holes) == 1 and all(isinstance(v, (ast.Constant, ast.FormattedValue)) for v in parts):
                i = parts.index(holes[0])
                prefix = ''.join(v.value for v in parts[:i])
                suffix = ''.join(v.value for v in parts[i + 1:])
                names = sorted({n for k in target.cls.mro for n, d in k.own.items() if isinstance(d, ast.FunctionDef) and n.startswith(prefix) and n.endswith(suffix) and len(n) > len(prefix) + len(suffix)})
                out = None
                for n in names:
                    out = join(out, self.obj_attr(target, n, e))
                if out is not None:
                    return out
        # getattr(obj, name) where the possible names are the string constants of a class-level table (sa/memo.py resolves them)
        if isinstance(f, ast.Name) and f.id == 'getattr' and 'getattr' not in env and len(e.args) in (2, 3) and not isinstance(e.args[1], (ast.JoinedStr, ast.Constant)):
            target = self.eval(e.args[0], env)
            from .loader import enclosing
            from .memo import Deps

            fn_ = enclosing(e, (ast.FunctionDef,))
            if isinstance(target, Obj) and fn_ is not None and fn_.args.args:
                names_ = Deps(self.world, self.table, target.cls)._strings(e.args[1], fn_, fn_.args.args[0].arg, set())
                if names_:
                    out = None
                    for n in sorted(names_):
                        if any(n in k.own for k in target.cls.mro):
                            out = join(out, self.obj_attr(target, n, e))
                    if out is not None:
                        return out
        fv = self.eval(f, env)
        args, kwargs = self.args(e, env)
        if isinstance(f, ast.Attribute) and f.attr == 'astype' or (isinstance(fv, ExternFn) and fv.name.endswith('.astype')):
            darg = e.args[-1] if e.args else next((k.value for k in e.keywords if k.arg == 'dtype'), None)
            recv = self.eval(f.value, env) if isinstance(f, ast.Attribute) and f.attr == 'astype' else (args[0] if args else None)
            if isinstance(recv, Lin) and darg is not None:
                to_input = False
                if isinstance(darg, ast.Attribute) and darg.attr == 'dtype':
                    src = self.eval(darg.value, env)
                    to_input = isinstance(src, Lin) and src.k in ('Id', 'Perm', 'Select')
                self.casts.append((e, to_input, ast.unparse(darg)))
        if isinstance(fv, MethodOf):
            return self.method(fv, args, kwargs, e)
        if isinstance(fv, ClassVal):
            return self.construct(fv.cls, args, kwargs, e)
        if isinstance(fv, ExternFn):
            return self.external(fv.name, args, kwargs, e)
        return self.call_value(fv, args, kwargs, e)

    def args(self, e: ast.Call, env: dict) -> tuple[list[Any], dict[str, Any]]:
        args: list[Any] = []
        for a in e.args:
            if isinstance(a, ast.Starred):
                v = self.eval(a.value, env)
                if isinstance(v, Tup):
                    args.extend(v.items)
                else:
                    args.append(StarArg(self.iter_elem(v, a)))
            else:
                args.append(self.eval(a, env))
        kwargs = {kw.arg: self.eval(kw.value, env) for kw in e.keywords if kw.arg is not None}
        return args, kwargs

    def construct(self, cls: ClassInfo, args: list[Any], kwargs: dict[str, Any], e: ast.Call) -> Any:
        if self.table.is_subclass(cls, OPERATOR_BASE):
            return Op(cls.qual)
        vals = [a.elem if isinstance(a, StarArg) else a for a in args] + list(kwargs.values())
        if self.table.is_subclass(cls, 'furax.landscapes.StokesPyTree'):
            out = None
            for v in vals:
                if isinstance(v, Lin):
                    v = Lin('Gen')
                out = join(out, v)
            return out if out is not None else Py()
        names = self._record_fields(cls)
        if names is not None and not any(isinstance(a, StarArg) for a in args) and len(args) <= len(names) and all(k in names for k in kwargs):
            items = dict(zip(names, args))
            items.update(kwargs)
            if set(items) == set(names):
                return Rec(tuple(items[n] for n in names), tuple(names), cls)
        if all(self.is_static(v) for v in vals):
            return Py(f'{cls.name} instance')
        return Unknown(f'construction of {cls.name} from {[describe(v) for v in vals]}')

    def _record_fields(self, cls: ClassInfo) -> list[str] | None:
        ext = {b.split('.')[-1] for k in cls.mro for b in k.external_bases}
        decos = {d.split('.')[-1] for d in cls.decorators}
        if ('NamedTuple' not in ext and 'dataclass' not in decos) or any('__init__' in k.own or '__new__' in k.own for k in cls.mro):
            return None
        names: list[str] = []
        for k in reversed(cls.mro):
            for f in k.own_fields:
                if f.name not in names:
                    names.append(f.name)
        return names or None

    def method(self, m: 'MethodOf', args: list[Any], kwargs: dict[str, Any], e: ast.Call) -> Any:
        base, name = m.base, m.name
        vals = [a.elem if isinstance(a, StarArg) else a for a in args]
        if isinstance(base, UList) and isinstance(base.elem, (Fn, FnSet)) and name in ('get', 'pop', '__getitem__'):
            return base.elem  # lookup in a table of callables (a missing key gives None / raises: not a callable result)
        if isinstance(base, AtRef):
            if not base.indexed:
                return Unknown('.at used without an index')
            target = base.base
            v = vals[0] if vals else Py()
            if name in ('set', 'add', 'subtract'):
                if isinstance(v, (NonLin, Unknown)):
                    return v
                if isinstance(v, Lin):
                    if isinstance(target, (Zero, Lin)):
                        return Lin('Gen')
                    return NonLin('an input-dependent value is written into a non-zero constant buffer (affine result)')
                if isinstance(target, Lin):
                    if isinstance(v, Zero):
                        return Lin('Gen')
                    if name == 'set' and isinstance(v, (Par, Py)):
                        return NonLin('a constant is written into a buffer that is linear in the input (affine result)')
                    return NonLin('a constant is accumulated into a buffer that is linear in the input (affine result)')
                if isinstance(target, Zero) and isinstance(v, Zero):
                    return Zero()
                return Par()
            if name in ('multiply', 'divide'):
                if isinstance(v, (Lin, NonLin)):
                    return NonLin('.at[].multiply with an input-dependent factor')
                return Lin('Gen') if isinstance(target, Lin) else target
            if name == 'get':
                return self.index(target, Py(), e)
            return Unknown(f'.at[].{name}')
        if isinstance(base, (Lin, Par, Zero)):
            lin = isinstance(base, Lin)
            if name in ('reshape', 'ravel', 'flatten', 'transpose', 'swapaxes', 'squeeze', 'view'):
                if not all(self.is_static(v) for v in vals):
                    self.taints.append(Taint(e, f'.{name} with a non-static shape argument', definite=not any(_has_unknown(v) for v in vals)))
                return Lin(perm_kind(base.k)) if lin else base
            if name == 'astype':
                return base
            if name in ('copy', 'block_until_ready', '__array__'):
                return base
            if name in ('sum', 'mean', 'cumsum', 'dot', 'trace'):
                if name == 'dot':
                    return self.bilinear([base] + vals, 'dot')
                return Lin('Gen') if lin else base
            if name in ('conj', 'conjugate'):
                return Lin('Gen') if lin else base
            if name in ('take', 'compress', 'diagonal'):
                return Lin(select_kind(base.k)) if lin else base
            if name in ('item', 'tolist', '__int__', '__float__', '__bool__', 'any', 'all', 'max', 'min', 'argmax', 'argmin', 'prod', 'std', 'var', 'round', 'clip', 'sort', 'argsort', 'nonzero'):
                if lin:
                    return NonLin(f'.{name}() of the input')
                if name in ('item', 'tolist', '__int__', '__float__', '__bool__'):
                    self.taints.append(Taint(e, f'.{name}() concretises an array that is traced under jit'))
                return base
            return Unknown(f'array method {name}')
        if isinstance(base, (Py, Struct)):
            if all(self.is_static(v) for v in vals + list(kwargs.values())):
                return Py(f'.{name}()')
            if name in ('get',):
                return Py()
            return Unknown(f'method {name} of a static value with dynamic arguments')
        if isinstance(base, (Tup, UList)):
            if name == 'copy':
                return base
            if name in ('index', 'count'):
                return Py()
            if name == 'append':
                return Py('None')
            if name == 'pop':
                return self.iter_elem(base, e)
            return Unknown(f'sequence method {name}')
        if isinstance(base, TreeOf):
            return Unknown(f'method {name} of a pytree')
        return Unknown(f'method {name} of {describe(base)}')

    # -------------------------------------------------------------- external functions
    def external(self, name: str, args: list[Any], kwargs: dict[str, Any], e: ast.Call) -> Any:
        vals = [a.elem if isinstance(a, StarArg) else a for a in args]
        allv = vals + list(kwargs.values())
        for v in allv:
            if isinstance(v, Unknown):
                return v
        short = name
        for p in ('jax.numpy.', 'jax.lax.', 'jax.scipy.linalg.', 'jax.scipy.', 'numpy.'):
            if name.startswith(p):
                short = name[len(p):]
        is_jnp = name.startswith('jax.numpy.') or name.startswith('jax.lax.') or name.startswith('jax.scipy.')
        is_np = name.startswith('numpy.') or name.startswith('math.')
        static_args = all(self.is_static(v) for v in allv)

        # ---- builtins
        if name in BUILTINS:
            if name == 'isinstance':
                return Py('isinstance')
            if name in ('len',):
                # len() of anything is a Python int; for a traced array it is the static leading dimension
                return Py('len')
            if name in ('int', 'float', 'bool', 'range', 'complex'):
                if not static_args:
                    self.taints.append(Taint(e, f'{name}() applied to {", ".join(describe(v) for v in vals)}: a traced value is concretised / used as a Python loop bound'))
                return Py(name)
            if name in ('reversed', 'list', 'tuple', 'sorted', 'set', 'iter'):
                if not vals:
                    return UList(Py())
                v = vals[0]
                return v if isinstance(v, (Tup, UList)) and name in ('list', 'tuple', 'reversed') else UList(self.iter_elem(v, e))
            if name == 'enumerate':
                return UList(Tup((Py('index'), self.iter_elem(vals[0], e))))
            if name == 'zip':
                return UList(Tup(tuple(self.iter_elem(v, e) for v in vals)))
            if name in ('sum',):
                elem = self.iter_elem(vals[0], e)
                start = kwargs.get('start', vals[1] if len(vals) > 1 else Py('0'))
                if isinstance(elem, Lin):
                    if isinstance(start, (Lin, Zero)) or (isinstance(start, Py)):
                        return Lin('Gen')
                    return NonLin('sum with a non-zero constant start added to input-dependent terms')
                return elem if not isinstance(elem, Py) else Py()
            if name in ('min', 'max', 'abs', 'all', 'any', 'prod', 'round', 'divmod', 'pow'):
                if static_args:
                    return Py(name)
                if any(isinstance(v, (Lin, NonLin)) for v in vals):
                    return NonLin(f'{name}() of the input')
                self.taints.append(Taint(e, f'builtin {name}() on a traced array'))
                return Par()
            if name in ('getattr', 'hasattr', 'type', 'str', 'repr', 'print', 'id', 'callable', 'super', 'slice', 'dict', 'frozenset', 'isinstance', 'issubclass', 'map', 'filter', 'next'):
                return Py(name) if static_args else (vals[0] if name == 'getattr' and isinstance(vals[0], (Lin, Par)) and False else Py(name))
            return Unknown(f'builtin {name}')

        # ---- functools / operator
        if name == 'functools.partial':
            return Fn(e, {}, special='partial', extra=(vals[0], tuple(vals[1:]), dict(kwargs)))
        if name == 'functools.reduce':
            return self.reduce(vals[0], vals[1], vals[2] if len(vals) > 2 else None, e)
        if name.startswith('operator.'):
            opn = name.split('.')[-1]
            table = {'add': ast.Add, 'sub': ast.Sub, 'mul': ast.Mult, 'truediv': ast.Div, 'matmul': ast.MatMult, 'pow': ast.Pow}
            if opn in table and len(vals) == 2:
                return self.binop(table[opn], vals[0], vals[1], e)
            if opn == 'neg' and vals:
                return Lin(scale_kind(vals[0].k)) if isinstance(vals[0], Lin) else vals[0]
        if name in ('collections.Counter', 'math.prod', 'typing.cast'):
            if name == 'typing.cast':
                return vals[1] if len(vals) > 1 else Py()
            if static_args:
                return Py(name)
            self.taints.append(Taint(e, f'{name} on a traced value'))
            return Py(name)

        # ---- jax.tree
        if name in ('jax.tree.map', 'jax.tree_util.tree_map', 'jax.tree_map'):
            f = vals[0]
            leaves = [self.leaf_of(v) for v in vals[1:]]
            res = self.call_value(f, leaves, {}, e)
            if isinstance(res, (Tup,)):
                return TreeOf(res)
            return res
        if name in ('jax.tree.leaves', 'jax.tree_util.tree_leaves'):
            return UList(self.leaf_of(vals[0]))
        if name in ('jax.tree.flatten', 'jax.tree_util.tree_flatten'):
            return Tup((UList(self.leaf_of(vals[0])), Py('treedef')))
        if name in ('jax.tree.unflatten', 'jax.tree_util.tree_unflatten'):
            elem = self.iter_elem(vals[1], e)
            return elem if isinstance(elem, (Lin, Par, Zero, NonLin)) else TreeOf(elem)
        if name in ('jax.tree.structure', 'jax.tree_util.tree_structure', 'jax.tree_util.treedef_is_leaf', 'jax.tree.all', 'jax.tree_util.tree_all'):
            if name.endswith('all') and not self.is_static(self.leaf_of(vals[0])):
                self.taints.append(Taint(e, 'tree.all of traced leaves used as a Python value'))
            return Py(name)
        if name in ('jax.tree.reduce', 'jax.tree_util.tree_reduce'):
            init = vals[2] if len(vals) > 2 else kwargs.get('initializer')
            return self.reduce(vals[0], UList(self.leaf_of(vals[1])), init, e)

        # ---- jax core
        if name == 'jax.linear_transpose':
            return Fn(e, {}, special='linear_transpose', extra=vals[0])
        if name in ('jax.eval_shape',):
            return Struct()
        if name in ('jax.jit', 'jax.vmap', 'equinox.filter_jit', 'jax.checkpoint', 'jax.remat'):
            return vals[0] if vals else Fn(e, {}, special='partial', extra=(ExternFn(name), (), dict(kwargs)))
        if name == 'jax.numpy.vectorize':
            if vals:
                return Fn(e, {}, special='vectorize', extra=vals[0])
            return Fn(e, {}, special='partial', extra=(ExternFn(name), (), dict(kwargs)))
        if name in ('jax.debug.callback', 'jax.debug.print', 'jax.device_put', 'jax.block_until_ready'):
            return vals[0] if name in ('jax.device_put', 'jax.block_until_ready') and vals else Py('None')
        if name == 'jax.lax.fori_loop':
            lo, hi, body, init = (vals + [Py()] * 4)[:4]
            if not (self.is_static(lo) and self.is_static(hi)):
                self.taints.append(Taint(e, 'fori_loop bounds depend on a traced value'))
            carry = init
            for _ in range(6):
                res = self.call_value(body, [Py('loop index'), carry], {}, e)
                nxt = join(carry, res)
                if nxt == carry:
                    break
                carry = nxt
            return carry
        if name in ('jax.lax.dynamic_slice', 'jax.lax.dynamic_slice_in_dim', 'jax.lax.slice', 'jax.lax.slice_in_dim', 'jax.lax.dynamic_index_in_dim'):
            base = vals[0]
            if any(isinstance(v, (Lin, NonLin)) for v in vals[1:]):
                return NonLin('slice position depends on the input')
            return Lin(select_kind(base.k)) if isinstance(base, Lin) else base
        if name in ('jax.lax.dynamic_update_slice', 'jax.lax.dynamic_update_slice_in_dim'):
            a, b = vals[0], vals[1]
            if isinstance(a, (NonLin,)) or isinstance(b, NonLin):
                return a if isinstance(a, NonLin) else b
            if isinstance(a, (Lin, Zero)) and isinstance(b, (Lin, Zero)):
                return Lin('Gen') if isinstance(a, Lin) or isinstance(b, Lin) else Zero()
            if isinstance(a, Lin) or isinstance(b, Lin):
                return NonLin('an input-dependent block and a non-zero constant are mixed in one buffer (affine result)')
            return Par()
        if name in ('lineax.linear_solve',):
            b = vals[1] if len(vals) > 1 else Unknown('no rhs')
            if isinstance(vals[0], (Lin, NonLin)):
                return NonLin('the solve matrix depends on the input')
            return Solution(self.apply_linear(b, 'Gen'))
        if name in ('lineax.TaggedLinearOperator',):
            return Op()
        if name.startswith('lineax.'):
            return Py(name) if static_args else Unknown(name)

        # ---- numpy on traced values
        if is_np:
            if not static_args:
                self.taints.append(Taint(e, f'{name} applied to {", ".join(describe(v) for v in allv if not self.is_static(v))}: NumPy forces a traced value to be concrete'))
                if any(isinstance(v, (Lin, NonLin)) for v in allv):
                    return NonLin(f'{name} of the input')
                return Par()
            return Py(name)

        # ---- jax.numpy & friends
        if is_jnp:
            if short in CREATE_ZERO:
                self._creation(e, short, kwargs, len(vals))
                return Zero()
            if short in CREATE_PAR:
                self._creation(e, short, kwargs, len(vals))
                return Par()
            if short in ('array', 'asarray') and static_args:
                self._creation(e, short, kwargs, len(vals))
                return Par()
            if short in STATIC_FUNCS:
                return Py(short)
            if short in ('astype',):
                return vals[0]
            if short in LINEAR_UNARY and LINEAR_UNARY[short] is not None:
                base = vals[0]
                others = vals[1:] + list(kwargs.values())
                if any(isinstance(v, (Lin, NonLin)) for v in others):
                    return NonLin(f'{short}: a shape/index argument depends on the input')
                if isinstance(base, Lin):
                    return Lin(LINEAR_UNARY[short](base.k))
                if isinstance(base, (Tup, UList)):
                    elem = self.iter_elem(base, e)
                    return Lin('Gen') if isinstance(elem, Lin) else (elem if isinstance(elem, (Par, Zero, NonLin)) else Par())
                return base if isinstance(base, (Par, Zero, NonLin)) else Par()
            if short.startswith('fft.') and short.split('.')[1] in FFT_LINEAR:
                base = vals[0]
                if not all(self.is_static(v) for v in vals[1:] + list(kwargs.values())):
                    self.taints.append(Taint(e, f'{short} with a traced size argument'))
                return Lin('Gen') if isinstance(base, Lin) else base
            if short in BILINEAR:
                arrs = [v for v in vals if not (isinstance(v, Py) and short == 'einsum')]
                return self.bilinear(arrs, short)
            if short in STACKING:
                seq = vals[0]
                items = list(seq.items) if isinstance(seq, Tup) else [self.iter_elem(seq, e)]
                if any(isinstance(v, NonLin) for v in items):
                    return next(v for v in items if isinstance(v, NonLin))
                if any(isinstance(v, Lin) for v in items):
                    if all(isinstance(v, (Lin, Zero)) for v in items):
                        return Lin('Gen')
                    return NonLin('input-dependent and constant blocks are stacked into one array (affine result)')
                if all(isinstance(v, Zero) for v in items):
                    return Zero()
                return Par()
            if short == 'pad':
                base = vals[0]
                mode = kwargs.get('mode')
                cv = kwargs.get('constant_values')
                mode_src = next((ast.unparse(k.value) for k in e.keywords if k.arg == 'mode'), "'constant'")
                if not all(self.is_static(v) for v in vals[1:]):
                    self.taints.append(Taint(e, 'pad widths depend on a traced value'))
                if isinstance(base, Lin):
                    if cv is not None:
                        return NonLin('padding with a non-zero constant (affine result)')
                    if mode_src.strip('"\'') not in ('constant', 'wrap', 'reflect', 'symmetric', 'edge', 'empty'):
                        return Unknown(f'pad mode {mode_src}')
                    return Lin('Gen')
                return base
            if short == 'where':
                if len(vals) != 3:
                    return Unknown('one-argument where')
                c, a, b = vals
                if isinstance(c, (Lin, NonLin)):
                    return NonLin('selection (where) on a condition that depends on the input')
                if isinstance(a, Lin) or isinstance(b, Lin):
                    if all(isinstance(v, (Lin, Zero)) or (isinstance(v, Py) and v.what in ('0', '0.0')) for v in (a, b)):
                        return Lin('Gen')
                    return NonLin('where mixes an input-dependent branch with a non-zero constant branch')
                return Par()
            if short in ('add', 'subtract'):
                return self.binop(ast.Add if short == 'add' else ast.Sub, vals[0], vals[1], e)
            if short in ('linalg.inv', 'linalg.solve', 'linalg.pinv', 'linalg.cholesky', 'block_diag', 'linalg.det', 'linalg.eigh'):
                if any(isinstance(v, (Lin, NonLin)) for v in vals):
                    if short == 'linalg.solve' and not isinstance(vals[0], (Lin, NonLin)) and isinstance(vals[1], Lin):
                        return Lin('Gen')
                    return NonLin(f'{short} of the input')
                return Par()
            if short in NONLINEAR_HINT or short.split('.')[-1] in NONLINEAR_HINT:
                if any(isinstance(v, (Lin, NonLin)) for v in vals):
                    return NonLin(f'non-linear function {short} applied to the input')
                if short == 'unique':
                    return Tup((Par(), Par())) if kwargs.get('return_counts') is not None else Par()
                return Par() if not static_args else Par()
            if static_args:
                return Par()
            return Unknown(f'jax function {name} is not in the linear-primitive whitelist')

        if name.startswith('jax.random.'):
            return Par()
        if static_args:
            return Py(name)
        return Unknown(f'external call {name}')

    def _creation(self, e: ast.Call, short: str, kwargs: dict[str, Any], nargs: int) -> None:
        has_dtype = 'dtype' in kwargs
        positional_dtype = {'zeros': 2, 'ones': 2, 'empty': 2, 'full': 3, 'eye': 4, 'identity': 2, 'zeros_like': 2, 'ones_like': 2, 'full_like': 3, 'array': 2, 'asarray': 2, 'arange': 4}
        if not has_dtype and short in positional_dtype and nargs >= positional_dtype[short]:
            has_dtype = True
        self.creations.append((e, short, has_dtype))

    def leaf_of(self, v: Any) -> Any:
        if isinstance(v, (Lin, Par, Zero, NonLin, Unknown, Op)):
            return v
        if isinstance(v, Struct):
            return Py('structure leaf')
        if isinstance(v, TreeOf):
            return v.elem
        if isinstance(v, (Tup, UList)):
            return self.leaf_of(self.iter_elem(v, None))  # type: ignore[arg-type]
        if isinstance(v, StarArg):
            return self.leaf_of(v.elem)
        if isinstance(v, Obj):
            return Op()
        return v

    def reduce(self, f: Any, seq: Any, init: Any, e: ast.AST) -> Any:
        elem = self.iter_elem(seq, e)
        acc = init if init is not None else elem  # without initializer a one-element input returns the raw element
        for _ in range(6):
            res = self.call_value(f, [acc, elem], {}, e)
            nxt = join(acc, res)
            if nxt == acc:
                break
            acc = nxt
        return acc


@dataclass(frozen=True)
class ExternFn(V):
    name: str


@dataclass(eq=False)
class ClassVal(V):
    cls: ClassInfo


@dataclass(eq=False)
class MethodOf(V):
    base: Any
    name: str


@dataclass(eq=False)
class StarArg(V):
    elem: Any


BUILTINS = {
    'isinstance', 'len', 'int', 'float', 'bool', 'range', 'complex', 'reversed', 'list', 'tuple', 'sorted', 'set', 'iter', 'enumerate', 'zip', 'sum',
    'min', 'max', 'abs', 'all', 'any', 'prod', 'round', 'divmod', 'pow', 'getattr', 'hasattr', 'type', 'str', 'repr', 'print', 'id', 'callable',
    'super', 'slice', 'dict', 'frozenset', 'issubclass', 'map', 'filter', 'next',
}

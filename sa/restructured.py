"""Which functions of the analysed tree are written with names the structural rules have never seen.

The rule tables describe the code in terms of the functions, methods, classes and attributes of the reference tree
(`known_names.json`).  A function whose body - before normalisation - calls a new helper, reads a new attribute, builds a
new private record or is itself new has been *restructured*: a structural rule that does not find its schema there cannot
tell a defect from a rewrite, so its refutation is reported as UNDECIDED instead of as a violation (`report.Checker`).  The
rules that decide by evaluating the code (E10) are not affected, and neither are rules on functions that still use only known
names - which is what small edits, the usual form of a defect, look like.
"""

from __future__ import annotations

import ast

from .loader import World, qualname
from .normalise import load_known

_BUILTIN_ATTRS = {
    'shape', 'ndim', 'dtype', 'size', 'T', 'real', 'imag', 'at', 'append', 'extend', 'items', 'keys', 'values', 'get', 'copy', 'pop', 'index', 'count',
    'reshape', 'ravel', 'astype', 'transpose', 'sum', 'add', 'set', 'replace', 'split', 'join', 'format', 'startswith', 'endswith', 'update',
}


def restructured_functions(raw: World) -> dict[str, str]:
    known = load_known()
    known_fn_names = {q.rsplit('.', 1)[-1] for q in known['functions']}
    known_attrs = known['attributes'] | known_fn_names
    # names defined by the package today (functions, methods, classes, attributes): only those can be "new in-package names"
    today_fn: set[str] = set()
    today_attr: set[str] = set()
    today_cls: dict[str, str] = {}
    for module in raw.modules.values():
        for node in ast.walk(module.tree):
            if isinstance(node, (ast.FunctionDef, ast.AsyncFunctionDef)):
                if isinstance(getattr(node, '_parent', None), (ast.Module, ast.ClassDef)):
                    today_fn.add(node.name)
            elif isinstance(node, ast.ClassDef):
                today_cls[node.name] = f'{module.name}.{node.name}'
            elif isinstance(node, ast.Attribute) and isinstance(node.ctx, ast.Store):
                today_attr.add(node.attr)
            elif isinstance(node, (ast.Assign, ast.AnnAssign)) and isinstance(getattr(node, '_parent', None), (ast.Module, ast.ClassDef)):
                for t in (node.targets if isinstance(node, ast.Assign) else [node.target]):
                    if isinstance(t, ast.Name):
                        today_attr.add(t.id)
    new_names = ((today_fn | today_attr) - known_attrs) - _BUILTIN_ATTRS
    new_classes = {n for n, q in today_cls.items() if q not in known['classes']}
    out: dict[str, str] = {}
    for module in raw.modules.values():
        for node in ast.walk(module.tree):
            if not isinstance(node, (ast.FunctionDef, ast.AsyncFunctionDef)):
                continue
            par = getattr(node, '_parent', None)
            if not isinstance(par, (ast.Module, ast.ClassDef)):
                continue  # nested functions belong to their enclosing function
            q = qualname(node)
            if q not in known['functions']:
                out[q] = 'a new function'
                if isinstance(par, ast.ClassDef):
                    out.setdefault(f'{module.name}.{par.name}', f'has a new method {node.name}')
                continue
            for n in ast.walk(node):
                if isinstance(n, ast.Attribute) and n.attr in new_names:
                    out[q] = f'uses the new name {n.attr}'
                    break
                if isinstance(n, ast.Name) and isinstance(n.ctx, ast.Load) and (n.id in new_names or n.id in new_classes) and n.id not in {a.arg for a in ast.walk(node) if isinstance(a, ast.arg)}:
                    out[q] = f'uses the new name {n.id}'
                    break
    # a class is restructured when one of its own methods is
    for q, why in list(out.items()):
        head = q.rsplit('.', 1)[0]
        if head in {f'{m.name}.{c.name}' for m in raw.modules.values() for c in m.tree.body if isinstance(c, ast.ClassDef)}:
            out.setdefault(head, f'its method {q.rsplit(".", 1)[1]} {why}')
    return out

"""E6 - exact linear-form interpretation of straight-line arithmetic code.

A small symbolic interpreter for the Python subset used by the polarimetry operators, the
rotation rules, the factory methods and ``get_rotation_matrix``.  It evaluates source code
over symbolic values: Stokes records whose components are input symbols, operator objects
whose ``angles`` are angle symbols, and exact polynomials (see poly.py).  Branches are only
taken on conditions it can decide (``isinstance`` on a record or an operator object,
``is None`` on a known value); anything else is ``Incomplete``.  No furax code is executed.
"""

from __future__ import annotations

import ast
from dataclasses import dataclass, field
from fractions import Fraction
from typing import Any

from .classes import ClassInfo, ClassTable, Resolved
from .loader import Incomplete, World, module_of, site
from .poly import Matrix, NotPolynomial, Poly, poly_cos, poly_sin

STOKES_BASE = 'furax.landscapes.StokesPyTree'


# ------------------------------------------------------------------------ values
@dataclass
class Rec:
    """A Stokes container: class + component values in field order."""

    cls: ClassInfo
    comps: dict[str, Any]


@dataclass
class SymObj:
    cls: ClassInfo
    attrs: dict[str, Any] = field(default_factory=dict)
    label: str = ''


@dataclass
class Chain:
    """A product of operator objects, leftmost first (as in CompositionOperator.operands)."""

    ops: list[Any]


@dataclass
class Opaque:
    what: str


@dataclass
class ClassRef:
    cls: ClassInfo


@dataclass
class FuncRef:
    node: ast.AST
    self_obj: Any = None
    cls: ClassInfo | None = None  # for classmethods: the class bound to ``cls``


@dataclass
class PolyMethod:
    value: Any
    name: str


@dataclass
class StrMethod:
    value: str
    name: str


@dataclass
class External:
    name: str


class InterpRaise(Exception):
    def __init__(self, name: str, node: ast.AST):
        super().__init__(name)
        self.name = name
        self.node = node


class _Return(Exception):
    def __init__(self, value: Any):
        self.value = value


# in-package helpers interpreted by their contract rather than their body
SUMMARISED = {'furax.tree.as_promoted_dtype'}


class Interp:
    def __init__(self, world: World, table: ClassTable):
        self.world = world
        self.table = table
        self.depth = 0
        # sites where several components were passed through a helper that promotes all leaves to one dtype
        self.promotions: list[str] = []
        # sites where a parameter-derived coefficient (cos/sin of the angles, ...) is converted to the dtype of the data
        self.coefficient_casts: list[str] = []

    # -------------------------------------------------------------- helpers
    def stokes_classes(self) -> list[ClassInfo]:
        return [c for c in self.table.subclasses(STOKES_BASE, strict=True)]

    def stokes_letters(self, cls: ClassInfo) -> str:
        value, owner = self.table.class_attr(cls, 'stokes')
        if not (isinstance(value, ast.Constant) and isinstance(value.value, str)):
            raise Incomplete(site(cls.node), f'{cls.name}.stokes is not a string literal')
        return value.value

    def input_record(self, cls: ClassInfo, prefix: str = 'x') -> Rec:
        comps = {f.name: Poly.atom(('in', f.name)) for f in self.table.fields(cls)}
        return Rec(cls, comps)

    def new_object(self, cls: ClassInfo, **attrs: Any) -> SymObj:
        return SymObj(cls, dict(attrs))

    # -------------------------------------------------------------- calls
    def call_method(self, obj: SymObj, name: str, args: list[Any], kwargs: dict[str, Any] | None = None) -> Any:
        r = self.table.resolve(obj.cls, name)
        if r is None:
            raise Incomplete(site(obj.cls.node), f'{obj.cls.name}.{name} does not resolve')
        return self.call_resolved(r, obj, args, kwargs or {})

    def call_resolved(self, r: Resolved, obj: Any, args: list[Any], kwargs: dict[str, Any]) -> Any:
        node = r.node
        if isinstance(node, ast.Lambda):
            return self.call_function(node, [obj] + args, kwargs)
        if isinstance(node, ast.FunctionDef):
            return self.call_function(node, [obj] + args, kwargs, owner=r.owner)
        raise Incomplete(site(node), f'{r.name} is not a function')

    def call_function(self, fn: ast.AST, args: list[Any], kwargs: dict[str, Any], owner: ClassInfo | None = None) -> Any:
        self.depth += 1
        if self.depth > 40:
            raise Incomplete(site(fn), 'interpretation too deep')
        try:
            env = self._bind(fn, args, kwargs)
            env['__owner__'] = owner
            if isinstance(fn, ast.Lambda):
                return self.eval(fn.body, env)
            try:
                self.exec_block(fn.body, env)  # type: ignore[attr-defined]
            except _Return as ret:
                return ret.value
            return None
        finally:
            self.depth -= 1

    def _bind(self, fn: ast.AST, args: list[Any], kwargs: dict[str, Any]) -> dict[str, Any]:
        a = fn.args  # type: ignore[attr-defined]
        env: dict[str, Any] = {}
        params = [p.arg for p in a.posonlyargs + a.args]
        defaults = [None] * (len(params) - len(a.defaults)) + list(a.defaults)
        if len(args) > len(params) and a.vararg is None:
            raise Incomplete(site(fn), 'too many positional arguments')
        for i, p in enumerate(params):
            if i < len(args):
                env[p] = args[i]
            elif p in kwargs:
                env[p] = kwargs[p]
            elif defaults[i] is not None:
                env[p] = self.eval(defaults[i], {})
            else:
                raise Incomplete(site(fn), f'missing argument {p}')
        if a.vararg is not None:
            env[a.vararg.arg] = list(args[len(params):])
        for p, d in zip(a.kwonlyargs, a.kw_defaults):
            if p.arg in kwargs:
                env[p.arg] = kwargs[p.arg]
            elif d is not None:
                env[p.arg] = self.eval(d, {})
            else:
                raise Incomplete(site(fn), f'missing keyword argument {p.arg}')
        if a.kwarg is not None:
            env[a.kwarg.arg] = {k: v for k, v in kwargs.items() if k not in env}
        return env

    def construct(self, cls: ClassInfo, args: list[Any], kwargs: dict[str, Any], node: ast.AST) -> Any:
        if self.table.is_subclass(cls, STOKES_BASE):
            fields = self.table.fields(cls)
            if len(args) != len(fields) or kwargs:
                raise Incomplete(site(node), f'{cls.name} built with {len(args)} components, it has {len(fields)} fields')
            return Rec(cls, {f.name: v for f, v in zip(fields, args)})
        obj = SymObj(cls, {})
        init = self.table.resolve(cls, '__init__')
        if init is not None and isinstance(init.node, ast.FunctionDef):
            self.call_function(init.node, [obj] + args, kwargs, owner=init.owner)
            return obj
        fields = self.table.fields(cls)
        names = [f.name for f in fields]
        if len(args) > len(names):
            raise Incomplete(site(node), f'too many arguments for {cls.name}')
        for n, v in zip(names, args):
            obj.attrs[n] = v
        for k, v in kwargs.items():
            obj.attrs[k] = v
        return obj

    # -------------------------------------------------------------- statements
    def exec_block(self, stmts: list[ast.stmt], env: dict[str, Any]) -> None:
        for st in stmts:
            self.exec(st, env)

    def exec(self, st: ast.stmt, env: dict[str, Any]) -> None:
        if isinstance(st, ast.Expr):
            if isinstance(st.value, ast.Constant):
                return
            self.eval(st.value, env)
            return
        if isinstance(st, ast.Return):
            raise _Return(self.eval(st.value, env) if st.value is not None else None)
        if isinstance(st, ast.Assign):
            v = self.eval(st.value, env)
            for t in st.targets:
                self.assign(t, v, env)
            return
        if isinstance(st, ast.AnnAssign):
            if st.value is not None:
                self.assign(st.target, self.eval(st.value, env), env)
            return
        if isinstance(st, ast.AugAssign):
            cur = self.eval(st.target, env)
            val = self.eval(st.value, env)
            fake = ast.BinOp(left=st.target, op=st.op, right=st.value)
            ast.copy_location(fake, st)
            fake._module = st._module  # type: ignore[attr-defined]
            self.assign(st.target, self.binop(fake, cur, val), env)
            return
        if isinstance(st, ast.If):
            c = self.truth(self.eval(st.test, env), st.test)
            self.exec_block(st.body if c else st.orelse, env)
            return
        if isinstance(st, ast.Raise):
            name = '?'
            exc = st.exc.func if isinstance(st.exc, ast.Call) else st.exc
            if isinstance(exc, ast.Name):
                name = exc.id
            elif isinstance(exc, ast.Attribute):
                name = exc.attr
            raise InterpRaise(name, st)
        if isinstance(st, ast.Assert):
            v = self.eval(st.test, env)
            if v is False:
                raise InterpRaise('AssertionError', st)
            return
        if isinstance(st, ast.Pass):
            return
        if isinstance(st, (ast.Import, ast.ImportFrom)):
            return
        raise Incomplete(site(st), f'statement outside the linear-form language: {type(st).__name__}')

    def assign(self, target: ast.AST, value: Any, env: dict[str, Any]) -> None:
        if isinstance(target, ast.Name):
            env[target.id] = value
        elif isinstance(target, (ast.Tuple, ast.List)):
            stars = [i for i, t in enumerate(target.elts) if isinstance(t, ast.Starred)]
            if isinstance(value, (list, tuple)) and len(stars) == 1 and len(value) >= len(target.elts) - 1:
                i = stars[0]
                after = len(target.elts) - i - 1
                vals = list(value)
                parts = vals[:i] + [vals[i:len(vals) - after]] + vals[len(vals) - after:]
                for t, v in zip(target.elts, parts):
                    self.assign(t.value if isinstance(t, ast.Starred) else t, v, env)
                return
            if not isinstance(value, (list, tuple)) or len(value) != len(target.elts):
                raise Incomplete(site(target), 'tuple unpacking of a non-sequence')
            for t, v in zip(target.elts, value):
                self.assign(t, v, env)
        elif isinstance(target, ast.Attribute):
            obj = self.eval(target.value, env)
            if not isinstance(obj, SymObj):
                raise Incomplete(site(target), 'attribute assignment on a non-object')
            obj.attrs[target.attr] = value
        else:
            raise Incomplete(site(target), 'unsupported assignment target')

    def truth(self, v: Any, node: ast.AST) -> bool:
        if isinstance(v, bool):
            return v
        if v is None:
            return False
        if isinstance(v, (SymObj, Rec, Chain)):
            return True
        if isinstance(v, (list, tuple, dict, str)):
            return len(v) > 0
        raise Incomplete(site(node), f'branch condition not decidable statically: {ast.unparse(node)[:60]}')

    # -------------------------------------------------------------- expressions
    def eval(self, e: ast.AST, env: dict[str, Any]) -> Any:
        if isinstance(e, ast.Constant):
            v = e.value
            if isinstance(v, bool) or v is None or isinstance(v, str):
                return v
            if isinstance(v, int):
                return Poly.const(v)
            if isinstance(v, float):
                return Poly.const(Fraction(str(v)))
            return Opaque(repr(v))
        if isinstance(e, ast.Name):
            if e.id in env:
                return env[e.id]
            return self.global_name(e, env)
        if isinstance(e, ast.Attribute):
            base = self.eval(e.value, env)
            return self.getattr(base, e.attr, e)
        if isinstance(e, ast.UnaryOp):
            v = self.eval(e.operand, env)
            if isinstance(e.op, ast.USub):
                if isinstance(v, Poly):
                    return -v
                raise Incomplete(site(e), 'negation of a non-polynomial')
            if isinstance(e.op, ast.UAdd):
                return v
            if isinstance(e.op, ast.Not):
                return not self.truth(v, e)
        if isinstance(e, ast.BinOp):
            l, r = self.eval(e.left, env), self.eval(e.right, env)
            return self.binop(e, l, r)
        if isinstance(e, (ast.List, ast.Tuple)):
            out = []
            for x in e.elts:
                if isinstance(x, ast.Starred):
                    v = self.eval(x.value, env)
                    if not isinstance(v, (list, tuple)):
                        raise Incomplete(site(e), 'starred non-sequence')
                    out.extend(v)
                else:
                    out.append(self.eval(x, env))
            return out if isinstance(e, ast.List) else tuple(out)
        if isinstance(e, ast.Call):
            return self.call(e, env)
        if isinstance(e, ast.Compare) and len(e.ops) == 1:
            l, r = self.eval(e.left, env), self.eval(e.comparators[0], env)
            op = e.ops[0]
            if isinstance(op, (ast.Is, ast.IsNot)):
                if l is None or r is None:
                    same = l is None and r is None
                    if (l is None) != (r is None) and isinstance(l if r is None else r, Opaque):
                        raise Incomplete(site(e), 'identity test on an unknown value')
                    return same if isinstance(op, ast.Is) else not same
                return (l is r) if isinstance(op, ast.Is) else (l is not r)
            if isinstance(op, (ast.In, ast.NotIn)) and isinstance(l, str) and isinstance(r, (tuple, list)) and all(isinstance(x, str) for x in r):
                return (l in r) if isinstance(op, ast.In) else (l not in r)
            if isinstance(op, (ast.In, ast.NotIn)) and isinstance(l, str) and isinstance(r, str):
                return (l in r) if isinstance(op, ast.In) else (l not in r)
            if isinstance(op, (ast.Eq, ast.NotEq)):
                if isinstance(l, str) and isinstance(r, str):
                    return (l == r) if isinstance(op, ast.Eq) else (l != r)
                if isinstance(l, Poly) and isinstance(r, Poly) and l.is_const() and r.is_const():
                    return (l.const_value() == r.const_value()) == isinstance(op, ast.Eq)
            raise Incomplete(site(e), f'comparison not decidable statically: {ast.unparse(e)[:60]}')
        if isinstance(e, ast.BoolOp):
            vals = [self.truth(self.eval(v, env), v) for v in e.values]
            return all(vals) if isinstance(e.op, ast.And) else any(vals)
        if isinstance(e, ast.IfExp):
            return self.eval(e.body if self.truth(self.eval(e.test, env), e.test) else e.orelse, env)
        if isinstance(e, ast.Subscript):
            base = self.eval(e.value, env)
            idx = self.eval(e.slice, env)
            if isinstance(base, (list, tuple)) and isinstance(idx, Poly) and idx.is_const():
                return base[int(idx.const_value())]
            if isinstance(base, dict) and isinstance(idx, str):
                if idx not in base:
                    raise InterpRaise('KeyError', e)
                return base[idx]
            if isinstance(base, External) and base.name in ('typing.Literal', 'typing_extensions.Literal'):
                return tuple(idx) if isinstance(idx, (tuple, list)) else (idx,)
            return Opaque(f'subscript {ast.unparse(e)[:40]}')
        if isinstance(e, ast.Lambda):
            return FuncRef(e)
        if isinstance(e, (ast.GeneratorExp, ast.ListComp)):
            return self._comprehension(e, 0, env)
        if isinstance(e, ast.DictComp):
            # {k: v for ...}: evaluated as the list of (k, v) pairs
            pairs = self._comprehension(ast.copy_location(ast.ListComp(elt=ast.Tuple(elts=[e.key, e.value], ctx=ast.Load()), generators=e.generators), e), 0, env)
            out_c = {}
            for kv in pairs:
                if not isinstance(kv[0], str):
                    raise Incomplete(site(e), 'dict comprehension with a non-string key')
                out_c[kv[0]] = kv[1]
            return out_c
        if isinstance(e, ast.Dict):
            out_d = {}
            for k, v in zip(e.keys, e.values):
                if k is None:
                    raise Incomplete(site(e), 'dict unpacking')
                kv = self.eval(k, env)
                if not isinstance(kv, str):
                    raise Incomplete(site(e), 'dict literal with a non-string key')
                out_d[kv] = self.eval(v, env)
            return out_d
        if isinstance(e, ast.JoinedStr):
            return Opaque('f-string')
        return Opaque(ast.unparse(e)[:60])

    def _comprehension(self, e: ast.AST, level: int, env: dict[str, Any]) -> list[Any]:
        gens = e.generators  # type: ignore[attr-defined]
        if level == len(gens):
            return [self.eval(e.elt, env)]  # type: ignore[attr-defined]
        g = gens[level]
        seq = self.eval(g.iter, env)
        if isinstance(seq, dict):
            seq = list(seq)
        if not isinstance(seq, (list, tuple, str)):
            raise Incomplete(site(e), 'comprehension over a value that is not a concrete sequence')
        out: list[Any] = []
        for item in seq:
            inner = dict(env)
            self.assign(g.target, item, inner)
            if all(self.truth(self.eval(c, inner), c) for c in g.ifs):
                out.extend(self._comprehension(e, level + 1, inner))
        return out

    def global_name(self, e: ast.Name, env: dict[str, Any]) -> Any:
        module = module_of(e)
        q = self.world.qualify(module, e.id)
        if q:
            cls = self.table.find(q)
            if cls is not None:
                return ClassRef(cls)
            node = self.world.lookup(q)
            if q in SUMMARISED:
                return External(q)
            if isinstance(node, ast.FunctionDef):
                return FuncRef(node)
            if isinstance(node, ast.Assign) or (isinstance(node, ast.AnnAssign) and node.value is not None):
                return self.eval(node.value, {})
            if q != e.id or e.id in module.imports:
                return External(q)
        if e.id in ('isinstance', 'len', 'super', 'type', 'tuple', 'list', 'float', 'int', 'sorted', 'str', 'getattr', 'sum'):
            return External(e.id)
        if e.id == 'NotImplemented':
            return Opaque('NotImplemented')
        raise Incomplete(site(e), f'unbound name {e.id}')

    def getattr(self, base: Any, attr: str, node: ast.AST) -> Any:
        if isinstance(base, Rec):
            if attr in base.comps:
                return base.comps[attr]
            if attr in ('shape', 'dtype', 'structure'):
                return Opaque(f'record.{attr}')
            value, _owner = self.table.class_attr(base.cls, attr)
            if isinstance(value, ast.Constant) and isinstance(value.value, str):
                return value.value
            raise Incomplete(site(node), f'{base.cls.name} has no component {attr}')
        if isinstance(base, SymObj):
            if attr in base.attrs:
                return base.attrs[attr]
            r = self.table.resolve(base.cls, attr)
            if r is not None:
                if r.is_property and isinstance(r.node, ast.FunctionDef):
                    return self.call_function(r.node, [base], {}, owner=r.owner)
                if isinstance(r.node, (ast.FunctionDef, ast.Lambda)):
                    return FuncRef(r.node, self_obj=base, cls=r.owner)
            return Opaque(f'{base.cls.name}.{attr}')
        if isinstance(base, ClassRef):
            r = self.table.resolve(base.cls, attr)
            if r is not None and isinstance(r.node, ast.FunctionDef):
                decos = [self.world.qualify(module_of(r.node), d) for d in r.node.decorator_list]
                if 'classmethod' in decos:
                    return FuncRef(r.node, self_obj=base, cls=base.cls)
                if 'staticmethod' in decos:
                    return FuncRef(r.node)
                return FuncRef(r.node)
            if r is not None and isinstance(r.node, (ast.Assign, ast.AnnAssign)) and r.node.value is not None:
                return self.eval(r.node.value, {})
            return Opaque(f'{base.cls.name}.{attr}')
        if isinstance(base, External):
            return External(f'{base.name}.{attr}')
        if isinstance(base, Opaque):
            return Opaque(f'{base.what}.{attr}')
        if isinstance(base, str) and attr in ('lower', 'upper', 'join'):
            return StrMethod(base, attr)
        if isinstance(base, Poly):
            if attr == 'dtype':
                atoms = base.atoms()
                data = bool(atoms) and all(isinstance(a, tuple) and a and a[0] == 'in' for a in atoms)
                return Opaque('data.dtype' if data else 'array.dtype')
            if attr in ('shape', 'ndim', 'size'):
                return Opaque(f'array.{attr}')
            if attr == 'astype':
                return PolyMethod(base, 'astype')
        raise Incomplete(site(node), f'attribute {attr} of {type(base).__name__}')

    def binop(self, e: ast.BinOp, l: Any, r: Any) -> Any:
        op = e.op
        if isinstance(op, ast.MatMult):
            return Chain(self._ops(l, e) + self._ops(r, e))
        if isinstance(op, ast.Mult):
            for x, y in ((l, r), (r, l)):
                if isinstance(x, Poly) and x.is_const() and x.const_value().denominator == 1 and isinstance(y, list):
                    return y * int(x.const_value())
        if isinstance(l, Poly) and isinstance(r, Poly):
            if isinstance(op, ast.Add):
                return l + r
            if isinstance(op, ast.Sub):
                return l - r
            if isinstance(op, ast.Mult):
                return l * r
            if isinstance(op, ast.Div):
                if r.is_const() and r.const_value() != 0:
                    return l.scale(1 / r.const_value())
                raise Incomplete(site(e), 'division by a non-constant')
            if isinstance(op, ast.Pow) and r.is_const() and r.const_value().denominator == 1 and r.const_value() >= 0:
                return l ** int(r.const_value())
        raise Incomplete(site(e), f'arithmetic on {type(l).__name__} and {type(r).__name__}: {ast.unparse(e)[:60]}')

    def _ops(self, v: Any, node: ast.AST) -> list[Any]:
        if isinstance(v, Chain):
            return list(v.ops)
        if isinstance(v, SymObj):
            return [v]
        raise Incomplete(site(node), f'@ applied to {type(v).__name__}')

    def call(self, e: ast.Call, env: dict[str, Any]) -> Any:
        # super().method(...)
        f = e.func
        if (
            isinstance(f, ast.Attribute)
            and isinstance(f.value, ast.Call)
            and isinstance(f.value.func, ast.Name)
            and f.value.func.id == 'super'
        ):
            owner: ClassInfo | None = env.get('__owner__')
            self_obj = next((v for k, v in env.items() if isinstance(v, (SymObj, ClassRef)) and k in ('self', 'cls')), None)
            if owner is None or self_obj is None:
                raise Incomplete(site(e), 'super() outside a method')
            cls = self_obj.cls
            mro = cls.mro
            idx = mro.index(owner)
            for k in mro[idx + 1:]:
                if f.attr in k.patched or f.attr in k.own:
                    r = self.table.resolve(k, f.attr)
                    args, kwargs = self._args(e, env)
                    assert r is not None
                    return self.call_resolved(r, self_obj, args, kwargs)
            if f.attr == '__init__':
                return None
            raise Incomplete(site(e), f'super().{f.attr} does not resolve')
        fv = self.eval(f, env)
        if isinstance(fv, External) and fv.name in ('typing.cast', 'typing_extensions.cast') and len(e.args) == 2:
            return self.eval(e.args[1], env)
        args, kwargs = self._args(e, env)
        if isinstance(fv, ClassRef):
            return self.construct(fv.cls, args, kwargs, e)
        if isinstance(fv, FuncRef):
            pre = [fv.self_obj] if fv.self_obj is not None else []
            return self.call_function(fv.node, pre + args, kwargs, owner=fv.cls)
        if isinstance(fv, PolyMethod) and fv.name == 'astype' and len(args) + len(kwargs) == 1:
            return self._astype(fv.value, (args + list(kwargs.values()))[0], e)
        if isinstance(fv, StrMethod):
            if fv.name in ('lower', 'upper') and not args:
                return getattr(fv.value, fv.name)()
            if fv.name == 'join' and len(args) == 1 and isinstance(args[0], (list, tuple)) and all(isinstance(x, str) for x in args[0]):
                return fv.value.join(args[0])
            raise Incomplete(site(e), f'str.{fv.name} on these arguments')
        if isinstance(fv, External):
            return self.external(fv.name, args, kwargs, e, env)
        if isinstance(fv, SymObj):
            # operator application is not interpreted here
            return Opaque(f'{fv.cls.name}(...)')
        if isinstance(fv, Opaque):
            return Opaque(f'{fv.what}(...)')
        raise Incomplete(site(e), f'call of {type(fv).__name__}')

    def _astype(self, value: Any, dtype: Any, e: ast.AST) -> Any:
        """Conversions are the identity on exact values; converting a parameter-derived coefficient to the dtype of the
        data is recorded (it truncates for integer data)."""
        if isinstance(value, Poly) and isinstance(dtype, Opaque) and dtype.what == 'data.dtype':
            atoms = value.atoms()
            if any(not (isinstance(a, tuple) and a and a[0] == 'in') for a in atoms):
                self.coefficient_casts.append(site(e))
        return value

    def _args(self, e: ast.Call, env: dict[str, Any]) -> tuple[list[Any], dict[str, Any]]:
        args: list[Any] = []
        for a in e.args:
            if isinstance(a, ast.Starred):
                v = self.eval(a.value, env)
                if not isinstance(v, (list, tuple)):
                    raise Incomplete(site(e), 'starred non-sequence argument')
                args.extend(v)
            else:
                args.append(self.eval(a, env))
        kwargs = {}
        for kw in e.keywords:
            if kw.arg is None:
                v = self.eval(kw.value, env)
                if isinstance(v, dict):
                    kwargs.update(v)
                else:
                    raise Incomplete(site(e), '** of a non-dict')
            else:
                kwargs[kw.arg] = self.eval(kw.value, env)
        return args, kwargs

    def external(self, name: str, args: list[Any], kwargs: dict[str, Any], e: ast.Call, env: dict[str, Any]) -> Any:
        if name == 'isinstance':
            obj, k = args
            classes = k if isinstance(k, (list, tuple)) else [k]
            if not all(isinstance(c, ClassRef) for c in classes):
                raise Incomplete(site(e), 'isinstance against a non in-package class')
            if isinstance(obj, (Rec, SymObj)):
                return any(self.table.is_subclass(obj.cls, c.cls) for c in classes)
            if isinstance(obj, Chain):
                return any(c.cls.name == 'CompositionOperator' for c in classes)
            raise Incomplete(site(e), f'isinstance on {type(obj).__name__}')
        if name in ('jax.numpy.cos', 'jax.numpy.sin', 'numpy.cos', 'numpy.sin', 'math.cos', 'math.sin'):
            (a,) = args
            if not isinstance(a, Poly):
                raise Incomplete(site(e), 'trigonometric function of a non-polynomial')
            try:
                return poly_cos(a) if name.endswith('cos') else poly_sin(a)
            except NotPolynomial as exc:
                raise Incomplete(site(e), str(exc)) from exc
        if name in ('jax.numpy.array', 'jax.numpy.asarray', 'numpy.array', 'numpy.asarray', 'jax.numpy.stack'):
            if 'dtype' in kwargs or (len(args) > 1 and name.endswith('array')):
                return self._astype(args[0], kwargs.get('dtype', args[1] if len(args) > 1 else None), e)
            return args[0]
        if name in ('jax.numpy.astype', 'jax.lax.convert_element_type') and len(args) == 2:
            return self._astype(args[0], args[1], e)
        if name == 'getattr' and len(args) >= 2 and isinstance(args[1], str):
            try:
                return self.getattr(args[0], args[1], e)
            except Incomplete:
                if len(args) == 3:
                    return args[2]
                raise
        if name == 'sorted' and len(args) == 1 and not kwargs and isinstance(args[0], (list, tuple, dict, str)) and all(isinstance(x, str) for x in args[0]):
            return sorted(args[0])
        if name in ('furax.tree.as_promoted_dtype', 'furax.as_promoted_dtype'):
            leaves = list(args[0]) if isinstance(args[0], (list, tuple)) else [args[0]]
            if len(leaves) > 1:
                self.promotions.append(site(e))
            return args[0]
        if name == 'sum' and args and isinstance(args[0], (list, tuple)) and all(isinstance(x, Poly) for x in args[0]) and len(args) <= 2 and not kwargs:
            total = args[1] if len(args) == 2 else Poly.const(0)
            if not isinstance(total, Poly):
                raise Incomplete(site(e), 'sum() with a non-numeric start value')
            for x in args[0]:
                total = total + x
            return total
        if name in ('numpy.sum', 'jax.numpy.sum') and args and isinstance(args[0], (list, tuple)) and len(args[0]) > 1 and all(isinstance(x, Poly) for x in args[0]) and 'axis' not in kwargs and len(args) == 1:
            # the list is stacked and *every element* is summed: for arrays of angles the result is one number (the grand total), and
            # operands of different shapes cannot even be stacked - this is a + b only for scalars
            raise NonLinear(f'{name}([...]) of {len(args[0])} parameter arrays without an axis collapses them to a single number (the element-wise sum is sum([...]) or a + b)')
        if name == 'len' and isinstance(args[0], (list, tuple, str, dict)):
            return Poly.const(len(args[0]))
        if name in ('typing.get_args', 'typing_extensions.get_args') and isinstance(args[0], tuple):
            return args[0]
        if name in ('tuple', 'list') and args and isinstance(args[0], (list, tuple)):
            return list(args[0]) if name == 'list' else tuple(args[0])
        if name == 'typing.cast' and len(args) == 2:
            return args[1]
        if name in ('dataclasses.replace', 'equinox.tree_at') and name == 'dataclasses.replace' and len(args) == 1 and isinstance(args[0], Rec) and all(k in args[0].comps for k in kwargs):
            comps = dict(args[0].comps)
            comps.update(kwargs)
            return Rec(args[0].cls, comps)
        if name in ('jax.tree.leaves', 'jax.tree_util.tree_leaves') and len(args) == 1 and isinstance(args[0], Rec) and not kwargs:
            return list(args[0].comps.values())
        if name in ('jax.tree.leaves', 'jax.tree_util.tree_leaves') and len(args) == 1 and isinstance(args[0], (list, tuple)) and not kwargs and all(isinstance(x, Poly) for x in args[0]):
            return list(args[0])
        if name == 'type' and len(args) == 1 and isinstance(args[0], (Rec, SymObj)):
            return ClassRef(args[0].cls)
        if name in ('jax.numpy.zeros_like', 'numpy.zeros_like') and args and isinstance(args[0], Poly):
            return Poly()
        if name in ('jax.numpy.ones_like', 'numpy.ones_like') and args and isinstance(args[0], Poly):
            return Poly.const(1)
        if name in ('jax.numpy.einsum', 'numpy.einsum') and args and isinstance(args[0], str) and not kwargs:
            out = _symbolic_einsum(args[0], args[1:])
            if out is not None:
                return out
        return Opaque(f'{name}(...)')


def _symbolic_einsum(subscripts: str, operands: list) -> Any:
    """einsum over small tensors given as nested lists of polynomials (explicit mode; an ellipsis stands for the sample axes
    every entry is implicitly broadcast over, so it is dropped)."""
    import itertools

    spec = subscripts.replace(' ', '').replace('...', '')
    if '->' not in spec:
        return None
    ins, out = spec.split('->')
    ins = ins.split(',')
    if len(ins) != len(operands) or not all(x.isalpha() or x == '' for x in ins + [out]):
        return None

    def depth_of(t):
        d = 0
        while isinstance(t, (list, tuple)) and t:
            d += 1
            t = t[0]
        return d if isinstance(t, Poly) else None

    # trailing letters beyond the nesting of the operands name the sample axes the polynomial entries are implicitly
    # broadcast over: they must be the same in every operand and close the output
    depths = [depth_of(op) for op in operands]
    if any(d is None for d in depths):
        return None
    tails = {sub[d:] for sub, d in zip(ins, depths)}
    if len(tails) != 1:
        return None
    tail = tails.pop()
    if tail:
        if not out.endswith(tail) or any(ch in sub[:d] for sub, d in zip(ins, depths) for ch in tail):
            return None
        ins = [sub[:d] for sub, d in zip(ins, depths)]
        out = out[: len(out) - len(tail)]

    def dims(t, depth):
        shape = []
        while depth:
            if not isinstance(t, (list, tuple)) or not t:
                return None
            shape.append(len(t))
            t = t[0]
            depth -= 1
        return shape

    sizes: dict[str, int] = {}
    for sub, op in zip(ins, operands):
        shp = dims(op, len(sub))
        if shp is None:
            return None
        for ch, n in zip(sub, shp):
            if sizes.setdefault(ch, n) != n:
                return None

    def entry(t, idx):
        for i in idx:
            t = t[i]
        return t if isinstance(t, Poly) else None

    letters = sorted(sizes)
    summed = [ch for ch in letters if ch not in out]
    if len(set(out)) != len(out) or any(ch not in sizes for ch in out):
        return None

    def build(prefix: dict, rest: str):
        if rest:
            return [build({**prefix, rest[0]: i}, rest[1:]) for i in range(sizes[rest[0]])]
        total = Poly()
        for combo in itertools.product(*(range(sizes[ch]) for ch in summed)):
            assign = {**prefix, **dict(zip(summed, combo))}
            term_ = Poly.const(1)
            for sub, op in zip(ins, operands):
                x = entry(op, [assign[ch] for ch in sub])
                if x is None:
                    raise ValueError('non-polynomial entry')
                term_ = term_ * x
            total = total + term_
        return total

    try:
        return build({}, out)
    except ValueError:
        return None


# ------------------------------------------------------------------------ matrices from values
def value_matrix(interp: Interp, value: Any, in_rec: Rec, what: str) -> Matrix:
    """Reads the matrix of a linear map off its symbolic result (rows: output components)."""
    in_atoms = [('in', n) for n in in_rec.comps]
    cols = list(in_rec.comps)
    if isinstance(value, Rec):
        rows = list(value.comps)
        outs = [value.comps[n] for n in rows]
    elif isinstance(value, Poly):
        rows = ['d']
        outs = [value]
    else:
        raise Incomplete(what, f'result is {type(value).__name__}, not a Stokes record or an array expression')
    data = []
    for p in outs:
        if not isinstance(p, Poly):
            raise Incomplete(what, 'a component of the result is not a polynomial')
        pn = p.normal()
        if not pn.linear_in(in_atoms):
            raise NonLinear(f'{what}: result component {pn} is not linear homogeneous in the input components')
        data.append([pn.coefficient(a).normal() for a in in_atoms])
    return Matrix(rows, cols, data)


class NonLinear(Exception):
    pass


class LossyCoefficient(NonLinear):
    """A parameter-derived coefficient is converted to the dtype of the data before it is applied."""

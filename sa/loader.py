"""E1 - loader and name resolver.

Parses every ``*.py`` under ``<root>/src/furax`` (or takes replacement source text for
some of them from ``overrides``: that is how controls and self-test variants are analysed
without touching the disk), records imports and top-level definitions, and resolves
dotted names through import aliases and re-exports to the defining module.
"""

from __future__ import annotations

import ast
import hashlib
import os
from dataclasses import dataclass, field

PKG = 'furax'
SRC_REL = 'src/furax'


class AnalysisError(Exception):
    """The analyser cannot run or an anchor vanished: exit code 2."""


class Incomplete(Exception):
    """A construct outside the analysable language on a path a rule needs: exit code 2."""

    def __init__(self, site: str, why: str):
        super().__init__(f'{site}: {why}')
        self.site = site
        self.why = why


@dataclass
class Module:
    name: str
    relpath: str
    source: str
    tree: ast.Module
    imports: dict[str, str] = field(default_factory=dict)
    defs: dict[str, ast.AST] = field(default_factory=dict)

    @property
    def nlines(self) -> int:
        return self.source.count('\n') + (0 if self.source.endswith('\n') else 1)


def _set_parents(tree: ast.AST, module: Module) -> None:
    for node in ast.walk(tree):
        node._module = module  # type: ignore[attr-defined]
        for child in ast.iter_child_nodes(node):
            child._parent = node  # type: ignore[attr-defined]
    tree._parent = None  # type: ignore[attr-defined]


def parent(node: ast.AST) -> ast.AST | None:
    return getattr(node, '_parent', None)


def module_of(node: ast.AST) -> Module:
    return node._module  # type: ignore[attr-defined,no-any-return]


def enclosing(node: ast.AST, kinds: tuple[type, ...]) -> ast.AST | None:
    cur = parent(node)
    while cur is not None and not isinstance(cur, kinds):
        cur = parent(cur)
    return cur


def qualname(node: ast.AST) -> str:
    """Dotted construct name: module.Class.method (nested defs joined by '.')."""
    parts: list[str] = []
    cur: ast.AST | None = node
    top: ast.AST = node
    while cur is not None:
        if isinstance(cur, (ast.ClassDef, ast.FunctionDef, ast.AsyncFunctionDef)):
            parts.append(cur.name)
        elif isinstance(cur, ast.Lambda):
            parts.append('<lambda>')
        top = cur
        cur = parent(cur)
    # the construct is named after the module it stands in (an inlined statement keeps the module it was written in
    # for name resolution and for file:line, but belongs to the function that contains it)
    return '.'.join([module_of(top).name] + parts[::-1])


def site(node: ast.AST) -> str:
    """file:line of a node (for reports only; never used as a key)."""
    return f'{module_of(node).relpath}:{getattr(node, "lineno", 0)}'


def dotted(expr: ast.AST) -> str | None:
    """'a.b.c' for a Name/Attribute chain, else None."""
    parts: list[str] = []
    while isinstance(expr, ast.Attribute):
        parts.append(expr.attr)
        expr = expr.value
    if isinstance(expr, ast.Name):
        parts.append(expr.id)
        return '.'.join(reversed(parts))
    return None


class World:
    """All modules of the package, parsed."""

    def __init__(self, root: str = '/repo', overrides: dict[str, str] | None = None):
        self.root = root
        self.overrides = dict(overrides or {})
        self.modules: dict[str, Module] = {}
        self._load()

    # ------------------------------------------------------------------ loading
    def _load(self) -> None:
        base = os.path.join(self.root, SRC_REL)
        if not os.path.isdir(base):
            raise AnalysisError(f'{base} is not a directory')
        paths: list[str] = []
        for dirpath, dirnames, filenames in os.walk(base):
            dirnames[:] = sorted(d for d in dirnames if d != '__pycache__')
            for fn in sorted(filenames):
                if fn.endswith('.py'):
                    paths.append(os.path.join(dirpath, fn))
        rels = {os.path.relpath(p, self.root) for p in paths}
        for rel in self.overrides:
            if rel not in rels:
                paths.append(os.path.join(self.root, rel))
        for path in sorted(paths):
            rel = os.path.relpath(path, self.root)
            if rel in self.overrides:
                source = self.overrides[rel]
            else:
                try:
                    with open(path, encoding='utf-8') as f:
                        source = f.read()
                except OSError as exc:
                    raise AnalysisError(f'cannot read {path}: {exc}') from exc
            try:
                tree = ast.parse(source, filename=rel)
            except SyntaxError as exc:
                raise AnalysisError(f'syntax error in {rel}: {exc}') from exc
            sub = os.path.relpath(path, base)[: -len('.py')]
            parts = [PKG] + [p for p in sub.split(os.sep) if p != '.']
            if parts[-1] == '__init__':
                parts.pop()
            name = '.'.join(parts)
            module = Module(name=name, relpath=rel, source=source, tree=tree)
            _set_parents(tree, module)
            self.modules[name] = module
        for module in self.modules.values():
            self._collect(module)

    def _collect(self, module: Module) -> None:
        is_pkg = module.relpath.endswith('__init__.py')
        pkg_parts = module.name.split('.') if is_pkg else module.name.split('.')[:-1]
        for node in ast.walk(module.tree):
            if isinstance(node, ast.Import):
                for alias in node.names:
                    if alias.asname:
                        module.imports[alias.asname] = alias.name
                    else:
                        top = alias.name.split('.')[0]
                        module.imports[top] = top
            elif isinstance(node, ast.ImportFrom):
                if node.level:
                    base_parts = pkg_parts[: len(pkg_parts) - (node.level - 1)]
                    base = '.'.join(base_parts + ([node.module] if node.module else []))
                else:
                    base = node.module or ''
                for alias in node.names:
                    module.imports[alias.asname or alias.name] = f'{base}.{alias.name}'
        for node in module.tree.body:
            if isinstance(node, (ast.ClassDef, ast.FunctionDef, ast.AsyncFunctionDef)):
                module.defs[node.name] = node
            elif isinstance(node, ast.Assign):
                for target in node.targets:
                    if isinstance(target, ast.Name):
                        module.defs[target.id] = node
            elif isinstance(node, ast.AnnAssign) and isinstance(node.target, ast.Name):
                module.defs[node.target.id] = node

    # ------------------------------------------------------------------ resolution
    def canonical(self, qual: str) -> str:
        """Follows import aliases / re-exports of in-package modules."""
        seen = set()
        while qual not in seen:
            seen.add(qual)
            parts = qual.split('.')
            for cut in range(len(parts), 0, -1):
                modname = '.'.join(parts[:cut])
                if modname in self.modules:
                    rest = parts[cut:]
                    if not rest:
                        return qual
                    module = self.modules[modname]
                    if rest[0] in module.defs:
                        return qual
                    if rest[0] in module.imports:
                        qual = '.'.join([module.imports[rest[0]]] + rest[1:])
                    break
            else:
                return qual
        return qual

    def qualify(self, module: Module, expr: ast.AST | str) -> str | None:
        """Fully qualified dotted name of a Name/Attribute chain seen from ``module``."""
        name = expr if isinstance(expr, str) else dotted(expr)
        if name is None:
            return None
        head, *rest = name.split('.')
        if head in module.defs and head not in module.imports:
            return self.canonical('.'.join([module.name, head] + rest))
        if head in module.imports:
            return self.canonical('.'.join([module.imports[head]] + rest))
        return name  # builtin or local

    def lookup(self, qual: str) -> ast.AST | None:
        """The top-level definition node for an in-package qualified name (or None)."""
        qual = self.canonical(qual)
        parts = qual.split('.')
        for cut in range(len(parts) - 1, 0, -1):
            modname = '.'.join(parts[:cut])
            if modname in self.modules:
                node: ast.AST | None = self.modules[modname].defs.get(parts[cut])
                for attr in parts[cut + 1 :]:
                    if not isinstance(node, ast.ClassDef):
                        return None
                    node = class_member(node, attr)
                return node
        return None

    def module(self, name: str) -> Module:
        if name not in self.modules:
            raise AnalysisError(f'anchor vanished: module {name} not found')
        return self.modules[name]

    def require(self, qual: str) -> ast.AST:
        node = self.lookup(qual)
        if node is None:
            raise AnalysisError(f'anchor vanished: {qual} does not resolve to a definition')
        return node

    # ------------------------------------------------------------------ stats
    def stats(self) -> dict[str, int]:
        nfunc = 0
        ncls = 0
        ncall = 0
        for module in self.modules.values():
            for node in ast.walk(module.tree):
                if isinstance(node, (ast.FunctionDef, ast.AsyncFunctionDef, ast.Lambda)):
                    nfunc += 1
                elif isinstance(node, ast.ClassDef):
                    ncls += 1
                elif isinstance(node, ast.Call):
                    ncall += 1
        return {
            'modules': len(self.modules),
            'lines': sum(m.nlines for m in self.modules.values()),
            'classes': ncls,
            'functions': nfunc,
            'call_sites': ncall,
        }

    def digest(self) -> str:
        h = hashlib.sha256()
        for name in sorted(self.modules):
            h.update(name.encode())
            h.update(self.modules[name].source.encode())
        return h.hexdigest()[:16]


def class_member(cls: ast.ClassDef, name: str) -> ast.AST | None:
    """Own member of a class body: def, assignment or annotated field (last one wins)."""
    found: ast.AST | None = None
    for node in cls.body:
        if isinstance(node, (ast.FunctionDef, ast.AsyncFunctionDef, ast.ClassDef)):
            if node.name == name:
                found = node
        elif isinstance(node, ast.Assign):
            for target in node.targets:
                if isinstance(target, ast.Name) and target.id == name:
                    found = node
        elif isinstance(node, ast.AnnAssign):
            if isinstance(node.target, ast.Name) and node.target.id == name:
                found = node
    return found


def string_constants(fn: ast.AST) -> list[str]:
    """String literals used in fn: written in place, or through a module-level name bound once to a string literal."""
    out: list[str] = []
    for n in ast.walk(fn):
        if isinstance(n, ast.Constant) and isinstance(n.value, str):
            out.append(n.value)
        elif isinstance(n, ast.Name) and isinstance(n.ctx, ast.Load):
            module = getattr(n, '_module', None)
            d = module.defs.get(n.id) if module is not None else None
            if isinstance(d, (ast.Assign, ast.AnnAssign)) and isinstance(d.value, ast.Constant) and isinstance(d.value.value, str):
                out.append(d.value.value)
    return out

"""Symbolic length domain for the 1-D Toeplitz kernels (C09.Z10/Z11).

Each kernel is re-interpreted over *exact symbolic lengths*: the value of an array expression is the polynomial
giving its length in the non-negative integer symbols

    l  input length (>= 1)      h  half band width (K - 1 >= 0; kernel.size = 2h + 1)
    s  overlap step (fft_size - 2h >= 1)      q  nblock - 1 (>= 0)

and Python ints are polynomials too.  Every slice, dynamic_slice and dynamic_update_slice produces a *bound
obligation* (start >= 0, stop <= length of the sliced array); an obligation E >= 0 is discharged by a
certificate: E, or E minus a multiple of the ceiling axiom (q+1)*s - (l + 2h) >= 0 (from
``nblock = ceil((l + overlap) / step)``), or E minus (s - 1), has only non-negative coefficients.
``lax.dynamic_slice`` clamps silently when out of bounds, so a violated bound is a silently wrong result.
"""

from __future__ import annotations

import ast
from dataclasses import dataclass, field
from fractions import Fraction
from typing import Any

from .loader import Incomplete, World, module_of, site
from .poly import Poly


def sym(name: str) -> Poly:
    return Poly.atom(('sym', name))


L, H, S, Q, I, P = sym('l'), sym('h'), sym('s'), sym('q'), sym('i'), sym('p')
FFT = S + H.scale(2)  # fft_size = step + overlap
AXIOMS = [
    ((Q + Poly.const(1)) * S - (L + H.scale(2)), '(q+1)*s >= l + 2h  [nblock = ceil((l + 2h)/s)]'),
    (S - Poly.const(1), 's >= 1  [fft_size >= 2K-1 is enforced by the constructor]'),
    (L - Poly.const(1), 'l >= 1'),
    (L + H.scale(2) - Poly.const(1) - Q * S, 'q*s <= l + 2h - 1  [nblock = ceil((l + 2h)/s)]'),
    ((P + Poly.const(1)) * S - L, '(p+1)*s >= l  [p + 1 = ceil(l/s)]'),
    (L - Poly.const(1) - P * S, 'p*s <= l - 1  [p + 1 = ceil(l/s)]'),
]


def nonneg(p: Poly) -> bool:
    return all(c >= 0 for c in p.normal().t.values())


def certificate(e: Poly) -> str | None:
    """Why e >= 0 for all non-negative integer symbols satisfying the axioms (None if no certificate found)."""
    if nonneg(e):
        return 'all coefficients are non-negative'
    for ax, text in AXIOMS:
        for k in (1, 2):
            if nonneg(e - ax.scale(k)):
                return f'minus {k} x [{text}] leaves non-negative coefficients'
    for (a1, t1) in AXIOMS:
        for (a2, t2) in AXIOMS:
            if nonneg(e - a1 - a2):
                return f'minus [{t1}] and [{t2}] leaves non-negative coefficients'
    # products with a non-negative symbol: e - h*(s-1) etc. (needed for terms such as h*s - h)
    for v in (H, Q, L):
        for ax, text in AXIOMS[1:]:
            if nonneg(e - v * ax):
                return f'minus {v} x [{text}] leaves non-negative coefficients'
            for ax2, text2 in AXIOMS:
                if nonneg(e - v * ax - ax2):
                    return f'minus {v} x [{text}] and [{text2}] leaves non-negative coefficients'
    return None


@dataclass
class Arr:
    n: Poly  # length of the last axis
    lead: tuple = ()  # lengths of the leading (batch) axes, outermost first
    written: Any = None  # for a buffer created empty and filled by a block loop: the prefix [0, written) that was computed
    tile: Any = None  # (start, length) of the last dynamic update of the buffer inside a loop body

    @property
    def dims(self) -> tuple:
        return tuple(self.lead) + (self.n,)

    @property
    def total(self) -> Poly:
        out = Poly.const(1)
        for d in self.dims:
            out = out * d
        return out


@dataclass
class Cplx(Arr):
    pass


@dataclass
class Obligation:
    node: ast.AST
    what: str
    expr: Poly  # must be >= 0
    proof: str | None = None


@dataclass
class LenInterp:
    world: World
    cls_node: ast.ClassDef
    obligations: list[Obligation] = field(default_factory=list)
    problems: list[tuple[ast.AST, str]] = field(default_factory=list)
    depth: int = 0
    pending: list = field(default_factory=list)

    # ------------------------------------------------------------------ helpers
    def need(self, node: ast.AST, what: str, expr: Poly) -> None:
        self.obligations.append(Obligation(node, what, expr.normal(), certificate(expr)))

    def ceildiv(self, num: Any, den: Any, node: ast.AST) -> Poly:
        """ceil(num / den) for the two block counts the kernels use: each is a symbol defined by its two axioms."""
        if isinstance(num, Poly) and isinstance(den, Poly) and (den - S).is_zero():
            if (num - L - H.scale(2)).is_zero():
                return Q + Poly.const(1)  # ceil((l + 2h) / s) = q + 1: the definition of the symbol q
            if (num - L).is_zero():
                return P + Poly.const(1)  # ceil(l / s) = p + 1: the definition of the symbol p
        raise Incomplete(site(node), f'ceiling of ({num}) / ({den}) is neither (l + overlap) / step nor l / step')

    def loop_need(self, node: ast.AST, text: str, end: Poly, length: Poly) -> None:
        """A bound on a position that depends on the block index: decided for the last block once the trip count is known."""
        if ('sym', 'i') in {a for mono in end.normal().t for a, _ in mono}:
            self.pending.append((node, text, end, length))
        else:
            self.need(node, text.replace('{top}', str(end.normal())), length - end)

    def method(self, name: str) -> ast.FunctionDef | None:
        for n in self.cls_node.body:
            if isinstance(n, ast.FunctionDef) and n.name == name:
                return n
        return None

    # ------------------------------------------------------------------ kernel entry
    def run_kernel(self, fn: ast.FunctionDef) -> Any:
        params = [a.arg for a in fn.args.args]
        static = any((isinstance(d, ast.Name) and d.id == 'staticmethod') for d in fn.decorator_list)
        if static and len(params) >= 2:
            env: dict[str, Any] = {params[0]: Arr(L), params[1]: Arr(H + Poly.const(1))}
        elif len(params) >= 3:
            env = {params[0]: 'self', params[1]: Arr(L), params[2]: Arr(H + Poly.const(1))}
        else:
            raise Incomplete(site(fn), 'kernel without (x, band_values) parameters')
        return self.call(fn, env)

    def call(self, fn: ast.AST, env: dict[str, Any]) -> Any:
        self.depth += 1
        try:
            if self.depth > 10:
                raise Incomplete(site(fn), 'length interpretation too deep')
            rets: list[Any] = []
            self.block(fn.body, env, rets)  # type: ignore[attr-defined]
            if not rets:
                return None
            first = rets[0]
            for r in rets[1:]:
                if isinstance(first, Arr) and isinstance(r, Arr) and not (first.n - r.n).is_zero():
                    self.problems.append((fn, f'different return paths give different lengths: {first.n} vs {r.n}'))
            return first
        finally:
            self.depth -= 1

    # ------------------------------------------------------------------ statements
    def block(self, stmts: list[ast.stmt], env: dict[str, Any], rets: list[Any]) -> bool:
        for st in stmts:
            if not self.stmt(st, env, rets):
                return False
        return True

    def stmt(self, st: ast.stmt, env: dict[str, Any], rets: list[Any]) -> bool:
        if isinstance(st, ast.Expr):
            return True
        if isinstance(st, ast.Assert):
            return True
        if isinstance(st, ast.Return):
            v = self.ev(st.value, env)
            if isinstance(v, Arr) and env.get('__subst__'):
                v = type(v)(self._subst(v.n, env))
            rets.append(v)
            return False
        if isinstance(st, ast.Assign):
            v = self.ev(st.value, env)
            for t in st.targets:
                if isinstance(t, ast.Name):
                    env[t.id] = v
                elif isinstance(t, (ast.Tuple, ast.List)) and isinstance(v, tuple) and len(v) == len(t.elts) and all(isinstance(x, ast.Name) for x in t.elts):
                    for x, vv in zip(t.elts, v):
                        env[x.id] = vv
                else:
                    raise Incomplete(site(st), 'assignment target outside the length language')
            return True
        if isinstance(st, ast.FunctionDef):
            env[st.name] = ('closure', st, env)
            return True
        if isinstance(st, ast.If):
            t = self.ev(st.test, env)
            if isinstance(t, Poly) and (t - H).is_zero():
                t = ('cmpn0', 'h')  # `if h:`
            if isinstance(t, tuple) and t and t[0] in ('cmp0', 'cmpn0'):
                # `if h == 0: ...` : both branches, the zero one with h := 0, the other knowing h >= 1
                _, name = t
                zero_body, pos_body = (st.body, st.orelse) if t[0] == 'cmp0' else (st.orelse, st.body)
                e1 = dict(env)
                e1['__subst__'] = dict(env.get('__subst__', {}), **{name: Poly()})
                f1 = self.block(zero_body, e1, rets) if zero_body else True
                e2 = dict(env)
                e2['__pos__'] = set(env.get('__pos__', set())) | {name}
                f2 = self.block(pos_body, e2, rets) if pos_body else True
                if f2:
                    env.update({k: v for k, v in e2.items() if k not in ('__subst__',)})
                return f1 or f2
            raise Incomplete(site(st), f'branch outside the length language: {ast.unparse(st.test)[:50]}')
        raise Incomplete(site(st), f'statement outside the length language: {type(st).__name__}')

    # ------------------------------------------------------------------ expressions
    def ev(self, e: ast.AST | None, env: dict[str, Any]) -> Any:
        if e is None:
            return None
        if isinstance(e, ast.Constant):
            if isinstance(e.value, int) and not isinstance(e.value, bool):
                return Poly.const(e.value)
            return ('const', e.value)
        if isinstance(e, ast.Name):
            if e.id in env:
                return env[e.id]
            raise Incomplete(site(e), f'unbound name {e.id}')
        if isinstance(e, ast.Tuple):
            return tuple(self.ev(x, env) for x in e.elts)
        if isinstance(e, ast.UnaryOp) and isinstance(e.op, ast.USub):
            v = self.ev(e.operand, env)
            if isinstance(v, Poly):
                return -v
        if isinstance(e, ast.BinOp):
            a, b = self.ev(e.left, env), self.ev(e.right, env)
            if isinstance(a, Poly) and isinstance(b, Poly):
                if isinstance(e.op, ast.Add):
                    return a + b
                if isinstance(e.op, ast.Sub):
                    return a - b
                if isinstance(e.op, ast.Mult):
                    return a * b
                if isinstance(e.op, ast.Div):
                    return ('ratio', a, b)
                if isinstance(e.op, ast.FloorDiv) and (b - S).is_zero():
                    # ceiling division spelled with floor division: (a + s - 1) // s, and -(-a // s)
                    if nonneg((a - S + Poly.const(1)).normal()) or (a - S + Poly.const(1) - L).is_zero() or (a - S + Poly.const(1) - L - H.scale(2)).is_zero():
                        try:
                            return self.ceildiv((a - S + Poly.const(1)).normal(), b, e)
                        except Incomplete:
                            pass
                    if nonneg((-a).normal()):
                        return -self.ceildiv((-a).normal(), b, e)
                if isinstance(e.op, ast.Mod) and (b - S).is_zero() and nonneg((-a).normal()):
                    # (-a) % s for a >= 0 (Python's modulo is non-negative): what completes a to a whole number of steps, s * ceil(a / s) - a
                    return S * self.ceildiv((-a).normal(), b, e) + a
                if isinstance(e.op, ast.FloorDiv) and (b - Poly.const(2)).is_zero():
                    # only (2h + 1) // 2 = h and 2h // 2 = h are needed
                    if (a - H.scale(2) - Poly.const(1)).is_zero() or (a - H.scale(2)).is_zero():
                        return H
            if isinstance(a, Arr) and isinstance(b, Arr) and isinstance(e.op, (ast.Mult, ast.Add, ast.Sub)):
                if not (a.n - b.n).is_zero():
                    self.problems.append((e, f'element-wise {type(e.op).__name__} of arrays of lengths {a.n} and {b.n}'))
                if a.lead and b.lead and (len(a.lead) != len(b.lead) or any(not (x - y).is_zero() for x, y in zip(a.lead, b.lead))):
                    self.problems.append((e, f'element-wise {type(e.op).__name__} of arrays of shapes {a.dims} and {b.dims}'))
                return type(a)(a.n, a.lead or b.lead)
            if isinstance(a, Arr) and isinstance(b, Arr) and isinstance(e.op, ast.MatMult):
                return Arr(a.n)
            raise Incomplete(site(e), f'arithmetic outside the length language: {ast.unparse(e)[:50]}')
        if isinstance(e, ast.UnaryOp) and isinstance(e.op, ast.Not):
            v = self.ev(e.operand, env)
            if isinstance(v, tuple) and v and v[0] in ('cmp0', 'cmpn0'):
                return ('cmpn0' if v[0] == 'cmp0' else 'cmp0', v[1])
            if isinstance(v, Poly) and (v - H).is_zero():
                return ('cmp0', 'h')  # `not h`
        if isinstance(e, ast.Compare) and len(e.ops) == 1 and isinstance(e.ops[0], (ast.NotEq, ast.Gt)):
            a, b = self.ev(e.left, env), self.ev(e.comparators[0], env)
            if isinstance(a, Poly) and isinstance(b, Poly) and b.is_zero() and (a - H).is_zero():
                return ('cmpn0', 'h')
            if isinstance(e.ops[0], ast.NotEq) and isinstance(a, Poly) and isinstance(b, Poly) and a.is_zero() and (b - H).is_zero():
                return ('cmpn0', 'h')
        if isinstance(e, ast.Compare) and len(e.ops) == 1 and isinstance(e.ops[0], ast.Eq):
            a, b = self.ev(e.left, env), self.ev(e.comparators[0], env)
            if isinstance(a, Poly) and isinstance(b, Poly) and ((b.is_zero() and (a - H).is_zero()) or (a.is_zero() and (b - H).is_zero())):
                return ('cmp0', 'h')
        if isinstance(e, ast.Attribute):
            base = self.ev(e.value, env)
            if base == 'self':
                if e.attr == 'fft_size':
                    return FFT
                return ('selfattr', e.attr)
            if isinstance(base, tuple) and len(base) == 2 and base[0] == 'record' and e.attr in base[1]:
                return base[1][e.attr]
            if isinstance(base, Arr):
                if e.attr == 'size':
                    return base.total
                if e.attr == 'shape':
                    return base.dims
                if e.attr == 'real':
                    return Arr(base.n, base.lead)
                if e.attr == 'dtype':
                    return ('const', 'dtype')
            raise Incomplete(site(e), f'attribute outside the length language: {ast.unparse(e)[:50]}')
        if isinstance(e, ast.Subscript):
            base = self.ev(e.value, env)
            if isinstance(base, tuple) and isinstance(e.slice, ast.UnaryOp | ast.Constant):
                return base[-1] if isinstance(e.slice, ast.UnaryOp) else base[e.slice.value]
            if isinstance(base, Arr) and isinstance(e.slice, ast.Slice) and not base.lead:
                return self.slice(base, e.slice, env, e)
            if isinstance(base, Arr) and (isinstance(e.slice, ast.Slice) or (isinstance(e.slice, ast.Tuple) and all(isinstance(x, ast.Slice) for x in e.slice.elts))):
                # slices apply to the axes in order, outermost first; axes not mentioned are kept
                sls = [e.slice] if isinstance(e.slice, ast.Slice) else list(e.slice.elts)
                dims = list(base.dims)
                if len(sls) > len(dims):
                    raise Incomplete(site(e), 'more slices than axes')
                for k, sl in enumerate(sls):
                    dims[k] = self.slice(Arr(dims[k]), sl, env, e).n
                return type(base)(dims[-1], tuple(dims[:-1]))
            raise Incomplete(site(e), f'subscript outside the length language: {ast.unparse(e)[:50]}')
        if isinstance(e, ast.Call):
            return self.callexpr(e, env)
        raise Incomplete(site(e), f'expression outside the length language: {ast.unparse(e)[:50]}')

    def _subst(self, p: Poly, env: dict[str, Any]) -> Poly:
        m = env.get('__subst__', {})
        if not m:
            return p
        return p.subst({('sym', k): v for k, v in m.items()}).normal()

    def slice(self, base: Arr, sl: ast.Slice, env: dict[str, Any], node: ast.AST) -> Arr:
        n = self._subst(base.n, env)
        lo = self.ev(sl.lower, env) if sl.lower is not None else Poly()
        step = self.ev(sl.step, env) if sl.step is not None else None
        if step is not None:
            # band_values[-1:0:-1] : reversed without the first element
            if isinstance(sl.lower, ast.UnaryOp) and ast.unparse(sl) == '-1:0:-1':
                return Arr(n - Poly.const(1))
            if sl.lower is None and sl.upper is None and isinstance(step, Poly) and (step + Poly.const(1)).is_zero():
                return Arr(n)  # [::-1]: the whole array, reversed
            raise Incomplete(site(node), 'strided slice')
        if sl.upper is None:
            hi = n
        elif isinstance(sl.upper, ast.UnaryOp) and isinstance(sl.upper.op, ast.USub):
            k = self._subst(self.ev(sl.upper.operand, env), env)
            name = ast.unparse(sl.upper.operand)
            if k.is_zero() or not (('h' in env.get('__pos__', set())) or nonneg(k - Poly.const(1))):
                self.problems.append((node, f'negative stop -{name} where {name} can be 0: [a:-0] is the empty slice (single band, K = 1)'))
            hi = n - k
        else:
            hi = self.ev(sl.upper, env)
        lo, hi = self._subst(lo, env), self._subst(hi, env)
        self.need(node, f'slice start {lo} >= 0', lo)
        self.need(node, f'slice stop {hi} <= length {n}', n - hi)
        self.need(node, f'slice start {lo} <= stop {hi}', hi - lo)
        if base.written is not None:
            self.need(node, f'the samples [{lo}, {hi}) that are returned were all computed: the block loop fills [0, {base.written})', self._subst(base.written, env) - hi)
        return Arr(hi - lo)

    def callexpr(self, e: ast.Call, env: dict[str, Any]) -> Any:
        f = e.func
        # self._helper(...)
        if isinstance(f, ast.Attribute) and isinstance(f.value, ast.Name) and env.get(f.value.id) == 'self':
            fn = self.method(f.attr)
            if fn is None:
                raise Incomplete(site(e), f'unknown helper {f.attr}')
            params = [a.arg for a in fn.args.args]
            if any((isinstance(d, ast.Name) and d.id == 'staticmethod') for d in fn.decorator_list):
                sub = {}
                for p, a in zip(params, e.args):
                    sub[p] = self.ev(a, env)
                return self.call(fn, sub)
            sub = {params[0]: 'self'}
            for p, a in zip(params[1:], e.args):
                sub[p] = self.ev(a, env)
            return self.call(fn, sub)
        if isinstance(f, ast.Attribute) and f.attr in ('reshape', 'ravel', 'flatten') and not (isinstance(f.value, ast.Name) and f.value.id in ('jnp', 'np')):
            base = self.ev(f.value, env)
            if isinstance(base, Arr):
                if f.attr in ('ravel', 'flatten'):
                    return type(base)(base.total)
                shp = [self.ev(a, env) for a in e.args]
                if len(shp) == 1 and isinstance(shp[0], tuple):
                    shp = list(shp[0])
                if not shp or not all(isinstance(d, Poly) for d in shp):
                    raise Incomplete(site(e), 'reshape to a shape outside the length language')
                free = [k for k, d in enumerate(shp) if (d + Poly.const(1)).is_zero()]
                if len(free) > 1:
                    raise Incomplete(site(e), 'reshape with several -1')
                if free:
                    if len(shp) != 1:
                        raise Incomplete(site(e), 'reshape with -1 next to other axes (needs exact division)')
                    return type(base)(base.total)
                prod = Poly.const(1)
                for d in shp:
                    prod = prod * d
                if not self._subst(prod - base.total, env).is_zero():
                    self.problems.append((e, f'reshape of {base.total} elements to shape {tuple(shp)} ({prod} elements)'))
                return type(base)(shp[-1], tuple(shp[:-1]))
        q = self.world.qualify(module_of(e), f) or ''
        if q.endswith('.ceil') and len(e.args) == 1 and isinstance(e.args[0], ast.BinOp) and isinstance(e.args[0].op, ast.Div):
            num, den = self.ev(e.args[0].left, env), self.ev(e.args[0].right, env)
            return self.ceildiv(num, den, e)
        if isinstance(f, ast.Name) and f.id == 'range' and f.id not in env and 1 <= len(e.args) <= 3:
            a = [self.ev(x, env) for x in e.args]
            if not all(isinstance(x, Poly) for x in a):
                raise Incomplete(site(e), 'range over something outside the length language')
            if len(a) == 1:
                return ('range', Poly(), a[0], Poly.const(1))
            return ('range', a[0], a[1], a[2] if len(a) == 3 else Poly.const(1))
        if isinstance(f, ast.Name) and f.id == 'len' and f.id not in env and len(e.args) == 1:
            v = self.ev(e.args[0], env)
            if isinstance(v, tuple) and len(v) == 4 and v[0] == 'range':
                _, lo, hi, step = v
                if (step - Poly.const(1)).is_zero():
                    return hi - lo
                return self.ceildiv(hi - lo, step, e)
            if isinstance(v, Arr):
                return v.dims[0]
            if isinstance(v, tuple):
                return Poly.const(len(v))
            raise Incomplete(site(e), 'len of something outside the length language')
        # a private record type (NamedTuple / dataclass) of the module: its fields, by name
        if isinstance(f, ast.Name) and f.id not in env:
            d = module_of(e).defs.get(f.id)
            if isinstance(d, ast.ClassDef):
                names = [n.target.id for n in d.body if isinstance(n, ast.AnnAssign) and isinstance(n.target, ast.Name)]
                if names and len(e.args) <= len(names):
                    rec = {n: self.ev(a, env) for n, a in zip(names, e.args)}
                    for k in e.keywords:
                        if k.arg in names:
                            rec[k.arg] = self.ev(k.value, env)
                    if set(rec) == set(names):
                        return ('record', rec)
        args = [self.ev(a, env) for a in e.args]
        kw = {}
        for k in e.keywords:
            if k.arg and k.arg != 'dtype':
                kw[k.arg] = self.ev(k.value, env)
        short = q.split('jax.numpy.')[-1] if q.startswith('jax.numpy.') else q.split('jax.lax.')[-1] if q.startswith('jax.lax.') else q
        if q in ('int',):
            return args[0]
        if isinstance(f, ast.Name) and f.id == 'int':
            return args[0]
        if q.startswith('jax.numpy.') or q.startswith('jax.lax.') or q.startswith('numpy.'):
            if short == 'ceil':
                if isinstance(args[0], tuple) and len(args[0]) == 3 and args[0][0] == 'ratio':
                    return self.ceildiv(args[0][1], args[0][2], e)
                raise Incomplete(site(e), 'ceiling of something that is not a ratio of lengths')
            if short == 'concatenate':
                parts = args[0]
                axis = kw.get('axis', Poly())
                if not isinstance(axis, Poly) or not axis.is_const():
                    raise Incomplete(site(e), 'concatenate along a non-literal axis')
                ax = int(axis.const_value())
                rank = len(parts[0].dims)
                if any(len(p.dims) != rank for p in parts):
                    self.problems.append((e, f'concatenation of arrays of different ranks: {[p.dims for p in parts]}'))
                    return parts[0]
                ax = ax % rank
                for k in range(rank):
                    if k != ax and any(not (p.dims[k] - parts[0].dims[k]).is_zero() for p in parts):
                        self.problems.append((e, f'concatenation along axis {ax} of arrays whose axis {k} differs: {[p.dims for p in parts]}'))
                dims = list(parts[0].dims)
                dims[ax] = sum((p.dims[ax] for p in parts), Poly())
                return Arr(dims[-1], tuple(dims[:-1]))
            if short == 'pad':
                w = args[1]
                if isinstance(w, tuple) and len(w) == 2:
                    return Arr(args[0].n + w[0] + w[1])
                if isinstance(w, tuple) and len(w) == 1:
                    return Arr(args[0].n + w[0].scale(2))
                if isinstance(w, Poly):
                    return Arr(args[0].n + w.scale(2))  # a scalar width pads both ends
            if short in ('fft.fft', 'fft.ifft'):
                axis = kw.get('axis', Poly.const(-1))
                if not (isinstance(axis, Poly) and axis.is_const() and int(axis.const_value()) in (-1, len(args[0].dims) - 1)):
                    raise Incomplete(site(e), 'FFT along an axis other than the last')
                if len(args) > 1 or 'n' in kw:
                    n_out = args[1] if len(args) > 1 else kw['n']
                    if args[0].lead:
                        # a batch of data blocks: n different from the block length pads or truncates every block silently
                        self.need(e, f'FFT length {n_out} <= block length {args[0].n} (no silent zero padding of the blocks)', args[0].n - n_out)
                    return Cplx(n_out, args[0].lead)
                return Cplx(args[0].n, args[0].lead)
            if short in ('fft.rfft',):
                raise Incomplete(site(e), 'rfft lengths (floor division by 2)')
            if short == 'convolve':
                mode = kw.get('mode', ('const', 'full'))
                a, b = args[0].n, args[1].n
                if mode == ('const', 'valid'):
                    self.need(e, f'valid convolution needs len {a} >= kernel len {b}', a - b)
                    return Arr(a - b + Poly.const(1))
                if mode == ('const', 'full'):
                    return Arr(a + b - Poly.const(1))
                if mode == ('const', 'same'):
                    return Arr(a)
            if short in ('zeros', 'ones', 'empty'):
                n = args[0]
                return Arr(n[0] if isinstance(n, tuple) else n, written=Poly() if short in ('zeros', 'empty') else None)
            if short == 'dynamic_slice':
                base, start, size = args[0], args[1][0], args[2][0]
                self.need(e, f'dynamic_slice start {start} >= 0', start.subst({("sym", "i"): Poly()}))
                self.loop_need(e, 'dynamic_slice end {top} (last block) <= length ' + str(base.n) + ': otherwise the start is clamped silently', start + size, base.n)
                return type(base)(size)
            if short == 'dynamic_update_slice':
                base, upd, start = args[0], args[1], args[2][0]
                self.loop_need(e, 'dynamic_update_slice end {top} (last block) <= length ' + str(base.n) + ': otherwise the update is shifted silently', start + upd.n, base.n)
                return Arr(base.n, written=base.written, tile=(start, upd.n))
            if short == 'fori_loop':
                lo, hi, body, init = args
                if not (isinstance(lo, Poly) and lo.is_zero()):
                    raise Incomplete(site(e), 'fori_loop not starting at 0')
                trip = hi
                if not isinstance(trip, Poly):
                    raise Incomplete(site(e), 'block loop with a trip count outside the length language')
                _, fn, cenv = body
                sub = dict(cenv)
                ps = [a.arg for a in fn.args.args]
                sub[ps[0]] = I
                sub[ps[1]] = init
                pending, self.pending = self.pending, []
                out = self.call(fn, sub)
                mine, self.pending = self.pending, pending
                last = trip - Poly.const(1)
                for node, text, end, length in mine:
                    top = end.subst({('sym', 'i'): last}).normal()
                    self.need(node, text.replace('{top}', str(top)), length - top)
                if isinstance(out, Arr) and isinstance(init, Arr) and not (out.n - init.n).is_zero():
                    self.problems.append((e, f'the loop carry changes length: {init.n} -> {out.n}'))
                if isinstance(out, Arr) and isinstance(init, Arr) and init.written is not None:
                    written = None
                    if out.tile is not None:
                        start, size = out.tile
                        stride = (start - start.subst({('sym', 'i'): I - Poly.const(1)})).normal()
                        at0 = start.subst({('sym', 'i'): Poly()}).normal()
                        if at0.is_zero() and certificate(size - stride) is not None and certificate(stride - Poly.const(1)) is not None:
                            # blocks of `size` samples written every `stride` <= size samples from 0: [0, (trip-1)*stride + size)
                            written = (last * stride + size).normal()
                    if written is None:
                        raise Incomplete(site(e), 'the block loop does not fill its buffer by contiguous blocks from position 0')
                    return Arr(init.n, written=written)
                return init
            if short == 'asarray':
                return args[0]
            if short in ('arange',):
                return Arr(args[0])
        if isinstance(f, ast.Name) and f.id == 'dense_symmetric_band_toeplitz' or q.endswith('dense_symmetric_band_toeplitz'):
            return Arr(args[0])  # an n x n matrix applied with @ keeps length n
        raise Incomplete(site(e), f'call outside the length language: {ast.unparse(e)[:60]}')


def witness(e: Poly) -> dict | None:
    """A small assignment satisfying the axioms at which e < 0 (a definite counterexample), if any."""
    import math

    for l in range(1, 7):
        for h in range(0, 4):
            for s in range(1, 6):
                q = math.ceil((l + 2 * h) / s) - 1
                if q < 0:
                    continue
                vals = {('sym', 'l'): l, ('sym', 'h'): h, ('sym', 's'): s, ('sym', 'q'): q, ('sym', 'p'): math.ceil(l / s) - 1}
                total = Fraction(0)
                ok = True
                for mono, c in e.normal().t.items():
                    term = Fraction(c)
                    for atom, k in mono:
                        if atom not in vals:
                            ok = False
                            break
                        term *= vals[atom] ** k
                    total += term
                if ok and total < 0:
                    return {'n': l, 'K': h + 1, 'fft_size': s + 2 * h, 'nblock': q + 1, 'value': str(total)}
    return None

"""Which properties are claimed, at what level, and which are not (with the reason)."""

# property id -> (category, technique, level text, level note, design ref)
CLAIMS: dict[str, tuple[str, str, str, str, str]] = {}
NOT_APPLICABLE: dict[str, str] = {}


def claim(pid: str, category: str, technique: str, text: str, note: str, ref: str) -> None:
    CLAIMS[pid] = (category, technique, text, note, ref)


claim(
    'C19', 'proof', 'ownership / set-reset pairing on all paths / capture dataflow (AST path enumeration + call graph)',
    'Static proof of the clause set K1-K7 (private ContextVar with default; set only in __enter__ with the token on the '
    'instance; exactly one reset with that token on every path of __exit__, unconditional; installed value = '
    'replace(current, **kwargs); frozen state whose mutable member is only read or copied; capture of Config.instance() '
    'in a static field on every constructor path; mv reads the captured field only and nothing reachable from an mv reads '
    'the active configuration). Given the trusted semantics of contextvars these clauses imply the property for every '
    'nested history and every thread interleaving, which no finite set of test histories can.',
    'Trusted: CPython contextvars (reset restores the pre-set value; per-thread/context isolation), the with protocol, '
    'dataclasses.replace / frozen dataclasses. Aliasing of the context variable is outside the language and reported as incomplete.',
    'DESIGN.md section 5, C19',
)

claim(
    'C01', 'other', 'guard dominance over check+apply paths; exact symbolic matrix identities (linear-form interpretation + polynomial normal form); table agreement; driver structure',
    'Per-rule soundness and driver structure, decided from source: every deletion rule is dominated by a pair-identity (or crosswise '
    'parameter-equality) guard plus its frozen side condition (unique_indices for P P^T); the rotation/HWP/polariser rules are proved as '
    'Mueller-matrix identities for all angles and all four Stokes kinds with matrices derived from the mv source of the same tree; block rules '
    'match the block-matrix product table with the left block multiplied on the left; the driver reduces operands first, captures the input '
    'structure before deleting, splices exactly the matched pair, returns an identity on the captured structure when everything cancels and '
    'swallows exactly NoReduction; asserts in rules are implied by the declared classes. By induction over rewrite steps this is what '
    '"any rule, any context, any order" needs; sampled chains cannot give it. NOT decided: termination of the scan, numeric multiplicities.',
    'Trusted: the frozen linear-algebra table (A^-1 A = I, P P^T = I iff no duplicate selection, reshapes/moveaxis are permutations, '
    'block-product layouts), element-wise jnp arithmetic, the polynomial normaliser. A new rule matching no schema is ANALYSIS-INCOMPLETE.',
    'DESIGN.md section 5, C01',
)

claim(
    'C02', 'other', 'path enumeration with guard facts over every arithmetic dunder; operand-role, operand-order and scalar-form term rules',
    'Every path of every arithmetic dunder of the operator classes: a path that returns an operator is dominated by the structure guard with '
    'the right operand roles (IN(self) vs OUT(other) for @, mirrored for the reflected form, IN-IN and OUT-OUT for sums), or delegates to a dunder '
    'that is, or sits under an operand-identity guard; operand lists are in product order and contain every operand once; NotImplemented '
    'hand-overs have a reflected method; scalar forms are k, 1/k, -1 on OUT(self) under a scalar-shape guard and without lossy dtype cast; '
    'shortcuts (scalar merge, A A^-1, identity absorption); NumPy opt-out; composites apply last-to-first / sum all leaves. NOT decided: numeric '
    'equality with the dense product (C04 decides linearity).',
    'Trusted: Python binary-operator dispatch, NumPy __array_ufunc__ = None protocol.',
    'DESIGN.md section 5, C02',
)

claim(
    'C04', 'other', 'abstract interpretation of every mv over a kind/linearity lattice (whitelisted linear primitives); schema matching of as_matrix overrides',
    'Linearity is decided for all inputs and parameters: each of the concrete mv methods (with the helpers, kernels and closures they reach, '
    'fori_loop carries by fixpoint, reduce without initializer modelled faithfully) evaluates to a pytree of arrays linear in the input - no added '
    'constant, no product of input-dependent values, no non-linear primitive, no non-array leaf, no truncating cast. Every as_matrix override is '
    'matched against the dense-form schema of its class over the same leaves mv uses; the generic builder is checked clause by clause (unit entry, '
    'leaf/element order, row order, column counter). NOT decided: numeric equality of an override with the generic form.',
    'Trusted: the linear-primitive whitelist (listed in evidence), jax.linear_transpose / lineax.linear_solve linear in the vector argument.',
    'DESIGN.md section 5, C04',
)

claim(
    'C15', 'proof', 'exact linear-form interpretation of the mv sources + trigonometric polynomial normal form (no execution, no solver)',
    'All Mueller matrices are derived from source for symbolic angles and compared with the stated ones for each of the four Stokes kinds: '
    'H = diag(+,+,-,-), R(a) rotates (Q,U) by 2a, R^T = R(-a) = transpose, P = (I+Q)/2 restricted; R(a)R(b) = R(a+b), R^T R = I, R(a)H = H R(-a), '
    'P H = P; the three factories equal R(-a) H R(a), P R(a), R(a) on one structure of the requested kind. Exact arithmetic, all angles at once.',
    'Trusted: jnp arithmetic/cos/sin are element-wise (scalar identities lift pointwise to angle arrays); Stokes constructor order = field order; '
    'the normaliser sa/poly.py (re-checked by a second normaliser in the thorough tier). Floating-point rounding is not decided.',
    'DESIGN.md section 5, C15',
)

_WIP = 'check under construction in this session; not claimed until its rules run clean on the tree'


def finalize() -> None:
    for i in range(1, 21):
        pid = f'C{i:02d}'
        if pid not in CLAIMS and pid not in NOT_APPLICABLE:
            NOT_APPLICABLE[pid] = _WIP

"""Which properties are claimed, at what level, and which are not (with the reason)."""

# property id -> (category, technique, level text, level note, design ref)
CLAIMS: dict[str, tuple[str, str, str, str, str]] = {}
NOT_APPLICABLE: dict[str, str] = {}


def claim(pid: str, category: str, technique: str, text: str, note: str, ref: str) -> None:
    CLAIMS[pid] = (category, technique, text, note, ref)


claim(
    'C19', 'proof', 'ownership / set-reset pairing on all paths / capture dataflow (AST path enumeration + call graph)',
    'Static proof of the clause set K1-K7 (private ContextVar with default; set only in __enter__ with the token on the '
    'instance; exactly one reset with that token on every path of __exit__, unconditional; installed value = '
    'replace(current, **kwargs); frozen state whose mutable member is only read or copied; capture of Config.instance() '
    'in a static field on every constructor path; mv reads the captured field only and nothing reachable from an mv reads '
    'the active configuration). Given the trusted semantics of contextvars these clauses imply the property for every '
    'nested history and every thread interleaving, which no finite set of test histories can.',
    'Trusted: CPython contextvars (reset restores the pre-set value; per-thread/context isolation), the with protocol, '
    'dataclasses.replace / frozen dataclasses. Aliasing of the context variable is outside the language and reported as incomplete.',
    'DESIGN.md section 5, C19',
)

_WIP = 'check under construction in this session; not claimed until its rules run clean on the tree'


def finalize() -> None:
    for i in range(1, 21):
        pid = f'C{i:02d}'
        if pid not in CLAIMS and pid not in NOT_APPLICABLE:
            NOT_APPLICABLE[pid] = _WIP

"""Which properties are claimed, at what level, and which are not (with the reason)."""

# property id -> (category, technique, level text, level note, design ref)
CLAIMS: dict[str, tuple[str, str, str, str, str]] = {}
NOT_APPLICABLE: dict[str, str] = {}


def claim(pid: str, category: str, technique: str, text: str, note: str, ref: str) -> None:
    CLAIMS[pid] = (category, technique, text, note, ref)


claim(
    'C19', 'proof', 'ownership / set-reset pairing on all paths (direct, or through a generator context manager with the reset in the finally of the yield) / capture dataflow (AST path enumeration + call graph)',
    'Static proof of the clause set K1-K7 (private ContextVar with default; set only in __enter__ with the token on the '
    'instance; exactly one reset with that token on every path of __exit__, unconditional; installed value = '
    'replace(current, **kwargs); frozen state whose mutable member is only read or copied; capture of Config.instance() '
    'in a static field on every constructor path; mv reads the captured field only and nothing reachable from an mv reads '
    'the active configuration). Given the trusted semantics of contextvars these clauses imply the property for every '
    'nested history and every thread interleaving, which no finite set of test histories can.',
    'Trusted: CPython contextvars (reset restores the pre-set value; per-thread/context isolation), the with protocol, '
    'dataclasses.replace / frozen dataclasses. Aliasing of the context variable is outside the language and reported as incomplete.',
    'DESIGN.md section 5, C19',
)

claim(
    'C01', 'other', 'guard dominance over check+apply paths; exact symbolic matrix identities (linear-form interpretation + polynomial normal form); table agreement; driver structure; abstract execution (syntax-tree evaluator, nothing run) of the reduction driver on chains of opaque operators, of the block-product rules on all class pairs / containers, of the P^T P rule and of IndexOperator.reduce on all index expressions of <= 3 entries',
    'Per-rule soundness and driver structure, decided from source: every deletion rule is dominated by a pair-identity (or crosswise '
    'parameter-equality) guard plus its frozen side condition (unique_indices for P P^T); the rotation/HWP/polariser rules are proved as '
    'Mueller-matrix identities for all angles and all four Stokes kinds with matrices derived from the mv source of the same tree; block rules '
    'match the block-matrix product table with the left block multiplied on the left; the driver reduces operands first, captures the input '
    'structure before deleting, splices exactly the matched pair, returns an identity on the captured structure when everything cancels and '
    'swallows exactly NoReduction; asserts in rules are implied by the declared classes. By induction over rewrite steps this is what '
    '"any rule, any context, any order" needs; sampled chains cannot give it. NOT decided: termination of the scan, numeric multiplicities.',
    'Trusted: the frozen linear-algebra table (A^-1 A = I, P P^T = I iff no duplicate selection, reshapes/moveaxis are permutations, '
    'block-product layouts), element-wise jnp arithmetic, the polynomial normaliser. A new rule matching no schema is ANALYSIS-INCOMPLETE.',
    'DESIGN.md section 5, C01',
)

claim(
    'C02', 'other', 'path enumeration with guard facts over every arithmetic dunder; operand-role, operand-order and scalar-form term rules; abstract evaluation of k*A, A*k, A/k, -A (symbolic scalars), of L @ R on 529 operand pairs compared in the free group of opaque operators (operands unchanged), of L + R / L - R as formal sums of signed terms, and of the structure guards on 140 operand combinations',
    'Every path of every arithmetic dunder of the operator classes: a path that returns an operator is dominated by the structure guard with '
    'the right operand roles (IN(self) vs OUT(other) for @, mirrored for the reflected form, IN-IN and OUT-OUT for sums), or delegates to a dunder '
    'that is, or sits under an operand-identity guard; operand lists are in product order and contain every operand once; NotImplemented '
    'hand-overs have a reflected method; scalar forms are k, 1/k, -1 on OUT(self) under a scalar-shape guard and without lossy dtype cast; '
    'shortcuts (scalar merge, A A^-1, identity absorption); NumPy opt-out; composites apply last-to-first / sum all leaves. NOT decided: numeric '
    'equality with the dense product (C04 decides linearity).',
    'Trusted: Python binary-operator dispatch, NumPy __array_ufunc__ = None protocol.',
    'DESIGN.md section 5, C02',
)

claim(
    'C04', 'other', 'abstract interpretation of every mv over a kind/linearity lattice (whitelisted linear primitives); schema matching of as_matrix overrides; per-class abstract evaluation of the dense forms of the lazy operators; Toeplitz dense-builder / kernel-bound obligations shared with C09',
    'Linearity is decided for all inputs and parameters: each of the concrete mv methods (with the helpers, kernels and closures they reach, '
    'fori_loop carries by fixpoint, reduce without initializer modelled faithfully) evaluates to a pytree of arrays linear in the input - no added '
    'constant, no product of input-dependent values, no non-linear primitive, no non-array leaf, no truncating cast. Every as_matrix override is '
    'matched against the dense-form schema of its class over the same leaves mv uses; the generic builder is checked clause by clause (unit entry, '
    'leaf/element order, row order, column counter). NOT decided: numeric equality of an override with the generic form.',
    'Trusted: the linear-primitive whitelist (listed in evidence), jax.linear_transpose / lineax.linear_solve linear in the vector argument.',
    'DESIGN.md section 5, C04',
)

claim(
    'C15', 'proof', 'exact linear-form interpretation of the mv sources, factories and rewrite rules (distinct and shared angle arrays) + trigonometric polynomial normal form (no execution, no solver); `@` compared in the free group of opaque operators (C02)',
    'All Mueller matrices are derived from source for symbolic angles and compared with the stated ones for each of the four Stokes kinds: '
    'H = diag(+,+,-,-), R(a) rotates (Q,U) by 2a, R^T = R(-a) = transpose, P = (I+Q)/2 restricted; R(a)R(b) = R(a+b), R^T R = I, R(a)H = H R(-a), '
    'P H = P; the three factories equal R(-a) H R(a), P R(a), R(a) on one structure of the requested kind. Exact arithmetic, all angles at once.',
    'Trusted: jnp arithmetic/cos/sin are element-wise (scalar identities lift pointwise to angle arrays); Stokes constructor order = field order; '
    'the normaliser sa/poly.py (re-checked by a second normaliser in the thorough tier). Floating-point rounding is not decided.',
    'DESIGN.md section 5, C15',
)

claim(
    'C03', 'other', 'class-table resolution of `transpose` (MRO + interpreted decorator rewiring); adjoint schemas on canonical terms; abstract evaluation of the transposes of products and sums (flat and nested); exact symbolic transpose identity',
    'For each of the 31 operator classes `transpose` is resolved as Python would resolve it: generic lazy transpose (adjoint by jax.linear_transpose, '
    'transposable because C04 shows the mv linear), self (class must be tagged symmetric), or hand-written. Each hand-written transpose is matched '
    'against the adjoint construction of its class: structures swapped, same data, composition reversed unconditionally, row <-> column of transposed '
    'blocks, swapped source/destination, rewritten subscripts on the output structure; A.T.T returns A; the lazy dual swaps structures; the '
    'hand-written transposed rotation equals the matrix transpose for all angles and kinds, the reshape dual reshapes to the operand input shapes, '
    'the observation-matrix dual applies the transposed matrix field. NOT decided: adjointness of the rewritten einsum subscripts (C14), symmetry of the Toeplitz kernels.',
    'Trusted: jax.linear_transpose is the exact adjoint of a function built from linear primitives.',
    'DESIGN.md section 5, C03',
)

claim(
    'C05', 'other', 'override inventory justified by derived kinds/guards; value-flow dtype rule over abstractly interpreted mv/as_matrix; definite-assignment + escape analysis of constructors; structure-guard dominance over the arithmetic dunders; strict-variant guard decided by axis-provenance interpretation; abstract evaluation of the block row / column constructors and of the block-product and P^T P rules (shared with C10 / C01)',
    'out_structure defaults to the abstract evaluation of mv (honest by construction); every class overriding it is justified: the 8 square classes by a '
    'derived structure-preserving mv or constructor guard, the written accessors of composites by agreement with the order in which mv applies the '
    'parts. Every array creation on a result path carries a data-derived dtype (never none, never a Python builtin type), so the result dtype does not '
    'depend on the 64-bit flag. No constructor hands self to JAX, or calls a method reading a field, before that field is assigned, and every '
    'declared field is assigned on all non-raising paths. Sizes/promoted dtypes are computed from the structures. NOT decided: canonicalisation of '
    'user-supplied float64 structures when 64-bit mode is off, leaf shapes of computed (non-declared) structures.',
    'Trusted: jax.eval_shape; equinox flattens a bound method as all fields of self.',
    'DESIGN.md section 5, C05',
)

claim(
    'C06', 'other', 'class-table resolution of `inverse`; closed-form schemas on canonical terms; exact symbolic orthogonality; guard facts; coefficient-cast lint over the mv closure of closed-form-invertible operators; configuration pairing rules of C19',
    'Closed-form inverses are a table with derived reasons: scalar -> reciprocal on the same structure; orthogonal classes resolve `inverse` to the '
    'function their own `transpose` resolves to (decorator order matters) and the rotation satisfies M^T M = I for all angles; move-axis is a Perm whose '
    'transpose swaps source/destination; block-diagonal inverts block-wise under the all-square guard; the diagonal inverse re-uses values, axes and '
    'structure with where(d != 0, 1/d, 0); lazy inverses return their operand on .inverse(); non-square operands are refused before anything is '
    'stored; the solver gets the operand as matrix and the input as right-hand side. NOT decided: solver convergence/tolerance, rounding.',
    'Trusted: lineax.linear_solve solves to tolerance for a positive (semi)definite operand (the property\'s stated precondition).',
    'DESIGN.md section 5, C06',
)

claim(
    'C07', 'other', 'pattern x rule-guard acceptance over the class table; symbolic cursor arithmetic over all paths of one scan iteration; may-return-class inference; rule order by abstract interpretation of the registry (register / iteration) over the statically known rule classes',
    'Each of the 23 documented patterns is accepted by the class guards of a registered rule and has a rewriting path (identity guards checked for '
    'type-compatibility); on every path of one scan iteration the cursor becomes <= max(cursor-1, 0) after a rewrite and cursor+1 otherwise, a rewrite '
    'leaves the rule loop, the scan only ends at the end of the chain - exactly the transfer conditions of the invariant "no reducible pair left of '
    'the cursor"; the chain is returned unchanged only when it holds at most one scalar, which is placed on the smaller side; every class normalised '
    'before the scan that a rule may produce is re-normalised on the rewrite path. NOT decided: that each rule fires for every parameterisation of '
    'its pattern (aliasing axes) - value-level.',
    'Trusted: the class guards are the only applicability conditions besides the value-level ones treated as satisfiable.',
    'DESIGN.md section 5, C07',
)

claim(
    'C08', 'other', 'who-may-tag scan (incl. per-subclass default registration); re-derivation of every true tag from the mv denotation (kinds, exact Mueller matrices, constructor guards); rewiring consistency over the class table',
    'Tags are asserted only inside the decorator functions of core.py with constant answers (plus the documented solver precondition); every '
    '(class, tag) pair that evaluates to True along the MRO is re-derived: diagonal/symmetric from Id/Scale kinds, the strict shape guard, or an '
    'exactly derived diagonal matrix; orthogonal from M^T M = I; square from a structure-preserving mv or a constructor guard; a semidefinite tag on a '
    'class whose matrix is linear in an unconstrained parameter array is refuted. Decorator rewiring is consistent with what each class finally '
    'resolves (transpose / inverse / out_structure). ASSUMED, not derived: symmetry of the banded Toeplitz matrix.',
    'Trusted: functools.singledispatch picks the first registration along the MRO; __init_subclass__ default registrations as read from source.',
    'DESIGN.md section 5, C08',
)

claim(
    'C09', 'other', 'dispatch-table exhaustiveness; guard extraction; abstract interpretation of each kernel (linearity + trace taint); symbolic length domain with ceiling-division axioms (slice bounds at the last block, coverage of the returned samples by the block loop); dtype/size-site rules; dependency analysis of values stored in module-level containers (key must cover every field read, through methods / bound methods / table-driven getattr)',
    'STRUCTURAL NECESSARY CONDITIONS ONLY: METHODS <-> dispatch branches <-> existing kernels; illegal method / fft_size refused before any store; each '
    'live kernel linear in x with the band values constant and trace-safe; vectorize signature (n),(k)->(n) with (x, band_values); band count from the '
    'last axis of the band values; every buffer with a data-derived dtype; [h:-h] slices guarded against h == 0; irfft given its length; as_matrix and '
    'the dense method share one builder. The equality of the four kernels, overlap block arithmetic and K > n are numeric and NOT decided.',
    'Trusted: the linear-primitive whitelist; numpy.vectorize semantics.',
    'DESIGN.md section 5, C09',
)

claim(
    'C10', 'other', 'kind inference of the block mv (incl. arity one); accessor/transposition/dense schemas; constructor-guard extraction; block-rule table; abstract evaluation of the constructors (shared structure differing by shape or dtype) and of the reduction driver on all 9 class pairs x list/tuple/dict/misaligned containers',
    'Row sums block(leaf) over all pairs, diagonal applies leaf-wise, column applies every block to the same input - linear for every container arity; '
    'structures, transposes (row <-> column of transposed blocks), block-wise inverse under the all-square guard, hstack / block_diag / vstack over '
    'block_leaves; constructors refuse blocks whose shared structure (pytree, shapes, dtypes) differs from the first block\'s; product rules follow '
    'the block-matrix layout, multiply left blocks on the left and require identically nested containers. NOT decided: numeric equality with the stacked matrix.',
    'Trusted: jax.tree.map/leaves traverse containers in one fixed leaf order.',
    'DESIGN.md section 5, C10',
)

claim(
    'C11', 'other', 'axis-provenance abstract interpretation of constructor + mv + as_matrix over every order type of the requested axes (ranks <= 3, unit-size axes for ranks <= 2); guard extraction, definite-assignment/escape analysis, kind inference and read-set analysis of the diagonal operators',
    'STRUCTURAL NECESSARY CONDITIONS ONLY: pytree / 0-d values refused; the constructor ends with an abstract evaluation of mv once all fields are set '
    '(duplicated or incompatible axes surface at construction); the strict variant raises on any shape change and mv reaches that check; mv is an '
    'element-wise product of reshaped values and reshaped leaf (RScale) reading only the values and axes; inverse re-uses values/axes/structure. The '
    'axis normalisation/padding/moveaxis arithmetic itself (that values land on the requested axes) is value-level and NOT decided.',
    'Trusted: jnp.broadcast_shapes / reshape / moveaxis.',
    'DESIGN.md section 5, C11',
)

claim(
    'C12', 'other', 'kind inference (Select); abstract interpretation of constructor + index accessor over all index expressions of <= 3 entries; definite-assignment/escape analysis of the constructor; guard facts for the uniqueness flag; rule soundness reused from C01 (P^T P rule and reduce() evaluated on all index expressions of <= 3 entries)',
    'Both mv are pure selections (each output element is one input element), so the generic transpose is the scatter-add adjoint; the index operator '
    'is constructible with and without output structure, refuses masks without output structure and several ellipses; unique_indices is forced true '
    'only for int/slice/ellipsis/boolean-array indices; P P^T deleted only under identity + uniqueness, pack pack^T under identity, P^T P -> '
    'multiplicity diagonal on the single indexed axis with negative aliases merged; no-op index -> identity only without indexed axes; Stokes '
    'containers are indexed component-wise. NOT decided: the indexed-axes arithmetic and the multiplicity values.',
    'Trusted: JAX native indexing and its linear transpose.',
    'DESIGN.md section 5, C12',
)

claim(
    'C13', 'other', 'kind inference (Perm) plus term derivation of the primitive calls (axis-provenance interpretation over all order types of source/destination when mv is written another way); guard extraction and order-type enumeration of the ravel guards; schemas reused from C03/C06/C01',
    'Each axis mv is built from moveaxis / reshape of the leaf alone (permutation matrix: transpose = inverse), with the stored arguments in the right '
    'order and negative ravel axes normalised per leaf; illegal arguments (first after last - same sign and per leaf for mixed signs; wrong size; '
    'sizes < -1; second -1) are refused before any store; transposes swap source/destination or reshape back to the operand input shapes; a '
    'ravel/reshape becomes the identity only when its output structure equals its input structure; inverse pairs are deleted only under crosswise '
    'equality / operand identity. NOT decided: agreement with numpy for every sign/rank combination.',
    'Trusted: jnp.moveaxis / reshape semantics.',
    'DESIGN.md section 5, C13',
)

claim(
    'C14', 'other', 'role-order term rule over every einsum call; bounded exhaustive abstract evaluation of the subscript rewriter over all strings up to renaming of letters, with a contraction-pattern isomorphism oracle for adjointness; guard extraction over the subscript parser',
    'STRUCTURAL NECESSARY CONDITIONS ONLY: the three branches of mv call einsum(subscripts, blocks, leaf) in that role order; transpose keeps the '
    'blocks, uses the output structure and the rewritten subscripts; all six rejections (incl. the ordered layout comparison) dominate the return. '
    'That the letter swap yields the adjoint for every accepted subscript string is a property of a string algorithm over an unbounded input family '
    'and is NOT decided (enumeration would be a dynamic technique).',
    'Trusted: jnp.einsum.',
    'DESIGN.md section 5, C14',
)

claim(
    'C16', 'other', 'canonical-term evaluation of the builders; exact symbolic Mueller product and Euler literal; structure-term equality across every @',
    'Projection = R(pa) . Index(world2index(vec2dir(rot . dirs))) . Ravel and acquisition = reduce(P . H . projection); index/ravel are component-wise, '
    'so P H R(psi) = (1, cos 2psi, -sin 2psi, 0)/2 restricted to the kind is proved for all angles; the 3x3 literal equals Rz(phi) Ry(theta) Rz(pa) and '
    'the einsum contracts its column with the coordinate axis; theta = arccos(z/r), phi = atan2(y, x), unit directions; the sampling operator is '
    'constructible and R^T R is deleted before angle merging; every @ of the builders joins provably equal (kind, shape, dtype) structure terms on '
    'every path. NOT decided: pixel lookup, hit-count values, the random sampling generator.',
    'Trusted: jax_healpy, einsum/arccos/arctan2, the polynomial normaliser.',
    'DESIGN.md section 5, C16',
)

claim(
    'C17', 'other', 'def-use / term derivation over pixel2index, the HEALPix lookup call and (clause by clause) the coverage accumulation',
    'STRUCTURAL NECESSARY CONDITIONS ONLY: result = where(valid, index, -1); valid conjoins 0 <= i and i < dim for the first axis and every further one, '
    'with the dim that scales the stride; index accumulated with the current stride before the stride is multiplied; aligned zip; rounding before '
    'the cast; int32/int64 choice from the map size; ang2pix(nside, theta, phi) in ring ordering; world2index = pixel2index(*world2pixel); coverage = '
    'add-accumulated counts over len(self) zeros reshaped to the map. Rounding at half-integers, the bijection, agreement with healpy and histogram '
    'totals are numeric and NOT decided.',
    'Trusted: jax_healpy.ang2pix, jnp.unique / scatter-add.',
    'DESIGN.md section 5, C17',
)

claim(
    'C18', 'other', 'writer/reader table agreement for hand-registered pytrees; field discipline (incl. array-valued scalar factors); trace-taint abstract interpretation of every mv',
    'For each hand-registered landscape the aux_data keys are accepted by and cover the required parameters of that class\'s own constructor, are fed '
    'from the like-named attributes, every landscape subclass is registered and no static aux value is an array (one known finding: '
    'FrequencyLandscape.frequencies); constructors assign only and all declared fields, no array/operator field is static; in every mv, kernel and '
    'helper Python control flow, loop bounds, int()/range() and numpy calls only see static values. NOT decided: value equality jit vs eager inside '
    'XLA, 64-bit canonicalisation.',
    'Trusted: tracing with static-only Python control flow reproduces the eager array program; equinox field semantics.',
    'DESIGN.md section 5, C18',
)

claim(
    'C20', 'other', 'dunder/helper table agreement on canonical terms; kind-table agreement (dict / Literal / ClassVar / fields); partial evaluation of from_iquv per container class with symbolic components; argument-selection at factory call sites',
    'Forward dunders call _operation and reflected ones _roperation with the like-named operator function; the helpers apply (leaf, other) / (other, '
    'leaf) in both branches and return NotImplemented otherwise; unary ops, ravel, reshape map over all components; fields = lower-cased letters of '
    '`stokes`; class_for dict = Literal = subclasses; from_iquv passes exactly its own components in order; every factory passes like-named arguments '
    'in the callee\'s parameter order (normal takes key first, uniform shape first); zeros/ones/full/dot/as_promoted_dtype/*_like helpers have their '
    'leaf-wise form. NOT decided: numeric results, dtype promotion outcomes.',
    'Trusted: jax.tree.map applies a function leaf-wise in a fixed order.',
    'DESIGN.md section 5, C20',
)

_WIP = 'check under construction in this session; not claimed until its rules run clean on the tree'


def finalize() -> None:
    for i in range(1, 21):
        pid = f'C{i:02d}'
        if pid not in CLAIMS and pid not in NOT_APPLICABLE:
            NOT_APPLICABLE[pid] = _WIP

"""Which properties are claimed, at what level, and which are not (with the reason)."""

from .manifest import NOT_APPLICABLE, claim

claim(
    'C19', 'proof', 'ownership / set-reset pairing on all paths / capture dataflow (AST path enumeration + call graph)',
    'Static proof of the clause set K1-K7 (private ContextVar with default; set only in __enter__ with the token on the '
    'instance; exactly one reset with that token on every path of __exit__, unconditional; installed value = '
    'replace(current, **kwargs); frozen state whose mutable member is only read or copied; capture of Config.instance() '
    'in a static field on every constructor path; mv reads the captured field only and nothing reachable from an mv reads '
    'the active configuration). Given the trusted semantics of contextvars these clauses imply the property for every '
    'nested history and every thread interleaving, which no finite set of test histories can.',
    'Trusted: CPython contextvars (reset restores the pre-set value; per-thread/context isolation), the with protocol, '
    'dataclasses.replace / frozen dataclasses. Aliasing of the context variable is outside the language and reported as incomplete.',
    'DESIGN.md section 5, C19',
)

_WIP = 'check under construction in this session; not claimed until its rules run clean on the tree'
for _i in range(1, 21):
    _pid = f'C{_i:02d}'
    from .manifest import CLAIMS as _C
    if _pid not in _C:
        NOT_APPLICABLE[_pid] = _WIP

"""Exact polynomial arithmetic with trigonometric atoms - the normaliser behind E6.

A Poly is a map monomial -> Fraction.  A monomial is a sorted tuple of (atom, power).  Atoms:
('in', name)   component of the input vector
('ang', name)  an angle symbol (only inside the argument of cos/sin)
('cos', name) / ('sin', name)  cosine / sine of the *base* angle symbol
('sym', name)  any other symbol

cos/sin of an integer linear combination of angle symbols are expanded with the addition
formulas down to cos/sin of base symbols; ``normal()`` then rewrites sin^2 = 1 - cos^2, which
gives a canonical form of the ring R[c, s]/(c^2 + s^2 - 1) (sine degree <= 1).  Identities are
decided by comparing normal forms: no solver, no floating point, no sampling.
"""

from __future__ import annotations

from fractions import Fraction
from typing import Iterable

Atom = tuple
Mono = tuple


class NotPolynomial(Exception):
    pass


class Poly:
    __slots__ = ('t',)

    def __init__(self, terms: dict[Mono, Fraction] | None = None):
        self.t: dict[Mono, Fraction] = {m: c for m, c in (terms or {}).items() if c != 0}

    # ---------------------------------------------------------------- constructors
    @staticmethod
    def const(c) -> 'Poly':
        c = Fraction(c)
        return Poly({(): c}) if c != 0 else Poly()

    @staticmethod
    def atom(a: Atom) -> 'Poly':
        return Poly({((a, 1),): Fraction(1)})

    # ---------------------------------------------------------------- arithmetic
    def __add__(self, other: 'Poly') -> 'Poly':
        out = dict(self.t)
        for m, c in other.t.items():
            out[m] = out.get(m, 0) + c
        return Poly(out)

    def __neg__(self) -> 'Poly':
        return Poly({m: -c for m, c in self.t.items()})

    def __sub__(self, other: 'Poly') -> 'Poly':
        return self + (-other)

    def __mul__(self, other: 'Poly') -> 'Poly':
        out: dict[Mono, Fraction] = {}
        for m1, c1 in self.t.items():
            for m2, c2 in other.t.items():
                m = _mul_mono(m1, m2)
                out[m] = out.get(m, 0) + c1 * c2
        return Poly(out)

    def scale(self, c) -> 'Poly':
        c = Fraction(c)
        return Poly({m: v * c for m, v in self.t.items()})

    def __pow__(self, n: int) -> 'Poly':
        out = Poly.const(1)
        for _ in range(n):
            out = out * self
        return out

    def is_zero(self) -> bool:
        return not self.normal().t

    def is_const(self) -> bool:
        return all(m == () for m in self.t)

    def const_value(self) -> Fraction:
        return self.t.get((), Fraction(0))

    def atoms(self) -> set[Atom]:
        return {a for m in self.t for a, _ in m}

    def __eq__(self, other: object) -> bool:
        return isinstance(other, Poly) and (self - other).is_zero()

    def __hash__(self) -> int:
        return hash(tuple(sorted(self.normal().t.items())))

    # ---------------------------------------------------------------- normal form
    def normal(self) -> 'Poly':
        out = Poly()
        for m, c in self.t.items():
            p = Poly.const(c)
            for a, k in m:
                if a[0] == 'sin' and k >= 2:
                    one_minus_c2 = Poly.const(1) - Poly.atom(('cos', a[1])) ** 2
                    p = p * (one_minus_c2 ** (k // 2))
                    if k % 2:
                        p = p * Poly.atom(a)
                else:
                    p = p * Poly({((a, k),): Fraction(1)})
            out = out + p
        return out

    # ---------------------------------------------------------------- linear structure
    def coefficient(self, atom: Atom) -> 'Poly':
        """Coefficient of ``atom`` (degree exactly 1) - the rest of each monomial."""
        out: dict[Mono, Fraction] = {}
        for m, c in self.t.items():
            powers = dict(m)
            if powers.get(atom) == 1:
                rest = tuple((a, k) for a, k in m if a != atom)
                out[rest] = out.get(rest, 0) + c
        return Poly(out)

    def linear_in(self, atoms: Iterable[Atom]) -> bool:
        """Homogeneous of degree one in the given atoms (each monomial has exactly one, power 1)."""
        aset = set(atoms)
        for m in self.t:
            deg = sum(k for a, k in m if a in aset)
            if deg != 1:
                return False
        return True

    def angle_form(self) -> dict[str, int]:
        """Interprets the polynomial as an integer combination of angle symbols."""
        out: dict[str, int] = {}
        for m, c in self.t.items():
            if len(m) != 1 or m[0][1] != 1 or m[0][0][0] != 'ang':
                raise NotPolynomial(f'not a linear form in angle symbols: {self}')
            if c.denominator != 1:
                raise NotPolynomial(f'non-integer multiple of an angle: {self}')
            out[m[0][0][1]] = int(c)
        return out

    def subst(self, mapping: dict[Atom, 'Poly']) -> 'Poly':
        out = Poly()
        for m, c in self.t.items():
            p = Poly.const(c)
            for a, k in m:
                p = p * ((mapping[a] ** k) if a in mapping else Poly({((a, k),): Fraction(1)}))
            out = out + p
        return out

    def __repr__(self) -> str:
        if not self.t:
            return '0'
        parts = []
        for m, c in sorted(self.t.items(), key=lambda kv: repr(kv[0])):
            mono = '*'.join(_atom_str(a) + (f'^{k}' if k != 1 else '') for a, k in m)
            if not mono:
                parts.append(str(c))
            elif c == 1:
                parts.append(mono)
            elif c == -1:
                parts.append('-' + mono)
            else:
                parts.append(f'{c}*{mono}')
        return ' + '.join(parts).replace('+ -', '- ')


def _atom_str(a: Atom) -> str:
    if a[0] in ('cos', 'sin'):
        return f'{a[0]}({a[1]})'
    return str(a[1])


def _mul_mono(m1: Mono, m2: Mono) -> Mono:
    if not m1:
        return m2
    if not m2:
        return m1
    d = dict(m1)
    for a, k in m2:
        d[a] = d.get(a, 0) + k
    return tuple(sorted(d.items(), key=lambda kv: repr(kv[0])))


# -------------------------------------------------------------------- trigonometry
def _cs_multiple(sym: str, n: int) -> tuple[Poly, Poly]:
    """(cos(n*sym), sin(n*sym)) as polynomials in cos(sym), sin(sym)."""
    c1, s1 = Poly.atom(('cos', sym)), Poly.atom(('sin', sym))
    if n < 0:
        c, s = _cs_multiple(sym, -n)
        return c, -s
    c, s = Poly.const(1), Poly()
    for _ in range(n):
        c, s = c * c1 - s * s1, s * c1 + c * s1
    return c, s


def cos_sin(form: dict[str, int]) -> tuple[Poly, Poly]:
    """(cos, sin) of an integer combination of angle symbols, expanded to base symbols."""
    c, s = Poly.const(1), Poly()
    for sym in sorted(form):
        n = form[sym]
        if n == 0:
            continue
        cn, sn = _cs_multiple(sym, n)
        c, s = c * cn - s * sn, s * cn + c * sn
    return c.normal(), s.normal()


def poly_cos(p: Poly) -> Poly:
    import sa.poly as _self

    return _self.cos_sin(p.angle_form())[0]


def poly_sin(p: Poly) -> Poly:
    import sa.poly as _self

    return _self.cos_sin(p.angle_form())[1]


# -------------------------------------------------------------------- matrices
class Matrix:
    """Dense matrix of Polys with labelled rows/columns."""

    def __init__(self, rows: list[str], cols: list[str], data: list[list[Poly]]):
        self.rows, self.cols, self.data = rows, cols, data

    @staticmethod
    def identity(labels: list[str]) -> 'Matrix':
        return Matrix(labels, labels, [[Poly.const(1 if i == j else 0) for j in range(len(labels))] for i in range(len(labels))])

    def __matmul__(self, other: 'Matrix') -> 'Matrix':
        if self.cols != other.rows:
            raise ValueError(f'matrix shapes do not chain: {self.cols} vs {other.rows}')
        data = []
        for i in range(len(self.rows)):
            row = []
            for j in range(len(other.cols)):
                acc = Poly()
                for k in range(len(self.cols)):
                    acc = acc + self.data[i][k] * other.data[k][j]
                row.append(acc.normal())
            data.append(row)
        return Matrix(self.rows, other.cols, data)

    @property
    def T(self) -> 'Matrix':
        return Matrix(self.cols, self.rows, [[self.data[i][j] for i in range(len(self.rows))] for j in range(len(self.cols))])

    def __eq__(self, other: object) -> bool:
        return (
            isinstance(other, Matrix)
            and self.rows == other.rows
            and self.cols == other.cols
            and all((a - b).is_zero() for ra, rb in zip(self.data, other.data) for a, b in zip(ra, rb))
        )

    def __hash__(self) -> int:  # pragma: no cover
        return 0

    def is_diagonal(self) -> bool:
        return self.rows == self.cols and all(
            self.data[i][j].is_zero() for i in range(len(self.rows)) for j in range(len(self.cols)) if i != j
        )

    def subst(self, mapping: dict[Atom, Poly]) -> 'Matrix':
        return Matrix(self.rows, self.cols, [[p.subst(mapping).normal() for p in row] for row in self.data])

    def __repr__(self) -> str:
        return '[' + '; '.join(', '.join(repr(p.normal()) for p in row) for row in self.data) + ']'

"""Kind summaries of every concrete ``mv`` (shared by C04, C08, C10-C13, C18)."""

from __future__ import annotations

import ast
from dataclasses import dataclass
from typing import Any

from .classes import ClassInfo, ClassTable
from .kinds import KindInterp, Lin, Taint
from .loader import World


@dataclass
class MvSummary:
    cls: ClassInfo
    fn: ast.AST
    owner: ClassInfo | None
    value: Any
    taints: list[Taint]
    unknowns: list[tuple[ast.AST, str]]
    creations: list
    casts: list


def is_abstract_body(fn: ast.AST) -> bool:
    body = getattr(fn, 'body', None)
    if not isinstance(body, list):
        return False
    stmts = [s for s in body if not (isinstance(s, ast.Expr) and isinstance(s.value, ast.Constant) and isinstance(s.value.value, str))]
    return all(isinstance(s, ast.Expr) and isinstance(s.value, ast.Constant) and s.value.value is Ellipsis for s in stmts) or (
        len(stmts) == 1 and isinstance(stmts[0], ast.Pass)
    )


def concrete_mv_classes(table: ClassTable) -> list[ClassInfo]:
    out = []
    for c in table.operators():
        r = table.resolve(c, 'mv')
        if r is None or not isinstance(r.node, (ast.FunctionDef, ast.Lambda)):
            continue
        if isinstance(r.node, ast.FunctionDef) and is_abstract_body(r.node):
            continue
        out.append(c)
    return out


def summarise(world: World, table: ClassTable, cls: ClassInfo, method: str = 'mv', arg: Any = None) -> MvSummary:
    r = table.resolve(cls, method)
    assert r is not None
    ki = KindInterp(world, table)
    args = [] if method != 'mv' else [arg if arg is not None else Lin('Id')]
    v = ki.analyse_method(cls, method, args)
    return MvSummary(cls, r.node, r.owner, v, ki.taints, ki.unknowns, ki.creations, ki.casts)


def all_mv(ctx) -> dict[str, MvSummary]:
    if 'mv_kinds' not in ctx.cache:
        ctx.cache['mv_kinds'] = {c.qual: summarise(ctx.world, ctx.table, c) for c in concrete_mv_classes(ctx.table)}
    return ctx.cache['mv_kinds']

"""Shared memo tables: a value computed from one instance and stored in a module-level container must be keyed by
everything of the instance it depends on.

An effect / dependency analysis over the syntax tree (nothing is run):

* a *memo store* is `NAME[key] = value` or `NAME.setdefault(key, value)` inside a method, where NAME is bound at module
  level to a mutable container (dict / list literal or constructor);
* deps(e) is the set of declared fields of `self` that e can read: `self.f` directly, and - through the methods and
  properties of the class that e calls or captures as bound methods (a bound method keeps its instance) - what those read,
  transitively; `getattr(self, name)` is followed when the possible names are the string constants of a class-level table or
  of a local expression, and is otherwise unknown; `self` escaping as a whole is unknown;
* the rule: deps(value) is included in deps(key).  When it is not, two instances that agree on the key and differ in a
  field outside it share one stored value: the second one silently computes with the first one's field.
"""

from __future__ import annotations

import ast
from dataclasses import dataclass, field

from .classes import ClassInfo, ClassTable
from .loader import World, module_of

TOP = '<unknown>'
MUTABLE_CALLS = {'dict', 'list', 'set', 'defaultdict', 'OrderedDict', 'WeakValueDictionary', 'WeakKeyDictionary'}


@dataclass
class MemoStore:
    cls: ClassInfo
    method: ast.FunctionDef
    node: ast.AST
    container: str
    key_deps: set[str]
    value_deps: set[str]
    unknown: list[str] = field(default_factory=list)
    key_is_instance: bool = False  # the key mentions the instance as a whole (id(self), self): it covers every field

    @property
    def missing(self) -> set[str]:
        return set() if self.key_is_instance else self.value_deps - self.key_deps


def _module_containers(module) -> set[str]:
    out = set()
    for name, d in module.defs.items():
        v = d.value if isinstance(d, (ast.Assign, ast.AnnAssign)) else None
        if v is None:
            continue
        if isinstance(v, (ast.Dict, ast.List, ast.Set)):
            out.add(name)
        elif isinstance(v, ast.Call):
            f = v.func
            n = f.id if isinstance(f, ast.Name) else f.attr if isinstance(f, ast.Attribute) else ''
            if n in MUTABLE_CALLS:
                out.add(name)
    return out


class Deps:
    def __init__(self, world: World, table: ClassTable, cls: ClassInfo):
        self.world, self.table, self.cls = world, table, cls
        self.fields = {f.name for f in table.fields(cls)}
        self.cache: dict[int, set[str]] = {}
        self.active: set[int] = set()
        self.unknown: list[str] = []

    def _local_values(self, fn: ast.FunctionDef) -> dict[str, list[ast.AST]]:
        out: dict[str, list[ast.AST]] = {}
        for n in ast.walk(fn):
            if isinstance(n, ast.Assign):
                for t in n.targets:
                    if isinstance(t, ast.Name):
                        out.setdefault(t.id, []).append(n.value)
                    elif isinstance(t, (ast.Tuple, ast.List)):
                        for e in t.elts:
                            if isinstance(e, ast.Name):
                                out.setdefault(e.id, []).append(n.value)
            elif isinstance(n, ast.AnnAssign) and isinstance(n.target, ast.Name) and n.value is not None:
                out.setdefault(n.target.id, []).append(n.value)
            elif isinstance(n, ast.NamedExpr) and isinstance(n.target, ast.Name):
                out.setdefault(n.target.id, []).append(n.value)
            elif isinstance(n, (ast.For, ast.comprehension)) and isinstance(n.target, ast.Name):
                out.setdefault(n.target.id, []).append(n.iter)
            elif isinstance(n, ast.AugAssign) and isinstance(n.target, ast.Name):
                out.setdefault(n.target.id, []).append(n.value)
        return out

    def of_method(self, fn: ast.FunctionDef) -> set[str]:
        if id(fn) in self.cache:
            return self.cache[id(fn)]
        if id(fn) in self.active:
            return set()
        self.active.add(id(fn))
        deps: set[str] = set()
        if fn.args.args and not any(isinstance(d, ast.Name) and d.id == 'staticmethod' for d in fn.decorator_list):
            selfname = fn.args.args[0].arg
            for st in fn.body:
                deps |= self.of_expr(st, fn, selfname, set())
        self.active.discard(id(fn))
        self.cache[id(fn)] = deps
        return deps

    def _strings(self, e: ast.AST, fn: ast.FunctionDef, selfname: str, seen: set[str]) -> set[str] | None:
        """The string constants e can evaluate to, or None."""
        if isinstance(e, ast.Constant) and isinstance(e.value, str):
            return {e.value}
        if isinstance(e, ast.Name) and e.id not in seen:
            vals = self._local_values(fn).get(e.id)
            if not vals:
                return None
            out: set[str] = set()
            for v in vals:
                s = self._strings(v, fn, selfname, seen | {e.id})
                if s is None:
                    return None
                out |= s
            return out
        # TABLE[...] / TABLE.get(...) over a class-level or module-level dict literal of string constants
        base = None
        if isinstance(e, ast.Subscript):
            base = e.value
        elif isinstance(e, ast.Call) and isinstance(e.func, ast.Attribute) and e.func.attr == 'get' and e.args:
            base = e.func.value
        if base is not None:
            d = None
            if isinstance(base, ast.Attribute) and isinstance(base.value, ast.Name) and base.value.id in (selfname, self.cls.name):
                d, _ = self.table.class_attr(self.cls, base.attr)
            elif isinstance(base, ast.Attribute) and isinstance(base.value, ast.Call) and isinstance(base.value.func, ast.Name) and base.value.func.id == 'type':
                d, _ = self.table.class_attr(self.cls, base.attr)
            elif isinstance(base, ast.Name):
                dd = module_of(fn).defs.get(base.id)
                d = dd.value if isinstance(dd, (ast.Assign, ast.AnnAssign)) else None
            elif isinstance(base, ast.Dict):
                d = base
            if isinstance(d, ast.Dict) and all(isinstance(v, ast.Constant) and isinstance(v.value, str) for v in d.values):
                return {v.value for v in d.values}
        if isinstance(e, ast.JoinedStr):
            # f'<prefix>{...}<suffix>': every method of the class whose name fits
            pre = e.values[0].value if e.values and isinstance(e.values[0], ast.Constant) else ''
            suf = e.values[-1].value if len(e.values) > 1 and isinstance(e.values[-1], ast.Constant) else ''
            names = {n for k in self.cls.mro for n in k.own if n.startswith(pre) and n.endswith(suf) and len(n) > len(pre) + len(suf)}
            return names or None
        if isinstance(e, ast.IfExp):
            a, b = self._strings(e.body, fn, selfname, seen), self._strings(e.orelse, fn, selfname, seen)
            return None if a is None or b is None else a | b
        return None

    def of_expr(self, e: ast.AST, fn: ast.FunctionDef, selfname: str, seen: set[str]) -> set[str]:
        deps: set[str] = set()
        locals_ = self._local_values(fn)
        consumed: set[int] = set()
        for n in ast.walk(e):
            if id(n) in consumed:
                continue
            if isinstance(n, ast.Attribute) and isinstance(n.value, ast.Name) and n.value.id == selfname:
                consumed.add(id(n.value))
                deps |= self.of_member(n.attr)
            elif isinstance(n, ast.Call) and isinstance(n.func, ast.Name) and n.func.id == 'getattr' and n.args and isinstance(n.args[0], ast.Name) and n.args[0].id == selfname:
                consumed.add(id(n.args[0]))
                names = self._strings(n.args[1], fn, selfname, set()) if len(n.args) > 1 else None
                if names is None:
                    self.unknown.append(f'getattr({selfname}, {ast.unparse(n.args[1]) if len(n.args) > 1 else "?"}) at line {n.lineno}: the attribute is not a known constant')
                    deps.add(TOP)
                else:
                    for nm in names:
                        deps |= self.of_member(nm)
            elif isinstance(n, ast.Name) and n.id == selfname and isinstance(n.ctx, ast.Load):
                self.unknown.append(f'{selfname} is passed on as a whole at line {n.lineno}')
                deps.add(TOP)
            elif isinstance(n, ast.Name) and isinstance(n.ctx, ast.Load) and n.id in locals_ and n.id not in seen:
                for v in locals_[n.id]:
                    deps |= self.of_expr(v, fn, selfname, seen | {n.id})
        return deps

    def of_member(self, name: str) -> set[str]:
        if name in self.fields:
            return {name}
        r = self.table.resolve(self.cls, name)
        if r is not None and isinstance(r.node, ast.FunctionDef):
            return self.of_method(r.node)
        return set()  # a class-level constant, or an inherited library attribute


def memo_stores(world: World, table: ClassTable, classes: list[ClassInfo] | None = None) -> list[MemoStore]:
    out: list[MemoStore] = []
    for cls in classes if classes is not None else list(table.classes.values()):
        containers = _module_containers(cls.module)
        if not containers:
            continue
        for name, fn in cls.own.items():
            if not isinstance(fn, ast.FunctionDef) or not fn.args.args:
                continue
            if any(isinstance(d, ast.Name) and d.id in ('staticmethod', 'classmethod') for d in fn.decorator_list):
                continue
            selfname = fn.args.args[0].arg
            local_names = {a.arg for a in fn.args.args + fn.args.kwonlyargs}
            for n in ast.walk(fn):
                key = value = cont = None
                if isinstance(n, ast.Assign) and len(n.targets) == 1 and isinstance(n.targets[0], ast.Subscript) and isinstance(n.targets[0].value, ast.Name):
                    cont, key, value = n.targets[0].value.id, n.targets[0].slice, n.value
                elif isinstance(n, ast.Call) and isinstance(n.func, ast.Attribute) and n.func.attr == 'setdefault' and isinstance(n.func.value, ast.Name) and len(n.args) == 2:
                    cont, key, value = n.func.value.id, n.args[0], n.args[1]
                if cont is None or cont not in containers or cont in local_names:
                    continue
                d = Deps(world, table, cls)
                vdeps = d.of_expr(value, fn, selfname, set())
                unknown = list(d.unknown)
                kd = Deps(world, table, cls)
                kdeps = kd.of_expr(key, fn, selfname, set())
                out.append(MemoStore(cls, fn, n, cont, kdeps - {TOP}, vdeps, unknown, TOP in kdeps))
    return out

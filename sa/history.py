"""Worlds built from a git revision or from a patch applied in memory (self-test helpers).

Nothing is written to /repo: `git show` reads objects, and patches are applied to a
temporary index-less copy through `git apply` on a scratch directory that is removed at once.
"""

from __future__ import annotations

import os
import shutil
import subprocess
import tempfile

from .loader import SRC_REL, AnalysisError, World


def world_at(root: str, rev: str) -> World:
    try:
        names = subprocess.run(
            ['git', '-C', root, 'ls-tree', '-r', '--name-only', rev, SRC_REL], check=True, capture_output=True, text=True
        ).stdout.split()
    except (subprocess.CalledProcessError, OSError) as exc:
        raise AnalysisError(f'cannot list {rev}: {exc}') from exc
    overrides = {}
    for name in names:
        if name.endswith('.py'):
            overrides[name] = subprocess.run(
                ['git', '-C', root, 'show', f'{rev}:{name}'], check=True, capture_output=True, text=True
            ).stdout
    world = World(root, overrides)
    # files that exist now but not at that revision are dropped
    for modname in list(world.modules):
        if world.modules[modname].relpath not in overrides:
            del world.modules[modname]
    return world


def world_with_patch(root: str, patch: str) -> World:
    patch = os.path.abspath(patch)
    tmp = tempfile.mkdtemp(prefix='furax-sa-')
    try:
        dst = os.path.join(tmp, SRC_REL)
        shutil.copytree(os.path.join(root, SRC_REL), dst, ignore=shutil.ignore_patterns('__pycache__'))
        r = subprocess.run(['patch', '-p1', '--fuzz=3', '--no-backup-if-mismatch', '-s', '-i', patch], cwd=tmp, capture_output=True, text=True)
        if r.returncode != 0:
            raise AnalysisError(f'cannot apply {patch}: {(r.stdout + r.stderr).strip()[:300]}')
        overrides = {}
        for dirpath, _, files in os.walk(dst):
            for fn in files:
                if fn.endswith('.py'):
                    full = os.path.join(dirpath, fn)
                    rel = os.path.relpath(full, tmp)
                    with open(full, encoding='utf-8') as f:
                        overrides[rel] = f.read()
        world = World(root, overrides)
        if world.digest() == World(root).digest():
            raise AnalysisError(f'{patch} changed nothing under src/furax')
        return world
    finally:
        shutil.rmtree(tmp, ignore_errors=True)

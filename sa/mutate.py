"""In-memory source variants, for positive controls and the self-test.

A variant is the current tree with one module's source replaced by the unparsed result of an
AST edit.  Nothing is written to disk.  Matching by unparsed text is used *only* to build
variants (never in a deciding rule); a vanished anchor raises AnalysisError so that a control
can never pass vacuously.
"""

from __future__ import annotations

import ast
from typing import Callable

from .loader import AnalysisError, World


def variant(world: World, modname: str, edit: Callable[[ast.Module], None]) -> World:
    if modname not in world.modules:
        raise AnalysisError(f'variant: module {modname} not found')
    if getattr(world, 'normalised', False):
        return _tree_variant(world, {modname: edit})
    module = world.modules[modname]
    tree = ast.parse(_source(world, module))
    edit(tree)
    ast.fix_missing_locations(tree)
    overrides = _overrides(world)
    overrides[module.relpath] = ast.unparse(tree) + '\n'
    return World(world.root, overrides)


def _tree_variant(world: World, edits: dict) -> World:
    """Variant of a normalised world: the edit is applied to copies of the trees the rules see (inlined nodes keep the
    module they were written in, which an unparse / re-parse round trip would lose)."""
    from .normalise import clone, world_from_trees

    trees = {n: clone(m.tree, n) for n, m in world.modules.items()}
    for modname, edit in edits.items():
        edit(trees[modname])
        ast.fix_missing_locations(trees[modname])
        for node in ast.walk(trees[modname]):
            if not getattr(node, '_omod', None):
                node._omod = modname  # type: ignore[attr-defined]
    return world_from_trees(world, trees)


def _source(world: World, module) -> str:
    """The text a variant starts from: the module as the rules see it (normalised trees are unparsed)."""
    if getattr(world, 'normalised', False):
        return ast.unparse(module.tree) + '\n'
    return module.source


def _overrides(world: World) -> dict:
    overrides = dict(world.overrides)
    if getattr(world, 'normalised', False):
        for m in world.modules.values():
            overrides[m.relpath] = ast.unparse(m.tree) + '\n'
    return overrides


def multi_variant(world: World, edits: dict[str, Callable[[ast.Module], None]]) -> World:
    for modname in edits:
        if modname not in world.modules:
            raise AnalysisError(f'variant: module {modname} not found')
    if getattr(world, 'normalised', False):
        return _tree_variant(world, edits)
    overrides = _overrides(world)
    for modname, edit in edits.items():
        if modname not in world.modules:
            raise AnalysisError(f'variant: module {modname} not found')
        module = world.modules[modname]
        tree = ast.parse(_source(world, module))
        edit(tree)
        ast.fix_missing_locations(tree)
        overrides[module.relpath] = ast.unparse(tree) + '\n'
    return World(world.root, overrides)


def _like(new: ast.AST, old: ast.AST) -> ast.AST:
    """New nodes resolve names in the module the replaced code was written in (inlined code keeps its origin)."""
    om = getattr(old, '_omod', None)
    if om:
        for n in ast.walk(new):
            n._omod = om  # type: ignore[attr-defined]
    return new


def find_def(tree: ast.AST, path: str) -> ast.AST:
    """'Class.method' / 'function' / 'Class' inside a module tree."""
    cur: ast.AST = tree
    for part in path.split('.'):
        body = getattr(cur, 'body', [])
        for node in body:
            if isinstance(node, (ast.ClassDef, ast.FunctionDef, ast.AsyncFunctionDef)) and node.name == part:
                cur = node
                break
        else:
            raise AnalysisError(f'variant anchor missing: {path}')
    return cur


def norm(src: str) -> str:
    return ast.unparse(ast.parse(src.strip()))


def norm_expr(src: str) -> str:
    return ast.unparse(ast.parse(src.strip(), mode='eval').body)


def replace_expr(scope: ast.AST, old: str, new: str, count: int | None = 1) -> None:
    """Replaces expression nodes whose unparsed text equals ``old`` by ``new`` inside scope."""
    old_n = norm_expr(old)
    hits = 0

    class T(ast.NodeTransformer):
        def generic_visit(self, node: ast.AST) -> ast.AST:
            nonlocal hits
            if isinstance(node, ast.expr) and ast.unparse(node) == old_n:
                hits += 1
                return _like(ast.parse(new.strip(), mode='eval').body, node)
            return super().generic_visit(node)

    T().visit(scope)
    if hits == 0 or (count is not None and hits != count):
        raise AnalysisError(f'variant anchor missing or ambiguous: expression {old!r} matched {hits} times')


def remove_stmt(scope: ast.AST, old: str, prefix: bool = False) -> None:
    """Removes the statement whose unparsed text equals (or starts with) ``old``."""
    old_n = norm(old) if not prefix else old.strip()
    hits = 0
    for node in ast.walk(scope):
        for fname in ('body', 'orelse', 'finalbody'):
            block = getattr(node, fname, None)
            if not isinstance(block, list):
                continue
            for st in list(block):
                if not isinstance(st, ast.stmt):
                    continue
                text = ast.unparse(st)
                if (prefix and text.startswith(old_n)) or (not prefix and text == old_n):
                    block.remove(st)
                    hits += 1
                    if not block:
                        block.append(ast.Pass())
    if hits != 1:
        raise AnalysisError(f'variant anchor missing or ambiguous: statement {old!r} matched {hits} times')


def replace_stmt(scope: ast.AST, old: str, new: str, prefix: bool = False) -> None:
    old_n = norm(old) if not prefix else old.strip()
    hits = 0
    new_nodes = ast.parse(_dedent(new)).body
    for node in ast.walk(scope):
        for fname in ('body', 'orelse', 'finalbody'):
            block = getattr(node, fname, None)
            if not isinstance(block, list):
                continue
            for i, st in enumerate(list(block)):
                if not isinstance(st, ast.stmt):
                    continue
                text = ast.unparse(st)
                if (prefix and text.startswith(old_n)) or (not prefix and text == old_n):
                    idx = block.index(st)
                    block[idx : idx + 1] = [_like(n, st) for n in new_nodes]
                    hits += 1
    if hits != 1:
        raise AnalysisError(f'variant anchor missing or ambiguous: statement {old!r} matched {hits} times')


def insert_before(scope: ast.AST, anchor: str, new: str, prefix: bool = True, after: bool = False) -> None:
    hits = 0
    new_nodes = ast.parse(_dedent(new)).body
    anchor_n = anchor.strip()
    for node in ast.walk(scope):
        for fname in ('body', 'orelse', 'finalbody'):
            block = getattr(node, fname, None)
            if not isinstance(block, list):
                continue
            for st in list(block):
                if isinstance(st, ast.stmt) and (
                    ast.unparse(st).startswith(anchor_n) if prefix else ast.unparse(st) == norm(anchor)
                ):
                    idx = block.index(st) + (1 if after else 0)
                    block[idx:idx] = new_nodes
                    hits += 1
    if hits != 1:
        raise AnalysisError(f'variant anchor missing or ambiguous: statement {anchor!r} matched {hits} times')


def _dedent(src: str) -> str:
    import textwrap

    return textwrap.dedent(src).strip() + '\n'


def edit_def(world: World, modname: str, path: str, fn: Callable[[ast.AST], None]) -> World:
    def edit(tree: ast.Module) -> None:
        fn(find_def(tree, path))

    return variant(world, modname, edit)

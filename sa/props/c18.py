"""C18 - results do not depend on JIT compilation or pytree round trips."""

from __future__ import annotations

import ast

from ..classes import OPERATOR_BASE
from ..initflow import InitFlow
from ..kinds import ARRAY_ANN, KindInterp, Par
from ..loader import AnalysisError, World, module_of
from ..mutate import edit_def, find_def, replace_expr, variant
from ..opkinds import all_mv
from ..paths import function_paths
from ..run import Control
from ..terms import path_env, show, term

LEVEL = 'other'
LAND = 'furax.landscapes'
REGISTER = ('jax.tree_util.register_pytree_node_class', 'jax.tree_util.register_pytree_node')
RULE_TEXT = (
    'every hand-registered pytree class (writer tree_flatten vs reader constructor), every declared field of every operator class, and '
    'every mv / kernel / helper (trace-taint walk) are enumerated; an obligation is one (class, key | field | function, clause) item'
)
EXPLANATION = (
    'Static decision of what makes jit == eager and flatten/unflatten an identity: (J1) for each hand-registered landscape the keys of the '
    'aux_data dict are accepted by, and cover the required parameters of, that class\'s own constructor (tree_unflatten is cls(**aux_data)), '
    'each key is fed from the like-named attribute, every concrete landscape is registered, and no static aux value is an array; (J2) '
    'every constructor assigns only declared fields and all of them, no array/operator-typed field is static; (J3) in every mv, kernel and '
    'helper the Python control flow, loop bounds, int()/range() and numpy calls only see static values (shapes, dtypes, static fields) - '
    'the necessary condition for tracing to reproduce eager execution; (J4) the jitted landscape method keeps self static and landscapes '
    'keep default hashing. Value equality jit vs eager inside XLA and 64-bit canonicalisation are not decided.'
)


def run(ctx, ck) -> None:
    world, table = ctx.world, ctx.table
    ck.trust('JAX/XLA: a traced function whose Python control flow depends only on static values computes the same array program as eager execution',
             'equinox: non-static fields are pytree leaves, static fields are part of the treedef')
    # ------------------------------------------------------------------ J1
    base = table.get(f'{LAND}.Landscape')
    lands = table.subclasses(base)
    registered = [c for c in lands if any(d in REGISTER for d in c.decorators)]
    ck.floor('J1', len(registered), 4, 'hand-registered pytree classes')
    for c in lands:
        def is_abstract_def(n) -> bool:
            return isinstance(n, ast.FunctionDef) and any(world.qualify(module_of(n), d) in ('abc.abstractmethod', 'abstractmethod') for d in n.decorator_list)

        declared = {n.name for k in (c.mro or [c]) for n in k.node.body if is_abstract_def(n)}
        abstract = any((r := table.resolve(c, name)) is not None and is_abstract_def(r.node) for name in declared)
        if abstract and c not in registered:
            # cannot be instantiated: there is no instance to flatten (registration is per concrete class)
            ck.ok('J1', c.node, f'{c.name} is abstract (unimplemented abstract methods): no instance exists to be flattened', instance=f'{c.name} registered', nontrivial=False)
            continue
        ck.expect('J1', c in registered, c.node, 'registered as a pytree node class', f'{c.name} is a landscape subclass without @register_pytree_node_class: flattening it yields the instance itself as a leaf', instance=f'{c.name} registered', nontrivial=False)
    round_trip_decided = _round_trip(ctx, ck, world, table, registered)
    j1_start = len(ck.obs)
    for c in registered:
        tf = table.resolve(c, 'tree_flatten')
        tu = table.resolve(c, 'tree_unflatten')
        init = table.resolve(c, '__init__')
        if tf is None or tu is None or init is None or not all(isinstance(r.node, ast.FunctionDef) for r in (tf, tu, init)):
            ck.bad('J1', c.node, f'{c.name}: tree_flatten / tree_unflatten / __init__ do not all resolve')
            continue
        # reader
        ut = _single(tu.node)
        cls_param = tu.node.args.args[0].arg
        aux_param = tu.node.args.args[1].arg
        reader_kw = ut == ('call', ('var', cls_param), (), (('**', ('var', aux_param)),))
        reader_pos = ut == ('call', ('var', cls_param), (('star', ('var', aux_param)),), ())
        if reader_pos:
            rets_f = [p for p in function_paths(tf.node) if p.exit == 'return']
            tt = term(rets_f[0].node.value, path_env(rets_f[0])) if len(rets_f) == 1 else None
            a = init.node.args
            pos_params = [p.arg for p in a.args[1:]]
            if tt is None or tt[0] != 'tuple' or len(tt) != 3 or tt[2][0] != 'tuple':
                ck.incomplete('J1', tf.node, 'positional aux_data protocol with an aux value that is not a tuple literal', instance=f'{c.name} writer')
                continue
            S = ('var', tf.node.args.args[0].arg)
            elems = tt[2][1:]
            bad = [(i, show(e), pos_params[i] if i < len(pos_params) else None) for i, e in enumerate(elems) if i >= len(pos_params) or e != ('attr', S, pos_params[i])]
            detail = f'position {bad[0][0] + 1} receives {bad[0][1]} where `{bad[0][2]}` is expected' if bad else ''
            ck.expect('J1', not bad, tf.node, f'{c.name}: positional aux_data {[show(e) for e in elems]} lines up with the constructor parameters {pos_params[:len(elems)]}',
                      f'{c.name}.tree_flatten emits its static data positionally as {[show(e) for e in elems]} and tree_unflatten calls cls(*aux_data), but {init.owner.name}.__init__ takes {pos_params}: '
                      f'{detail} - the round trip builds a different landscape (or raises)', instance=f'{c.name} positional aux order')
            continue
        if not reader_kw:
            ck.incomplete('J1', tu.node, f'tree_unflatten is {show(ut)}, not cls(**aux_data)', instance=f'{c.name} reader')
            continue
        # writer
        keys = _aux_keys(tf.node, table, c)
        if keys is None:
            ck.incomplete('J1', tf.node, 'tree_flatten does not return ((), <dict literal>)', instance=f'{c.name} writer')
            continue
        a = init.node.args
        params = [p.arg for p in a.args[1:]] + [p.arg for p in a.kwonlyargs]
        ndef = len(a.defaults)
        required = [p.arg for p in a.args[1:len(a.args) - ndef]] + [p.arg for p, d in zip(a.kwonlyargs, a.kw_defaults) if d is None]
        extra = [k for k in keys if k not in params] if a.kwarg is None else []
        missing = [p for p in required if p not in keys]
        where = tf.node
        ck.expect('J1', not extra, where, f'{c.name}: every aux key {sorted(keys)} is a parameter of {init.owner.name}.__init__',
                  f'{c.name}.tree_flatten (defined on {tf.owner.name}) emits {extra} but {init.owner.name}.__init__ accepts {params}: tree_unflatten = cls(**aux_data) raises TypeError, so does any jit that takes such a landscape', instance=f'{c.name} keys accepted')
        ck.expect('J1', not missing, where, f'{c.name}: every required constructor parameter is emitted',
                  f'{c.name}.tree_flatten does not emit the required constructor parameter(s) {missing}: the round trip raises TypeError', instance=f'{c.name} keys complete')
        S = ('var', tf.node.args.args[0].arg)
        wrong = [k for k, v in keys.items() if v != ('attr', S, k)]
        ck.expect('J1', not wrong, where, 'each key is fed from the like-named attribute', f'{c.name}: aux keys {wrong} are not fed from self.<key>: the round trip changes the object', instance=f'{c.name} keys source')
        # array-typed static aux data
        ann = {p.arg: p.annotation for p in list(a.args[1:]) + list(a.kwonlyargs)}
        for k in keys:
            an = ann.get(k)
            if an is not None and ARRAY_ANN.search(ast.unparse(an)):
                ck.bad('J1', c.node, f'{c.name} keeps `{k}` ({ast.unparse(an)}) in the static aux_data of its pytree: static data must be hashable and comparable, '
                       'an array is neither (treedef comparison is ambiguous / jit with such a landscape as static or cached argument fails)', instance=f'{c.name} static aux {k} is an array')
        # every attribute assigned by the constructor chain that the class reads back is reproduced: attrs set in __init__ chain
        ck.ok('J1', where, f'{c.name}: writer/reader agreement over keys {sorted(keys)}', instance=f'{c.name} summary', nontrivial=False)


    if round_trip_decided:
        # the writer/reader table clauses describe the cls(**aux_data) protocol; where the protocol is written another way
        # they cannot follow it, and the evaluation of the round trip (J7) stands
        kept = []
        for i, o in enumerate(ck.obs):
            if i >= j1_start and o.rule.endswith('J1') and o.status == 'incomplete' and any(w in o.construct for w in (' reader', ' writer')):
                ck.note(f'{o.rule} [{o.construct}] not decided structurally ({o.how[:100]}); superseded by J7')
                continue
            kept.append(o)
        ck.obs[:] = kept

    # ------------------------------------------------------------------ J2
    flow = InitFlow(world, table)
    ki = KindInterp(world, table)
    nfields = 0
    statics = []
    for cls in table.operators():
        rep = flow.analyse(cls)
        for pr in rep.problems:
            if pr.kind in ('undeclared-store', 'unassigned-field'):
                ck.bad('J2', pr.node if pr.kind == 'undeclared-store' else (rep.init or cls.node), f'{cls.name}: {pr.detail}', instance=f'{cls.name} {pr.kind} {",".join(pr.fields)}')
        for f in cls.own_fields:
            nfields += 1
            if f.static:
                statics.append(f'{cls.name}.{f.name}')
                v = ki.field_value(FieldProxy(f))
                arr = ARRAY_ANN.search(f.ann_text) and 'ShapeDtypeStruct' not in f.ann_text
                oper = ki._names_operator(f)
                ck.expect('J2', not arr and not oper, f.node, f'static field {f.name}: {f.ann_text} is metadata (not an array, not an operator)',
                          f'{cls.name}.{f.name}: {f.ann_text} is declared static: an array/operator in static metadata is baked into the trace as a constant and must be hashable', instance=f'{cls.name}.{f.name} static')
    ck.floor('J2', nfields, 30, 'declared operator fields')
    ck.note(f'static fields: {statics}')

    # ------------------------------------------------------------------ J3
    kinds = all_mv(ctx)
    ck.floor('J3', len(kinds), 24, 'mv methods walked')
    for q, s in kinds.items():
        if s.taints:
            for t in s.taints:
                if t.definite:
                    ck.bad('J3', t.node, f'{s.cls.name}.mv is not trace-safe: {t.why}', instance=f'{s.cls.name} taint', semantic='NumPy forces a traced value' in t.why and 'Par' in t.why)  # a field (Par) reaching a NumPy call through resolved calls is a flow fact, not a written form; what depends on inferred staticness (shapes, loop bounds) is not
                else:
                    ck.incomplete('J3', t.node, f'{s.cls.name}.mv: cannot decide trace safety: {t.why}', instance=f'{s.cls.name} taint')
        else:
            ck.ok('J3', s.fn, f'{s.cls.name}.mv: control flow, loop bounds, int()/range() and numpy calls only see static values', instance=s.cls.name)
    pack = table.by_name('PackOperator')
    ck.note('PackOperator selects through a boolean mask array (data-dependent output shape): the property\'s stated exception for argument-passing jit')

    # J5: no memoisation of values computed from (possibly traced) fields
    CACHING = {'functools.cached_property', 'functools.lru_cache', 'functools.cache', 'equinox.internal.cached_property'}
    nmeth = 0
    for cls in table.operators():
        for name, node in cls.own.items():
            if not isinstance(node, ast.FunctionDef):
                continue
            nmeth += 1
            for d in node.decorator_list:
                q = world.qualify(cls.module, d.func if isinstance(d, ast.Call) else d)
                if q in CACHING:
                    ck.bad('J3', node, f'{cls.name}.{name} is memoised with {q}: a value computed from the operator\'s (possibly traced) fields is stored on the instance / in a '
                           'global cache, so the first call under jit leaks a tracer into later eager or differently-traced calls (and frozen modules cannot hold the cache)', instance=f'{cls.name}.{name} cached', semantic=True)  # the presence of the decorator decides
    ck.floor('J3', nmeth, 100, 'operator methods scanned for memoisation')

    # J8: the captured configuration is static metadata of the lazy inverse: a jit that takes the operator as an argument keys
    # its cache on the equality of that metadata, so every setting the solve depends on must take part in it (shared with C19.K5)
    from . import c19 as _c19

    _sub19 = type(ck)(ck.pid)
    _c19.run(ctx, _sub19)
    for _o in _sub19.obs:
        if _o.rule.endswith('K5') and ('compared' in _o.construct or _o.construct.endswith('[eq]')):
            _o.rule = f'{ck.pid}.J8'
            ck.obs.append(_o)
    ck.floor('J8', sum(1 for o in ck.obs if o.rule.endswith('J8')), 4, 'settings of the captured configuration')

    # J2b: non-static fields annotated with a Python scalar type must not receive NumPy/JAX values
    for cls in table.operators():
        for f in cls.own_fields:
            if f.static or not _python_scalar_ann(f.ann_text):
                continue
            init = table.resolve(cls, '__init__')
            if init is None or not isinstance(init.node, ast.FunctionDef):
                continue
            S = init.node.args.args[0].arg
            for st in ast.walk(init.node):
                if isinstance(st, ast.Assign) and any(isinstance(t, ast.Attribute) and isinstance(t.value, ast.Name) and t.value.id == S and t.attr == f.name for t in st.targets):
                    kind, why = _pyness(world, table, cls, init.node, st.value, 0)
                    if kind == 'array':
                        ck.bad('J2', st, f'{cls.name}.{f.name} is declared {f.ann_text} (a Python value, static under a filtering jit) but can be assigned a NumPy/JAX value ({why}): '
                               'it then becomes an array leaf, is traced when the operator is a jit argument, and Python-level uses of it (FFT sizes, loop bounds) fail or retrace', instance=f'{cls.name}.{f.name} python scalar')
                    elif kind == 'py':
                        ck.ok('J2', st, f'{cls.name}.{f.name}: assigned a Python value ({why})', instance=f'{cls.name}.{f.name} python scalar')

    # ------------------------------------------------------------------ J4
    hp = table.get(f'{LAND}.HealpixLandscape')
    w2p = hp.own.get('world2pixel')
    ok = False
    if isinstance(w2p, ast.FunctionDef):
        for d in w2p.decorator_list:
            t = term(d)
            if t[0] == 'call' and t[1] in (('var', 'partial'), ('attr', ('var', 'functools'), 'partial')) and t[2] and t[2][0] == ('attr', ('var', 'jax'), 'jit'):
                kws = dict(t[3])
                ok = kws.get('static_argnums') in (('const', '0'), ('tuple', ('const', '0'))) or kws.get('static_argnames') in (('const', "'self'"),)
    ck.expect('J4', ok, w2p or hp.node, 'world2pixel is jitted with self static (nside is a Python int inside the trace)', 'HealpixLandscape.world2pixel is no longer jitted with self as a static argument', instance='self static')
    for c in lands:
        for name in ('__eq__', '__hash__'):
            ck.expect('J4', name not in c.own, c.node, f'{c.name} keeps default {name}', f'{c.name} overrides {name}: static-argument hashing of landscapes changes', instance=f'{c.name}{name}', nontrivial=False)


    # ------------------------------------------------------------------ J5 application reads no ambient state
    _ambient(ctx, ck, world, table)

    # ------------------------------------------------------------------ J6 the factor of a scalar multiple is stored as an array
    _scalar_leaf(ctx, ck, world, table)


def _round_trip(ctx, ck, world, table, registered) -> bool:
    """J7: flattening a hand-registered pytree object and unflattening what it yields gives back an object with the same
    attributes - decided by evaluating constructor, tree_flatten and tree_unflatten of every registered class on symbolic /
    representative arguments (sa/axinterp.py), whatever the protocol is written with (cls(**aux), a table of field names and
    setattr ...).  An attribute set by a constructor and missing after the round trip is reported.  Returns True if decided."""
    from ..axinterp import AxArr, ClassRef, Env, Func, Interp, Obj, Opaque, Raised, Ref, Undecided, UNK

    decided = True
    for c in registered:
        it = Interp(world, table, budget=100_000)
        it.constructible = {k.qual for k in registered} | {k.qual for k in c.mro}
        init = table.resolve(c, '__init__')
        if init is None or not isinstance(init.node, ast.FunctionDef):
            continue
        # representative arguments by parameter name
        reps = {'shape': (4, 6), 'pixel_shape': None, 'nside': 2, 'stokes': 'IQU', 'dtype': Ref('numpy.float32'), 'frequencies': AxArr(((frozenset({'f'}), 3),), 'float64')}
        params = [a.arg for a in init.node.args.args[1:]] + [a.arg for a in init.node.args.kwonlyargs]
        kwargs = {}
        ok_args = True
        defaults = dict(zip([a.arg for a in init.node.args.args][len(init.node.args.args) - len(init.node.args.defaults):], init.node.args.defaults))
        for p_ in params:
            if p_ in reps:
                if reps[p_] is not None:
                    kwargs[p_] = reps[p_]
            elif p_ not in defaults:
                ok_args = False
        if not ok_args:
            ck.incomplete('J7', init.node, f'{c.name}: no representative value for a constructor parameter among {params}', instance=f'{c.name} round trip')
            decided = False
            continue
        try:
            obj = it.construct(c, **kwargs)
            before = dict(obj.attrs)
            flat = it.call_method(obj, 'tree_flatten')
            if not (isinstance(flat, tuple) and len(flat) == 2):
                raise Undecided('tree_flatten does not return (children, aux_data)')
            children, aux = flat
            tu = table.resolve(c, 'tree_unflatten')
            if tu is None or not isinstance(tu.node, ast.FunctionDef):
                raise Undecided('tree_unflatten does not resolve')
            rebuilt = it.call(it.get_attr(ClassRef(c), 'tree_unflatten', None), [aux, children], {}, None)
        except Raised as exc:
            ck.bad('J7', c.node, f'{c.name}: the flatten / unflatten round trip raises {exc.name}', instance=f'{c.name} round trip')
            continue
        except Undecided as exc:
            ck.incomplete('J7', c.node, f'{c.name}: the flatten / unflatten round trip could not be followed: {exc}', instance=f'{c.name} round trip')
            decided = False
            continue
        if not isinstance(rebuilt, Obj) or it.degraded:
            ck.incomplete('J7', c.node, f'{c.name}: the object rebuilt by tree_unflatten could not be followed ({it.degraded[:1]})', instance=f'{c.name} round trip')
            decided = False
            continue
        lost = sorted(k for k in before if k not in rebuilt.attrs)
        changed = sorted(k for k in before if k in rebuilt.attrs and rebuilt.attrs[k] != before[k] and rebuilt.attrs[k] is not before[k])
        ck.expect('J7', not lost and not changed and rebuilt.cls is c, c.node, f'{c.name}: after flatten / unflatten every attribute set by the constructors ({sorted(before)}) is restored',
                  f'{c.name}: after a flatten / unflatten round trip ' + (f'the attributes {lost} are missing' if lost else f'the attributes {changed} differ' if changed else f'the object is a {rebuilt.cls.name}')
                  + ': methods reading them fail (or answer differently) on any landscape that went through jit, tree.map or a pytree copy', instance=f'{c.name} round trip')
    return decided


def _scalar_leaf(ctx, ck, world, table) -> None:
    """J6: k * A and A / k store jnp.asarray(k) in the (dynamic) field of the scalar operator.  A Python number stored there
    is not a leaf for a filtering jit: it becomes static metadata compared with ==, and 3 == 3.0 == True, so the code
    compiled for one factor is reused for another one of a different type."""
    base = table.get(OPERATOR_BASE)
    hom = table.by_name('HomothetyOperator')
    init = hom.own.get('__init__')
    converts_in_init = False
    if isinstance(init, ast.FunctionDef) and len(init.args.args) > 1:
        me, v = init.args.args[0].arg, init.args.args[1].arg
        for p in function_paths(init):
            if p.exit not in ('return', 'fall'):
                continue
            env = path_env(p)
            stored = env.get(('attr', ('var', me), 'value')) or env.get(f'{me}.value')
            if stored is not None and _asarray_of(stored, v):
                converts_in_init = True
    n = 0
    for name in ('__rmul__', '__truediv__'):
        r = table.resolve(base, name)
        if r is None or not isinstance(r.node, ast.FunctionDef) or len(r.node.args.args) < 2:
            raise AnalysisError(f'anchor vanished: AbstractLinearOperator.{name}')
        fn = r.node
        other = fn.args.args[1].arg
        for p in function_paths(fn):
            if p.exit != 'return' or not isinstance(p.node, ast.Return) or p.node.value is None:
                continue
            rt = term(p.node.value, path_env(p))
            calls = [t for t in _subterms(rt) if len(t) > 2 and t[0] == 'call' and t[1] == ('var', hom.name) and t[2]]
            for c in calls:
                n += 1
                ok = converts_in_init or _asarray_of(c[2][0], other)
                ck.expect('J6', ok, fn, f'{name}: the factor handed to the scalar operator is jnp.asarray(k) ({show(c[2][0])[:60]})',
                          f'{name}: the factor handed to the scalar operator is {show(c[2][0])[:80]}, not an array made from it: a Python number is static metadata for a filtering jit, '
                          'and since 3 == 3.0 the program compiled for one factor is silently reused for a factor of another type', instance=f'{name} factor is an array')
    ck.floor('J6', n, 2, 'scalar operators built by the arithmetic dunders')


def _subterms(t):
    if isinstance(t, tuple):
        yield t
        for x in t:
            yield from _subterms(x)


def _asarray_of(t, param: str) -> bool:
    """The term is an array built from the parameter: jnp.asarray(param), or arithmetic on it with constants."""
    if not isinstance(t, tuple) or not t:
        return False
    if len(t) > 2 and t[0] == 'call' and isinstance(t[1], tuple) and show(t[1]).replace('jax.numpy', 'jnp') in ('jnp.asarray', 'jnp.array', 'np.asarray', 'np.array'):
        return bool(t[2]) and any(x == ('var', param) for x in _subterms(t[2][0]))
    if t[0] == 'binop' and len(t) == 4:
        a, b = t[2], t[3]
        return (_asarray_of(a, param) and (b[0] == 'const' or _asarray_of(b, param))) or (_asarray_of(b, param) and a[0] == 'const')
    if t[0] in ('neg', 'unop') and len(t) >= 2:
        return _asarray_of(t[-1], param)
    return False


AMBIENT_CALLS = ('os.getenv', 'os.environ.get', 'time.time', 'time.monotonic', 'time.perf_counter', 'random.random', 'random.randint', 'random.uniform',
                 'numpy.random.rand', 'numpy.random.randn', 'numpy.random.random', 'numpy.random.uniform', 'numpy.random.normal', 'numpy.random.randint')


def _ambient(ctx, ck, world, table) -> None:
    """J5: nothing reachable from an mv/__call__ reads state that is not part of the operator or the input.

    A jitted function runs such a read once, when it is traced, and bakes the value into the compiled code; eager application
    re-reads it at every call.  Context variables, environment variables, clocks and global random generators are the
    ambient sources looked for; the call graph is the over-approximate one of sa/callgraph.py."""
    from ..callgraph import CallGraph
    from ..loader import enclosing, qualname

    graph = ctx.cache.get('callgraph')
    if graph is None or graph.world is not world:
        graph = CallGraph(world, table)
    ctxvars = set()
    for module in world.modules.values():
        for st in module.tree.body:
            if isinstance(st, (ast.Assign, ast.AnnAssign)) and isinstance(st.value, ast.Call) and world.qualify(module, st.value.func) == 'contextvars.ContextVar':
                for tg in (st.targets if isinstance(st, ast.Assign) else [st.target]):
                    if isinstance(tg, ast.Name):
                        ctxvars.add(f'{module.name}.{tg.id}')
    readers: dict[str, tuple[ast.AST, str]] = {}
    for module in world.modules.values():
        for node in ast.walk(module.tree):
            what = None
            if isinstance(node, ast.Call):
                q = world.qualify(module, node.func) or ''
                if isinstance(node.func, ast.Attribute) and node.func.attr == 'get' and (world.qualify(module, node.func.value) or '') in ctxvars:
                    what = f'the context variable {ast.unparse(node.func.value)}'
                elif q in AMBIENT_CALLS:
                    what = q
            elif isinstance(node, ast.Subscript) and (world.qualify(module, node.value) or '') == 'os.environ':
                what = 'os.environ'
            if what:
                top = enclosing(node, (ast.FunctionDef,))
                while top is not None and enclosing(top, (ast.FunctionDef,)) is not None:
                    top = enclosing(top, (ast.FunctionDef,))
                if top is not None:
                    readers[qualname(top)] = (node, what)
    roots = [q for q, fn in graph.functions.items() if fn.name in ('mv', '__call__')]
    ck.floor('J5', len(roots), 20, 'mv/__call__ roots')
    ck.floor('J5', len(ctxvars), 1, 'context variables of the package')
    # object construction captures what it reads (InverseOperator stores the configuration in a static field: C19.K6);
    # only reads outside constructors happen anew at every application
    def ctor(q: str) -> bool:
        return q.rsplit('.', 1)[-1] in ('__init__', '__post_init__', '__new__', '__init_subclass__')

    reach = graph.reachable(roots, skip=ctor)
    nbad = 0
    for q, (node, what) in sorted(readers.items()):
        if ctor(q):
            continue
        if q in reach:
            root = next((r for r in roots if graph.path(r, q, skip=ctor)), None)
            chain = ' -> '.join(graph.path(root, q, skip=ctor) or []) if root else q
            nbad += 1
            ck.bad('J5', node, f'{what} is read while an operator is applied ({chain}): under jit the value seen when the function was first traced is compiled in, '
                   'eager application re-reads it at every call, so the two differ as soon as the ambient value changes between calls', instance=f'{q.split(".")[-2]}.{q.split(".")[-1]} reads ambient state')
    if not nbad:
        ck.ok('J5', graph.functions[roots[0]], f'{len(readers)} readers of ambient state ({sorted(readers)}), none reachable from the {len(roots)} mv/__call__ roots', instance='no ambient reads at application time')


def _python_scalar_ann(text: str) -> bool:
    import re

    return re.sub(r'\b(int|bool|str|float|None|Optional)\b|[\[\]| ,]', '', text) == '' and text.strip() != ''


def _pyness(world, table, cls, fn: ast.FunctionDef, e: ast.AST, depth: int):
    """'py' (Python scalar), 'array' (NumPy/JAX value) or 'unknown' for an expression inside fn."""
    if depth > 14:
        return 'unknown', 'too deep'
    if isinstance(e, ast.Constant):
        return 'py', 'literal'
    if isinstance(e, ast.Name):
        is_param = e.id in {a.arg for a in fn.args.args + fn.args.kwonlyargs}
        # the reaching definitions of a local (a parameter may be rebound too)
        kinds = [('py', f'parameter {e.id} (trusted to match its annotation)')] if is_param else []
        for st in ast.walk(fn):
            if isinstance(st, ast.Assign) and any(isinstance(t, ast.Name) and t.id == e.id for t in st.targets):
                kinds.append(_pyness(world, table, cls, fn, st.value, depth + 1))
        if any(k[0] == 'array' for k in kinds):
            return next(k for k in kinds if k[0] == 'array')
        if kinds and all(k[0] == 'py' for k in kinds):
            return 'py', 'all reaching definitions are Python values'
        return 'py', 'no local definition'
    if isinstance(e, ast.Call):
        f = e.func
        if isinstance(f, ast.Name) and f.id in ('int', 'float', 'bool', 'len', 'str', 'round', 'min', 'max', 'abs', 'sum'):
            return 'py', f'{f.id}(...)'
        q = world.qualify(module_of(e), f)
        if q and (q.startswith('numpy.') or q.startswith('jax.')):
            return 'array', f'result of {q}'
        if isinstance(f, ast.Attribute) and f.attr in ('item', 'tolist', '__int__', '__index__'):
            return 'py', f'.{f.attr}()'
        if isinstance(f, ast.Attribute) and f.attr in ('astype', 'sum', 'prod', 'max', 'min'):
            inner = _pyness(world, table, cls, fn, f.value, depth + 1)
            return ('array', f'.{f.attr}() of {inner[1]}') if inner[0] == 'array' else inner
        # helper method / function of the package: join of its returns
        target = None
        if isinstance(f, ast.Attribute) and isinstance(f.value, ast.Name):
            r = table.resolve(cls, f.attr)
            target = r.node if r is not None and isinstance(r.node, ast.FunctionDef) else None
        elif q:
            t = world.lookup(q)
            target = t if isinstance(t, ast.FunctionDef) else None
        if target is not None:
            kinds = [_pyness(world, table, cls, target, r.value, depth + 1) for r in ast.walk(target) if isinstance(r, ast.Return) and r.value is not None]
            if any(k[0] == 'array' for k in kinds):
                k = next(k for k in kinds if k[0] == 'array')
                return 'array', f'{target.name}() returns {k[1]}'
            if kinds and all(k[0] == 'py' for k in kinds):
                return 'py', f'{target.name}() returns Python values'
        return 'unknown', ast.unparse(e)[:40]
    if isinstance(e, ast.BinOp):
        l, r = _pyness(world, table, cls, fn, e.left, depth + 1), _pyness(world, table, cls, fn, e.right, depth + 1)
        for k in (l, r):
            if k[0] == 'array':
                return k
        if l[0] == r[0] == 'py':
            return 'py', 'arithmetic on Python values'
        return 'unknown', ast.unparse(e)[:40]
    if isinstance(e, ast.UnaryOp):
        return _pyness(world, table, cls, fn, e.operand, depth + 1)
    if isinstance(e, ast.IfExp):
        a, b = _pyness(world, table, cls, fn, e.body, depth + 1), _pyness(world, table, cls, fn, e.orelse, depth + 1)
        return a if a[0] == 'array' else b if b[0] == 'array' else (a if a[0] == b[0] else ('unknown', ''))
    if isinstance(e, ast.Attribute) and e.attr in ('shape', 'ndim', 'size'):
        return 'py', f'.{e.attr}'
    if isinstance(e, ast.Subscript):
        return _pyness(world, table, cls, fn, e.value, depth + 1)
    return 'unknown', ast.unparse(e)[:40]


class FieldProxy:
    def __init__(self, f):
        self.__dict__.update(f.__dict__)


def _single(fn: ast.FunctionDef):
    rets = [p for p in function_paths(fn) if p.exit == 'return']
    if len(rets) != 1:
        return None
    return term(rets[0].node.value, path_env(rets[0]))


def _aux_keys(fn: ast.FunctionDef, table=None, cls=None):
    rets = [p for p in function_paths(fn) if p.exit == 'return']
    if len(rets) != 1:
        return None
    # table-driven form: {name: getattr(self, name) for name in self.<class attribute naming a tuple of strings>}
    rv = rets[0].node.value
    if isinstance(rv, ast.Tuple) and len(rv.elts) == 2 and isinstance(rv.elts[0], ast.Tuple) and not rv.elts[0].elts and table is not None and cls is not None and fn.args.args:
        d = rv.elts[1]
        if isinstance(d, ast.Name):
            binds = [st for st in rets[0].stmts() if isinstance(st, (ast.Assign, ast.AnnAssign)) and any(isinstance(t, ast.Name) and t.id == d.id for t in (st.targets if isinstance(st, ast.Assign) else [st.target]))]
            d = binds[-1].value if binds else d
        me = fn.args.args[0].arg
        if (isinstance(d, ast.DictComp) and len(d.generators) == 1 and not d.generators[0].ifs and isinstance(d.generators[0].target, ast.Name)
                and isinstance(d.key, ast.Name) and d.key.id == d.generators[0].target.id):
            var = d.generators[0].target.id
            it = d.generators[0].iter
            val_ok = (isinstance(d.value, ast.Call) and isinstance(d.value.func, ast.Name) and d.value.func.id == 'getattr' and len(d.value.args) == 2
                      and isinstance(d.value.args[0], ast.Name) and d.value.args[0].id == me and isinstance(d.value.args[1], ast.Name) and d.value.args[1].id == var)
            if val_ok and isinstance(it, ast.Attribute) and isinstance(it.value, ast.Name) and it.value.id == me:
                value, _owner = table.class_attr(cls, it.attr)
                if isinstance(value, (ast.Tuple, ast.List)) and all(isinstance(x, ast.Constant) and isinstance(x.value, str) for x in value.elts):
                    return {x.value: ('attr', ('var', me), x.value) for x in value.elts}
        return None if isinstance(d, ast.DictComp) else _aux_keys_literal(rets)
    return _aux_keys_literal(rets)


def _aux_keys_literal(rets):
    t = term(rets[0].node.value, path_env(rets[0]))
    if t[0] != 'tuple' or len(t) != 3 or t[1] != ('tuple',):
        return None
    d = t[2]
    if d[0] != 'dict':
        return None
    out = {}
    for k, v in d[1:]:
        if k[0] != 'const':
            return None
        out[eval(k[1])] = v
    return out


def controls(world: World) -> list[Control]:
    def add_key(tree):
        fn = find_def(tree, 'HealpixLandscape.tree_flatten')
        for n in ast.walk(fn):
            if isinstance(n, ast.Dict):
                n.keys.append(ast.Constant('shape'))
                n.values.append(ast.parse('self.shape', mode='eval').body)

    def static_array(tree):
        cls = find_def(tree, 'HomothetyOperator')
        for n in cls.body:
            if isinstance(n, ast.AnnAssign) and n.target.id == 'value':
                n.value = ast.parse('equinox.field(static=True)', mode='eval').body

    return [
        Control('aux-key-not-accepted', lambda w: variant(w, LAND, add_key), 'C18.J1'),
        Control('static-array-field', lambda w: variant(w, 'furax._base.core', static_array), 'C18.J2'),
        Control('numpy-sized-fft', lambda w: edit_def(w, 'furax.operators.toeplitz', 'SymmetricBandToeplitzOperator._get_default_fft_size', lambda fn: replace_expr(fn, 'int(2 ** (additional_power + np.ceil(np.log2(band_number))))', '2 ** (additional_power + np.ceil(np.log2(band_number)).astype(int))')), 'C18.J2'),
        Control('python-scalar-factor', lambda w: edit_def(w, 'furax._base.core', 'AbstractLinearOperator.__rmul__', lambda fn: replace_expr(fn, 'HomothetyOperator(other, self.out_structure())', 'HomothetyOperator(other.item(), self.out_structure())')), 'C18.J6'),
        Control('traced-branch', lambda w: edit_def(w, 'furax._base.core', 'HomothetyOperator.mv', lambda fn: replace_expr(fn, 'jax.tree.map(lambda leaf: self.value * leaf, x)', 'jax.tree.map(lambda leaf: self.value * leaf if self.value != 0 else leaf * 0, x)')), 'C18.J3'),
    ]

"""C09 - all Toeplitz methods compute the same banded product (structural necessary conditions only)."""

from __future__ import annotations

import ast

from ..kinds import KindInterp, Lin, Par, describe
from ..loader import AnalysisError, Incomplete, World, module_of
from ..mutate import edit_def, remove_stmt, replace_expr, variant
from ..paths import exception_name, function_paths
from ..run import Control
from ..terms import facts as path_facts
from ..terms import path_env, show, term
from . import c04

LEVEL = 'other'
TOE = 'furax.operators.toeplitz'
RULE_TEXT = (
    'the METHODS table, the dispatch branches, the constructor guards, every live kernel (abstractly interpreted with the input linear '
    'and the band values constant), every buffer creation, every size computation on the batched band values and the dense builder '
    'sharing are enumerated; an obligation is one (kernel | guard | site, clause) item'
)
EXPLANATION = (
    'STRUCTURAL NECESSARY CONDITIONS ONLY. Decided: every entry of METHODS has a dispatch branch returning an existing kernel and the '
    'constructor rejects anything else; illegal method, fft_size with a non-overlap method and fft_size below the band count are refused '
    'before any field is stored; each live kernel is linear in x with the band values as constants and trace-safe (loop bounds, int(), '
    'numpy calls only on static values); mv vectorises with signature (n),(k)->(n) over the leading axes, so the band count must be the '
    'length of the last axis of the band values; every buffer on a result path carries a data-derived dtype; a negative-stop slice '
    '[h:-h] is guarded against h == 0 (single band); irfft passes its output length; as_matrix and the dense method share one builder. '
    'NOT decided: equality of the four kernels, block-boundary arithmetic of the overlap methods, K > n - these are numeric.'
)


def run(ctx, ck) -> None:
    world, table = ctx.world, ctx.table
    cls = table.get(f'{TOE}.SymmetricBandToeplitzOperator')
    methods_node, _ = table.class_attr(cls, 'METHODS')
    if not isinstance(methods_node, ast.Tuple) or not all(isinstance(e, ast.Constant) for e in methods_node.elts):
        raise AnalysisError('anchor vanished: SymmetricBandToeplitzOperator.METHODS is not a tuple of string literals')
    methods = [e.value for e in methods_node.elts]
    ck.floor('Z1', len(methods), 4, 'evaluation methods')
    get_func = cls.own.get('_get_func')
    init = cls.own.get('__init__')
    mv = cls.own.get('mv')
    if not all(isinstance(x, ast.FunctionDef) for x in (get_func, init, mv)):
        raise AnalysisError('anchor vanished: SymmetricBandToeplitzOperator._get_func/__init__/mv')
    S = ('var', get_func.args.args[0].arg)
    # ------------------------------------------------------------------ Z1 dispatch
    branches: dict[str, str] = {}
    for p in function_paths(get_func):
        if p.exit != 'return':
            continue
        keys = [t for e, pol in p.conds() if pol for t in [term(e)] if t[0] == 'cmp' and t[1] == 'eq' and ('attr', S, 'method') in (t[2], t[3])]
        rt = term(p.node.value, path_env(p))
        if keys and rt[0] == 'attr' and rt[1] == S:
            k = keys[-1]
            lit = k[3] if k[2] == ('attr', S, 'method') else k[2]
            if lit[0] == 'const':
                branches[eval(lit[1])] = rt[2]
    # table dispatch: {'name': self._kernel, ...} looked up with self.method (subscript or .get)
    for d in [n for n in ast.walk(get_func) if isinstance(n, ast.Dict)]:
        entries = {}
        for k, v in zip(d.keys, d.values):
            vt = term(v) if v is not None else None
            if isinstance(k, ast.Constant) and isinstance(k.value, str) and vt is not None and vt[0] == 'attr' and vt[1] == S:
                entries[k.value] = vt[2]
        if not entries or len(entries) != len(d.keys):
            continue
        # the name the table is bound to (or the literal itself) must be indexed by self.method somewhere in the function
        holder = None
        up = getattr(d, '_parent', None)
        if isinstance(up, (ast.Assign, ast.AnnAssign)):
            tg = up.targets[0] if isinstance(up, ast.Assign) else up.target
            holder = tg.id if isinstance(tg, ast.Name) else None
        looked_up = False
        for n in ast.walk(get_func):
            base = None
            key = None
            if isinstance(n, ast.Subscript):
                base, key = n.value, n.slice
            elif isinstance(n, ast.Call) and isinstance(n.func, ast.Attribute) and n.func.attr == 'get' and n.args:
                base, key = n.func.value, n.args[0]
            if base is not None and (base is d or (holder and isinstance(base, ast.Name) and base.id == holder)) and term(key) == ('attr', S, 'method'):
                looked_up = True
        if looked_up:
            for k, v in entries.items():
                branches.setdefault(k, v)
    # name dispatch: getattr(self, f'<prefix>{self.method}<suffix>'[, default]) reaches the kernel named after the method
    for n in ast.walk(get_func):
        if isinstance(n, ast.Call) and isinstance(n.func, ast.Name) and n.func.id == 'getattr' and len(n.args) >= 2 and term(n.args[0]) == S and isinstance(n.args[1], ast.JoinedStr):
            parts = n.args[1].values
            pieces = []
            for v in parts:
                if isinstance(v, ast.Constant) and isinstance(v.value, str):
                    pieces.append(v.value)
                elif isinstance(v, ast.FormattedValue) and term(v.value) == ('attr', S, 'method') and v.conversion == -1 and v.format_spec is None:
                    pieces.append(None)
                else:
                    pieces = []
                    break
            if pieces.count(None) == 1:
                for m in methods:
                    branches.setdefault(m, ''.join(m if x is None else x for x in pieces))
    # any other dispatch: _get_func evaluated (sa/axinterp.py) on an operator whose method is m
    missing = [m for m in methods if not isinstance(cls.own.get(branches.get(m) or ''), ast.FunctionDef)]
    evaluated_raise: dict[str, str] = {}
    if missing:
        from ..axinterp import Func, Interp, Obj, Raised, Undecided

        for m in missing:
            it = Interp(world, table, budget=20_000)
            try:
                res = it.call_method(Obj(cls, {'method': m}), '_get_func')
            except Raised as exc:
                evaluated_raise[m] = exc.name
                continue
            except Undecided:
                continue
            if isinstance(res, Func) and isinstance(res.node, ast.FunctionDef) and cls.own.get(res.node.name) is res.node and not it.degraded:
                branches[m] = res.node.name
    _shared_memos(ctx, ck, cls)
    live: dict[str, ast.FunctionDef] = {}
    for m in methods:
        target = branches.get(m)
        fn = cls.own.get(target) if target else None
        ck.expect('Z1', isinstance(fn, ast.FunctionDef), get_func, f'method {m!r} dispatches to {target}',
                  f'method {m!r} is advertised in METHODS but has no dispatch branch returning an existing kernel: applying the operator raises' + (f' ({evaluated_raise[m]} when _get_func is evaluated)' if m in evaluated_raise else ''),
                  instance=f'dispatch {m}', semantic=m in evaluated_raise)
        if isinstance(fn, ast.FunctionDef):
            live[m] = fn
    I = ('var', init.args.args[0].arg)
    from ..terms import raise_paths

    raises = [p for p in function_paths(init) if p.exit == 'raise' and exception_name(p.node) == 'ValueError']
    rfacts = [fs for fs, _e, _p in raise_paths(init, 'ValueError')]
    bad_method = any(('in', ('var', 'method'), ('attr', I, 'METHODS'), False) in fs for fs in rfacts)
    accepted_other = None
    if not bad_method:
        # the membership test is made against another class-level collection: its elements (keys, for a table) are what is accepted
        for fs in rfacts:
            for f in fs:
                if f[0] == 'in' and f[1] == ('var', 'method') and f[3] is False and f[2][0] == 'attr' and f[2][1] in (I, ('var', cls.name)):
                    node_, _k = table.class_attr(cls, f[2][2])
                    elts = node_.keys if isinstance(node_, ast.Dict) else node_.elts if isinstance(node_, (ast.Tuple, ast.List, ast.Set)) else None
                    if elts is not None and all(isinstance(e, ast.Constant) and isinstance(e.value, str) for e in elts):
                        accepted_other = (f[2][2], sorted(e.value for e in elts))
    if accepted_other is not None:
        extra = sorted(set(accepted_other[1]) - set(methods))
        ck.expect('Z1', not extra, init, f'a method outside METHODS is refused (the test is made against {accepted_other[0]}, which holds the same names)',
                  f'the constructor accepts the methods of {accepted_other[0]} = {accepted_other[1]}: {extra} is accepted although it is not one of METHODS = {sorted(methods)} (the methods that are validated to compute T x)',
                  instance='unknown method', semantic=True)
    else:
        ck.expect('Z1', bad_method, init, 'a method outside METHODS is refused', 'an unknown evaluation method is no longer refused at construction', instance='unknown method')

    # ------------------------------------------------------------------ Z2 validation
    starts = ('call', ('attr', ('var', 'method'), 'startswith'), (('const', "'overlap_'"),), ())
    g_fft_method = any(('isnot', frozenset({('var', 'fft_size'), ('const', 'None')})) in fs and ('truth', starts, False) in fs for fs in rfacts)
    ck.expect('Z2', g_fft_method, init, 'an fft_size given with a non-overlap method is refused', 'an fft_size with a non-overlap method is no longer refused', instance='fft_size needs overlap method')
    g_small = False
    band_t = None
    for fs in rfacts:
        for f in fs:
            if f[0] == 'lt' and f[1] == ('var', 'fft_size'):
                g_small = True
                band_t = f[2]
    ck.expect('Z2', g_small, init, 'an fft_size below the number of bands is refused', 'an fft_size smaller than the band count is no longer refused', instance='fft_size >= band count')
    first_store = next((i for i, st in enumerate(init.body) if isinstance(st, ast.Assign) and any(isinstance(t, ast.Attribute) for t in st.targets)), len(init.body))
    last_raise = max((i for i, st in enumerate(init.body) if any(isinstance(n, ast.Raise) for n in ast.walk(st))), default=-1)
    ck.expect('Z2', last_raise < first_store, init, 'every refusal precedes the first field assignment', 'a field is assigned before the arguments are validated', instance='guards first', nontrivial=False)

    # ------------------------------------------------------------------ Z5 batch/core axis
    bv = ('var', init.args.args[1].arg)
    want = ('binop', '-', ('binop', '*', ('const', '2'), ('sub', ('attr', bv, 'shape'), ('unop', 'neg', ('const', '1')))), ('const', '1'))
    ck.expect('Z5', band_t == want, init, 'the band count is 2 * band_values.shape[-1] - 1: the length of the core (last) axis that mv vectorises over',
              f'the band count is computed as {show(band_t)}: mv uses the last axis of band_values as the band axis and vectorises over the leading ones, so for batched '
              'band values a count based on anything else (e.g. .size) rejects admissible FFT sizes or accepts inadmissible ones', instance='band count from last axis')
    for fn in (init, mv, cls.own.get('as_matrix')):
        if not isinstance(fn, ast.FunctionDef):
            continue
        for n in ast.walk(fn):
            if isinstance(n, ast.Attribute) and n.attr == 'size' and ast.unparse(n.value) in ('band_values', 'self.band_values'):
                ck.bad('Z5', n, f'{fn.name} uses band_values.size: with batched band values this counts every row, not the bands of one row', instance=f'{fn.name} .size')
    from ..loader import string_constants

    sigs = [v.replace(' ', '') for v in string_constants(mv) if '->' in v]
    import re as _re

    # (a),(b)->(a) with two different core dimensions, whatever the letters: per batch row, output length = input length
    m_sig = _re.fullmatch(r'\((\w+)\),\((\w+)\)->\((\w+)\)', sigs[0]) if len(sigs) == 1 else None
    ck.expect('Z3', m_sig is not None and m_sig.group(1) == m_sig.group(3) and m_sig.group(1) != m_sig.group(2), mv,
              'mv vectorises the kernel with signature (n),(k)->(n): independently per batch row, output length = input length',
              f'mv vectorises with signature {sigs}', instance='vectorize signature')
    mvt = [term(n) for n in ast.walk(mv) if isinstance(n, ast.Call)]
    M = ('var', mv.args.args[0].arg)
    ok_args = any(t[0] == 'call' and t[2] == (('var', mv.args.args[1].arg), ('attr', M, 'band_values')) for t in mvt)
    if not ok_args:
        # the second argument may be something computed from the band values (a kernel, a transfer function): recognised when a
        # call passes (x, v) with v a local name whose definition mentions self.band_values; anything else is not decided here
        x_name = mv.args.args[1].arg
        derived = {t_.id for st in ast.walk(mv) if isinstance(st, ast.Assign) and 'band_values' in ast.unparse(st.value) for t_ in st.targets if isinstance(t_, ast.Name)}
        via_local = any(isinstance(n, ast.Call) and len(n.args) == 2 and isinstance(n.args[0], ast.Name) and n.args[0].id == x_name and isinstance(n.args[1], ast.Name) and n.args[1].id in derived for n in ast.walk(mv))
        swapped = any(isinstance(n, ast.Call) and len(n.args) == 2 and isinstance(n.args[1], ast.Name) and n.args[1].id == x_name and 'band_values' in ast.unparse(n.args[0]) for n in ast.walk(mv))
        if via_local and not swapped:
            ck.ok('Z3', mv, 'the vectorised kernel receives (x, a value computed from the band values) in the order of its signature', instance='kernel arguments')
        elif swapped:
            ck.bad('Z3', mv, 'the vectorised kernel is called with the band values first and x second: the roles of the two core dimensions are exchanged', instance='kernel arguments')
        else:
            ck.incomplete('Z3', mv, 'the call of the vectorised kernel is not of the form (x, band values or a value computed from them): not decided', instance='kernel arguments')
    else:
        ck.ok('Z3', mv, 'the vectorised kernel receives (x, band_values) in the order of its signature', instance='kernel arguments')

    # ------------------------------------------------------------------ Z3 kernels linear & trace safe, Z4 dtype, Z7/Z8 slices
    for m, fn in live.items():
        ki = KindInterp(world, table)
        v = ki.analyse_method(cls, fn.name, [Lin('Id'), Par()])
        if isinstance(v, Lin) and not ki.unknowns:
            ck.ok('Z3', fn, f'kernel {fn.name} is linear in x with the band values as constants (kind {v.k})', instance=f'{m} linear')
        elif ki.unknowns or not isinstance(v, Lin) and 'Unknown' in type(v).__name__:
            ck.incomplete('Z3', fn, f'cannot classify kernel {fn.name}: {describe(v)} {ki.unknowns[:1]}', instance=f'{m} linear')
        else:
            ck.bad('Z3', fn, f'kernel {fn.name} is not linear in x: {describe(v)}', instance=f'{m} linear')
        for t in ki.taints:
            ck.bad('Z3', t.node, f'kernel {fn.name} is not trace-safe: {t.why}', instance=f'{m} trace safety')
        if not ki.taints:
            ck.ok('Z3', fn, f'kernel {fn.name}: loop bounds, int() and numpy calls only see static values', instance=f'{m} trace safety')
        for call, short, has_dtype in ki.creations:
            if short in ('arange', 'indices'):
                continue
            ck.expect('Z4', has_dtype, call, f'{short} buffer carries a dtype', f'kernel {fn.name}: `{ast.unparse(call)[:50]}` has no dtype: the buffer has the session default float type (64-bit flag dependent) and the update of a float32 block raises or changes the output dtype', instance=f'{m} {short} dtype')
        # Z8: [h:-h] guarded against h == 0
        for p in function_paths(fn):
            if p.exit != 'return' or p.node.value is None:
                continue
            for n in ast.walk(p.node.value):
                if isinstance(n, ast.Slice) and isinstance(n.upper, ast.UnaryOp) and isinstance(n.upper.op, ast.USub) and isinstance(n.upper.operand, ast.Name):
                    h = n.upper.operand.id
                    fs = path_facts(p)
                    guarded = any(f[0] == 'ne' and ('var', h) in {x if not (isinstance(x, tuple) and x[0] == 'var') else x for x in f[1]} for f in fs) or any(
                        e for e, pol in p.conds() if not pol and ast.unparse(e) in (f'{h} == 0', f'0 == {h}', f'not {h}')) or any(
                        e for e, pol in p.conds() if pol and ast.unparse(e) in (f'{h} != 0', f'{h} > 0', h))
                    ck.expect('Z8', bool(guarded), n, f'the slice [..:-{h}] is only taken when {h} != 0',
                              f'kernel {fn.name} slices [..:-{h}] without excluding {h} == 0: with a single band (K = 1) the half width is 0 and [0:-0] is empty, so the kernel fails instead of returning band[0] * x', instance=f'{m} negative-stop slice')
        for n in ast.walk(fn):
            if isinstance(n, ast.Call) and (world.qualify(module_of(n), n.func) or '').endswith('fft.irfft'):
                has_n = len(n.args) > 1 or any(k.arg == 'n' for k in n.keywords)
                ck.expect('Z7', has_n, n, 'irfft is given its output length', f'kernel {fn.name} calls irfft without n: the default output length 2*(m-1) is one sample short for every odd FFT size', instance=f'{m} irfft length')

    # ------------------------------------------------------------------ Z10/Z11 symbolic lengths: every slice in bounds, output length = input length
    from ..lengths import L as LEN_L
    from ..lengths import Arr, LenInterp, witness

    for m, fn in live.items():
        li = LenInterp(world, cls.node)
        try:
            out = li.run_kernel(fn)
        except Incomplete as exc:
            ck.incomplete('Z10', fn, f'kernel {fn.name}: {exc.site}: {exc.why}', instance=f'{m} lengths')
            continue
        for node, why in li.problems:
            ck.bad('Z10', node, f'kernel {fn.name}: {why}', instance=f'{m} shape problem', semantic=True)
        nob = 0
        for ob in li.obligations:
            nob += 1
            if ob.proof is not None:
                continue
            w = witness(ob.expr)
            if w is not None:
                ck.bad('Z10', ob.node, f'kernel {fn.name}: {ob.what} fails, e.g. for n={w["n"]}, K={w["K"]}, fft_size={w["fft_size"]} (nblock={w["nblock"]}) the margin is {w["value"]}: '
                       + ('the tail of the result is never computed (it keeps the zeros the buffer was created with)' if 'were all computed' in ob.what else
                          'a slice goes out of bounds (dynamic slices are clamped silently, static ones truncated) and the method returns wrong values'), instance=f'{m} bound', semantic=True)
            else:
                ck.incomplete('Z10', ob.node, f'kernel {fn.name}: cannot prove {ob.what} (margin {ob.expr})', instance=f'{m} bound')
        if not any(o.status != 'ok' and o.rule.endswith('Z10') and f'{m} ' in o.construct for o in ck.obs):
            ck.ok('Z10', fn, f'kernel {fn.name}: all {nob} slice / convolution bounds hold for every n >= 1, K >= 1, admissible fft_size (symbolic lengths in l, h = K-1, s = fft_size - 2h, q = nblock - 1)', instance=f'{m} bounds')
        if isinstance(out, Arr):
            ck.expect('Z11', (out.n - LEN_L).is_zero(), fn, f'kernel {fn.name} returns exactly n values for an input of length n', f'kernel {fn.name} returns {out.n} values for an input of length l: the vectorised signature (n)->(n) is violated (error or wrong shape)', instance=f'{m} output length', semantic=True)
        else:
            ck.incomplete('Z11', fn, f'kernel {fn.name}: result is not an array in the length domain', instance=f'{m} output length')

    # ------------------------------------------------------------------ Z9 the dense builder is T[i, k] = band[|i - k|]
    _dense_builder(ck, world)

    # ------------------------------------------------------------------ Z6
    am = cls.own.get('as_matrix')
    ok, why = c04.s_toeplitz(world, table, cls, am) if isinstance(am, ast.FunctionDef) else (False, 'as_matrix override vanished')
    if ok is None:
        ck.incomplete('Z6', am or cls.node, f'as_matrix: {why}', instance='shared dense builder')
    else:
        ck.expect('Z6', ok, am or cls.node, why, f'as_matrix: {why}', instance='shared dense builder')


def _shared_memos(ctx, ck, cls) -> None:
    """Z12: what an operator stores in a module-level container is keyed by every field it was computed from (sa/memo.py).
    Otherwise a second operator with the same key applies a kernel bound to the first one: T x is computed with another
    operator's FFT size / band."""
    from ..memo import TOP, memo_stores

    world, table = ctx.world, ctx.table
    toe_classes = [k for k in table.classes.values() if k.module is cls.module]
    stores = memo_stores(world, table, toe_classes)
    for st in stores:
        inst = f'{st.cls.name}.{st.method.name} -> {st.container}'
        missing = st.missing - {TOP}
        if missing:
            ck.bad('Z12', st.node, f'{st.cls.name}.{st.method.name} stores in the module-level {st.container} a value computed from the fields {sorted(st.value_deps - {TOP})} of the operator under a key that '
                   f'only covers {sorted(st.key_deps)}: another operator with the same key and a different {", ".join(sorted(missing))} is applied with the stored one', instance=inst, semantic=True)
        elif TOP in st.value_deps and not st.key_is_instance:
            ck.incomplete('Z12', st.node, f'{st.cls.name}.{st.method.name} stores a value in the module-level {st.container} whose dependencies on the operator are not all known: {st.unknown[0] if st.unknown else ""}', instance=inst)
        else:
            ck.ok('Z12', st.node, f'the value stored in {st.container} depends on {sorted(st.value_deps)} of the operator, all part of the key ({sorted(st.key_deps)})', instance=inst)
    ck.note(f'Z12: {len(stores)} stores into module-level containers from methods of the {len(toe_classes)} classes of {cls.module.name}')
    if not stores:
        ck.ok('Z12', cls.node, 'no method of the Toeplitz module stores a value in a module-level container: nothing computed from one operator is shared with another', instance='no shared memo', nontrivial=False)


def _to_poly(t, symbols: dict):
    """Integer index arithmetic term -> exact polynomial (jnp.arange(m) is the generic element symbol `t`)."""
    from ..poly import Poly

    if t[0] == 'var':
        if t[1] in symbols:
            return symbols[t[1]]
        return Poly.atom(('sym', t[1]))
    if t[0] == 'const':
        return Poly.const(int(t[1]))
    if t[0] == 'unop' and t[1] == 'neg':
        return -_to_poly(t[2], symbols)
    if t[0] == 'binop' and t[1] in ('+', '-', '*'):
        a, b = _to_poly(t[2], symbols), _to_poly(t[3], symbols)
        return a + b if t[1] == '+' else a - b if t[1] == '-' else a * b
    if t[0] == 'call' and t[1] == ('attr', ('var', 'jnp'), 'arange') and len(t[2]) == 1:
        symbols.setdefault('__arange__', []).append(t[2][0])
        return Poly.atom(('sym', 't'))
    if t[0] == 'call' and t[1] == ('var', 'abs') and len(t[2]) == 1 and '__sign__' in symbols:
        inner = _to_poly(t[2][0], symbols)
        return inner if symbols['__sign__'] > 0 else -inner
    if t[0] == 'sub' and t[2][0] == 'slice' and t[2][1] == ('none',) and t[2][3] == ('none',) and t[2][2] != ('none',):
        # X[:m] : the first m elements - only if m >= 0 (a negative stop counts from the end instead)
        symbols.setdefault('__stops__', []).append(t[2][2])
        base = _to_poly(t[1], symbols)
        ar = symbols.get('__arange__', [])
        if ar:
            ar[-1] = t[2][2]  # the element count is now the slice stop
        return base
    raise ValueError(show(t))


def _dense_builder(ck, world: World) -> None:
    from ..paths import Path
    from ..poly import Poly

    fn = world.require(f'{TOE}.dense_symmetric_band_toeplitz')
    n_name = fn.args.args[0].arg
    loops = [st for st in fn.body if isinstance(st, ast.For)]
    if len(loops) != 1 or not isinstance(loops[0].target, ast.Name):
        ck.incomplete('Z9', fn, 'the dense builder no longer has a single loop over the band offsets')
        return
    loop = loops[0]
    j = loop.target.id
    pre = path_env(Path([('stmt', st) for st in fn.body[: fn.body.index(loop)] if isinstance(st, ast.Assign)]))
    it = term(loop.iter, pre)
    bw = None
    if it[0] == 'call' and it[1] == ('var', 'range') and len(it[2]) == 2 and it[2][0][0] == 'unop' and it[2][0][1] == 'neg' and it[2][1] == ('binop', '+', it[2][0][2], ('const', '1')):
        bw = it[2][0][2]
    ck.expect('Z9', bw is not None and 'size' in show(bw) and '- 1' in show(bw), loop, 'offsets j run over -(K-1) .. K-1 with K the number of band values',
              f'the band offsets iterate {show(it)}', instance='offset range')
    N, J, T = Poly.atom(('sym', 'n')), Poly.atom(('sym', 'j')), Poly.atom(('sym', 't'))
    symbols = {n_name: N, j: J}
    nbranch = 0
    from ..paths import enum_paths

    for p in enum_paths(loop.body):
        if p.exit not in ('fall', 'continue'):
            continue
        e = path_env(p)
        conds = [(term(c), pol) for c, pol in p.conds()]
        nonneg = None
        for c, pol in conds:
            if c in (('cmp', 'ge', ('var', j), ('const', '0')),):
                nonneg = pol
            elif c in (('cmp', 'lt', ('var', j), ('const', '0')),):
                nonneg = not pol
        if nonneg is None:
            ck.incomplete('Z9', loop, 'the loop body does not branch on the sign of the offset', instance='branches')
            return
        nbranch += 1
        setcall = None
        for st in p.stmts():
            if isinstance(st, ast.Assign) and isinstance(st.value, ast.Call) and isinstance(st.value.func, ast.Attribute) and st.value.func.attr == 'set':
                setcall = term(st.value, path_env(p, upto=st))
        idx_t = None
        ok_val = False
        if setcall is not None and setcall[1][1][0] == 'sub':
            idx_t = setcall[1][1][2]
            written = setcall[2][0] if setcall[2] else None
            ok_val = written is not None and written[0] == 'sub' and written[2] == ('call', ('var', 'abs'), (('var', j),), ())
        inst = 'upper diagonals (j >= 0)' if nonneg else 'lower diagonals (j < 0)'
        symbols.pop('__arange__', None)
        symbols.pop('__stops__', None)
        symbols['__sign__'] = 1 if nonneg else -1
        try:
            k = _to_poly(idx_t, symbols) if idx_t is not None else None
            for stop_t in symbols.pop('__stops__', []):
                sp = _to_poly(stop_t, symbols)
                bad_at = None
                for nv in range(1, 5):
                    for jv in (range(0, 8) if nonneg else range(-8, 0)):
                        val = sum(c * (nv ** dict(m).get(('sym', 'n'), 0)) * (jv ** dict(m).get(('sym', 'j'), 0)) for m, c in sp.normal().t.items() if all(a in (('sym', 'n'), ('sym', 'j')) for a, _ in m))
                        if val < 0 and bad_at is None:
                            bad_at = (nv, jv, val)
                if bad_at is not None:
                    ck.bad('Z9', loop, f'the indices are taken with a slice [:{sp}] whose stop is negative for band offsets beyond the matrix size (e.g. n={bad_at[0]}, j={bad_at[1]}: stop {bad_at[2]}): a negative stop '
                           'counts from the end instead of giving an empty selection, so for K >= n + 2 far bands are written onto in-range elements', instance=inst + ' slice stop')
            ar = symbols.pop('__arange__', [])
            m = _to_poly(ar[0], symbols) if len(ar) == 1 else None
            symbols.pop('__arange__', None)
        except (ValueError, KeyError) as exc:
            ck.incomplete('Z9', loop, f'index arithmetic outside the polynomial language: {exc}', instance=inst)
            continue
        if k is None:
            ck.incomplete('Z9', loop, 'no .at[indices].set(value) in this branch', instance=inst)
            continue
        if nonneg:
            want = T * N + (T + J)  # entry (row t, column t + j)
            count_ok = m is not None and (m - (N - J)).is_zero()  # t < n - j  <=>  t + j < n: exactly the j-th super-diagonal
            where = 'T[t, t+j] = band[j] for 0 <= t < n-j'
        else:
            want = (T - J) * N + T  # entry (row t - j, column t)
            count_ok = m is not None and ((m - (N - J)).is_zero() or (m - (N + J)).is_zero())  # t < n+j in bounds; larger t give k >= n^2 (dropped by scatter)
            where = 'T[t+|j|, t] = band[|j|] for 0 <= t < n-|j| (updates with row >= n are out of bounds and dropped)'
        ck.expect('Z9', (k - want).is_zero() and ok_val and count_ok, loop, f'flat index {k} = row*n + col: {where}',
                  f'in the {"j >= 0" if nonneg else "j < 0"} branch the flat index is {k} (expected {want}), value from band[|j|]: {ok_val}, element count ok: {count_ok}: the dense matrix is not T[i,k] = band[|i-k|]', instance=inst)
    ck.floor('Z9', nbranch, 2, 'sign branches of the dense builder')
    rets = [st for st in fn.body if isinstance(st, ast.Return)]
    rt = term(rets[0].value) if rets else None
    ok_r = rt is not None and rt[0] == 'call' and rt[1][0] == 'attr' and rt[1][2] == 'reshape' and rt[2] == (('var', n_name), ('var', n_name))
    zeros_ok = any(isinstance(st, ast.Assign) and 'jnp.zeros(' in ast.unparse(st.value) and f'{n_name} ** 2' in ast.unparse(st.value) for st in fn.body)
    ck.expect('Z9', ok_r and zeros_ok, fn, 'the n*n zero buffer is filled and reshaped row-major to (n, n): entries outside the band stay 0, and T[i,k] = T[k,i] (symmetric) by the two branches',
              f'the dense builder returns {show(rt)} from a buffer that is not n**2 zeros', instance='row-major n x n')


def _memoise_by_method(tree: ast.Module) -> None:
    """Positive control for Z12: mv keeps its vectorised kernel (a bound method) in a module-level dict keyed by the method."""
    from ..mutate import find_def

    tree.body.insert(max(i for i, st in enumerate(tree.body) if isinstance(st, (ast.Import, ast.ImportFrom))) + 1, ast.parse('_KERNEL_MEMO = {}').body[0])
    mv = find_def(tree, 'SymmetricBandToeplitzOperator.mv')
    replace_expr(mv, "jnp.vectorize(self._get_func(), signature='(n),(k)->(n)')", "_KERNEL_MEMO.setdefault(self.method, jnp.vectorize(self._get_func(), signature='(n),(k)->(n)'))")


def controls(world: World) -> list[Control]:
    return [
        Control('method-without-branch', lambda w: edit_def(w, TOE, 'SymmetricBandToeplitzOperator._get_func', lambda fn: remove_stmt(fn, "if self.method == 'direct':", prefix=True)), 'C09.Z1'),
        Control('fft-size-guard-dropped', lambda w: edit_def(w, TOE, 'SymmetricBandToeplitzOperator.__init__', lambda fn: remove_stmt(fn, 'if fft_size < band_number:', prefix=True)), 'C09.Z2'),
        Control('band-count-from-size', lambda w: edit_def(w, TOE, 'SymmetricBandToeplitzOperator.__init__', lambda fn: replace_expr(fn, 'band_values.shape[-1]', 'band_values.size')), 'C09.Z5'),
        Control('buffer-without-dtype', lambda w: edit_def(w, TOE, 'SymmetricBandToeplitzOperator._apply_overlap_save', lambda fn: replace_expr(fn, 'jnp.zeros(l + x_padding_end, dtype=jnp.result_type(x, band_values))', 'jnp.zeros(l + x_padding_end)')), 'C09.Z4'),
        Control('traced-loop-bound', lambda w: edit_def(w, TOE, 'SymmetricBandToeplitzOperator._apply_overlap_save', lambda fn: replace_expr(fn, 'int(np.ceil((l + overlap) / step_size))', 'int(np.ceil((l + overlap) / step_size) + 0 * x[0])')), 'C09.Z3'),
        Control('dense-offset-slip', lambda w: edit_def(w, TOE, 'dense_symmetric_band_toeplitz', lambda fn: replace_expr(fn, '-n * j + jnp.arange(m) * (n + 1)', '-n * j + jnp.arange(m) * n')), 'C09.Z9'),
        Control('overlap-buffer-too-short', lambda w: edit_def(w, TOE, 'SymmetricBandToeplitzOperator._apply_overlap_save', lambda fn: replace_expr(fn, 'total_length - overlap - l', 'total_length - overlap - l - half_band_width')), 'C09.Z10'),
        Control('overlap-output-shifted', lambda w: edit_def(w, TOE, 'SymmetricBandToeplitzOperator._apply_overlap_save', lambda fn: replace_expr(fn, 'y[half_band_width:half_band_width + l]', 'y[half_band_width:half_band_width + l - 1]')), 'C09.Z11'),
        Control('memo-keyed-by-method-only', lambda w: variant(w, TOE, _memoise_by_method), 'C09.Z12'),
        Control('unguarded-negative-slice', lambda w: edit_def(w, TOE, 'SymmetricBandToeplitzOperator._apply_fft', lambda fn: remove_stmt(fn, 'if half_band_width == 0:', prefix=True)), 'C09.Z8'),
    ]

"""C06 - inverses invert: closed-form table, pseudo-inverse guard, involution, refusal, solve wiring."""

from __future__ import annotations

import ast

from ..classes import CORE, OPERATOR_BASE
from ..kinds import Lin
from ..linform import InterpRaise, NonLinear
from ..loader import AnalysisError, Incomplete, World, module_of
from ..mutate import edit_def, remove_stmt, replace_expr
from ..opkinds import all_mv
from ..paths import function_paths
from ..poly import Matrix
from ..run import Control
from ..terms import facts as path_facts
from ..terms import path_env, show, term
from .c03 import _ret
from .c15 import Polarimetry, angle

LEVEL = 'other'
RULE_TEXT = (
    'the inverse attribute of every operator class is resolved through the class table; every closed form is matched against the table '
    '(reciprocal scalar on the same structure; transpose-denoting function for orthogonal classes plus M^T M = I / Id kind; swapped '
    'moveaxis; block-wise .I under the all-square guard; diagonal inverse re-using values, axes and structure); pseudo-inverse, '
    'involution, refusal and solve-wiring clauses; an obligation is one (class, clause) pair'
)
EXPLANATION = (
    'Static decision of the structure of every inverse. Closed forms are justified by derived facts: orthogonal classes resolve '
    '`inverse` to the function that `transpose` resolves to on that very class (decorator order matters) and the rotation satisfies '
    'M^T M = I for all angles; move-axis is a permutation whose transpose swaps source and destination; the diagonal inverse re-uses the '
    'operand\'s values, axes and structure and its reciprocal is guarded by where(d != 0, 1/d, 0); lazy inverses return their operand '
    'on .inverse(); non-square operands are refused before anything is stored; the solver is called with the operand as matrix and the '
    'input as right-hand side. Convergence/tolerance of the iterative solver and rounding are not decided.'
)

DIAG = 'furax._base.diagonal'


def run(ctx, ck) -> None:
    world, table = ctx.world, ctx.table
    ck.trust('lineax.linear_solve(A, b) returns x with A x = b to the solver tolerance for a positive (semi)definite A (stated precondition)')
    base = table.get(OPERATOR_BASE)
    generic = table.resolve(base, 'inverse')
    if generic is None or not isinstance(generic.node, ast.FunctionDef):
        raise AnalysisError('anchor vanished: AbstractLinearOperator.inverse')
    gt = _ret(generic.node)
    ck.expect('I1', gt == ('call', ('var', 'InverseOperator'), (('var', generic.node.args.args[0].arg),), ()), generic.node,
              'the generic inverse is the lazy InverseOperator(self)', f'the generic inverse returns {show(gt)}', instance='generic')
    kinds = all_mv(ctx)
    classes = table.operators()
    pol: Polarimetry = ctx.cache.get('polarimetry') or Polarimetry(world, table)
    ctx.cache['polarimetry'] = pol
    nclosed = 0
    seen_fn = set()
    for cls in classes:
        r = table.resolve(cls, 'inverse')
        if r is None:
            ck.bad('I1', cls.node, 'inverse does not resolve')
            continue
        if r.node is generic.node:
            continue
        nclosed += 1
        rt = table.resolve(cls, 'transpose')
        orth = table.decorated_with(cls, 'orthogonal')
        if orth:
            same = rt is not None and rt.node is r.node
            ck.expect('I1', same, cls.node, f'orthogonal class: inverse resolves to the very function transpose resolves to ({r.provenance.split(":")[0]})',
                      f'{cls.name} is declared orthogonal but its inverse ({r.provenance}) is not the function its transpose resolves to '
                      f'({rt.provenance if rt else "-"}): A.I does not act as A.T (decorator order / later override)', instance='orthogonal inverse = transpose')
            continue
        if id(r.node) in seen_fn:
            ck.ok('I1', cls.node, f'inherits the closed form of {r.owner.name if r.owner else "?"}', instance='inherited', nontrivial=False)
            continue
        seen_fn.add(id(r.node))
        owner = r.owner
        schema = SCHEMAS.get(owner.name if owner else '')
        if schema is None:
            ck.incomplete('I1', r.node, f'{cls.name}.inverse ({r.provenance}) matches no row of the closed-form table', instance=cls.name)
            continue
        ok, why = schema(ctx, table, cls, r)
        ck.expect('I1', ok, r.node, why, f'{owner.name}.inverse is not the inverse of its class: {why}', instance=owner.name)
    ck.floor('I1', nclosed, 9, 'classes with a closed-form inverse')

    # orthogonality proper: M^T M = I for the rotation; Id kind for the identity
    a = angle('a')
    n = 0
    for kind in pol.kinds:
        L = pol.letters(kind)
        try:
            R = pol.matrix(pol.make(pol.rot, a), kind, 'R')
            n += 1
            ck.expect('I1', (R.T @ R) == Matrix.identity(R.cols), f'{pol.rot.qual}.mv', 'M^T M = I for all angles: the transpose is the inverse',
                      f'the rotation is declared orthogonal but M^T M = {R.T @ R}', instance=f'orthogonal kind {L}')
        except (NonLinear, InterpRaise) as exc:
            ck.bad('I1', f'{pol.rot.qual}.mv', str(exc), instance=f'orthogonal kind {L}')
        except Incomplete as exc:
            ck.incomplete('I1', f'{pol.rot.qual}.mv', f'{exc.site}: {exc.why}', instance=f'orthogonal kind {L}')
    ident = table.by_name('IdentityOperator')
    s = kinds.get(ident.qual)
    ck.expect('I1', s is not None and isinstance(s.value, Lin) and s.value.k == 'Id', ident.node, 'the identity returns its input unchanged (Id kind): orthogonal',
              f'IdentityOperator.mv is {s.value if s else "?"}', instance='orthogonal identity')
    mvx = table.by_name('MoveAxisOperator')
    s = kinds.get(mvx.qual)
    ck.expect('I1', s is not None and isinstance(s.value, Lin) and s.value.k == 'Perm', mvx.node, 'move-axis is a pure relabelling (Perm kind): its transpose is its inverse',
              f'MoveAxisOperator.mv is {s.value if s else "?"}', instance='moveaxis permutation')

    # ------------------------------------------------------------------ I2 pseudo-inverse
    dinv = table.get(f'{DIAG}.DiagonalInverseOperator')
    d = table.resolve(dinv, 'diagonal')
    if d is None or not isinstance(d.node, ast.FunctionDef):
        raise AnalysisError('anchor vanished: DiagonalInverseOperator.diagonal')
    t = _ret(d.node)
    S = ('var', d.node.args.args[0].arg)
    D = ('attr', S, '_diagonal')
    recip = ('binop', '/', ('const', '1'), D)
    zero = {('const', '0'), ('const', '0.0')}
    ok = False
    if t and t[0] == 'call' and t[1] in (('attr', ('var', 'jnp'), 'where'),) and len(t[2]) == 3:
        c, x, y = t[2]
        ne = c in (('cmp', 'ne', D, ('const', '0')), ('cmp', 'ne', ('const', '0'), D), ('cmp', 'ne', D, ('const', '0.0')))
        eq = c in (('cmp', 'eq', D, ('const', '0')), ('cmp', 'eq', ('const', '0'), D), ('cmp', 'eq', D, ('const', '0.0')))
        ok = (ne and x == recip and y in zero) or (eq and y == recip and x in zero)
    ck.expect('I2', ok, d.node, 'values of the inverse = where(d != 0, 1/d, 0): zero entries map to zero (Moore-Penrose), never 1/0',
              f'the pseudo-inverse values are {show(t)}: the reciprocal of the stored values is not guarded by "those same values != 0" with 0 as the other branch', instance='guarded reciprocal')
    # the guarded values are the ones mv applies: mv reaches the accessor on self, and nothing on the way reads the raw
    # values or the inverted operator
    from .c04 import _self_closure

    mv_r = table.resolve(dinv, 'mv')
    if mv_r is None or not isinstance(mv_r.node, ast.FunctionDef):
        raise AnalysisError('anchor vanished: DiagonalInverseOperator.mv')
    reach = _self_closure(table, dinv, mv_r.node)
    raw = []
    for name, f in [('mv', mv_r.node)] + [(k, v) for k, v in reach.items() if v is not d.node]:
        me = f.args.args[0].arg
        for n in ast.walk(f):
            if isinstance(n, ast.Attribute) and isinstance(n.value, ast.Name) and n.value.id == me and n.attr in ('_diagonal', 'operator'):
                up = getattr(n, '_parent', None)
                if n.attr == '_diagonal' and isinstance(up, ast.Attribute) and up.attr in ('shape', 'ndim', 'dtype', 'size'):
                    continue  # shape metadata only
                raw.append(f'{name} reads self.{n.attr}')
    ck.expect('I2', reach.get('diagonal') is d.node and not raw, mv_r.node, 'DiagonalInverseOperator.mv applies the guarded values: it reaches the `diagonal` accessor of the inverse and never the raw values',
              'DiagonalInverseOperator.mv does not apply the guarded reciprocal: ' + ('; '.join(raw[:2]) if raw else 'the accessor `diagonal` of the inverse is not reached from mv')
              + ' (a zero entry then gives 1/0 = inf, and inf - inf = nan)', instance='mv applies the guarded values')
    # the inverse re-uses values/axes/structure
    init = table.resolve(dinv, '__init__')
    ok_init = False
    why = 'constructor missing'
    if init is not None and isinstance(init.node, ast.FunctionDef):
        fn = init.node
        op = ('var', fn.args.args[1].arg)
        calls = [n for n in ast.walk(fn) if isinstance(n, ast.Call) and isinstance(n.func, ast.Attribute) and n.func.attr == '__init__']
        for c in calls:
            t = term(c)
            if t[1] == ('attr', ('var', 'DiagonalOperator'), '__init__'):
                kws = dict(t[3])
                vals = t[2][1] if len(t[2]) > 1 else kws.get('diagonal')
                axes = kws.get('axis_destination')
                st = kws.get('in_structure')
                ok_init = vals in (('attr', op, '_diagonal'), ('attr', op, 'diagonal')) and axes == ('attr', op, 'axis_destination') and st == ('IN', op)
                why = f'values={show(vals)}, axis_destination={show(axes)}, in_structure={show(st)}'
    ck.expect('I2', ok_init, init.node if init else dinv.node, 'the diagonal inverse is built from the operand\'s own values, axes and input structure',
              f'the diagonal inverse does not re-use the values, axes and structure of the operator it inverts: {why}', instance='same values/axes/structure')

    # ------------------------------------------------------------------ I3 involution
    lazy = table.get(f'{CORE}.AbstractLazyInverseOperator')
    for cls in (lazy, dinv):
        r_inv = table.resolve(cls, 'inverse')
        fn = r_inv.node if r_inv is not None else None
        t = _ret(fn) if isinstance(fn, ast.FunctionDef) else None
        ck.expect('I3', isinstance(fn, ast.FunctionDef) and t == ('attr', ('var', fn.args.args[0].arg), 'operator'), fn or cls.node,
                  'A.I.I is the wrapped operator itself', f'{cls.name}.inverse returns {show(t)} instead of the operand', instance=cls.name)

    # ------------------------------------------------------------------ I4 refusal
    inv = table.get(f'{CORE}.InverseOperator')
    init = table.resolve(inv, '__init__')
    if init is None or not isinstance(init.node, ast.FunctionDef):
        raise AnalysisError('anchor vanished: InverseOperator.__init__')
    fn = init.node
    op = ('var', fn.args.args[1].arg)
    square = ('eq', frozenset({('IN', op), ('OUT', op)}))
    nret = 0
    for p in function_paths(fn):
        if p.exit == 'raise':
            continue
        nret += 1
        ck.expect('I4', square in path_facts(p), fn, 'a lazy inverse is only built when in_structure() == out_structure()',
                  'InverseOperator can be constructed for an operand whose input and output structures differ (a non-square operator is not refused)', instance='square guard')
    ck.floor('I4', nret, 1, 'non-raising constructor paths')
    first_store = next((i for i, st in enumerate(fn.body) if any(isinstance(n, ast.Attribute) and isinstance(n.ctx, ast.Store) for n in ast.walk(st)) or 'super().__init__' in ast.unparse(st)), None)
    guard_idx = next((i for i, st in enumerate(fn.body) if isinstance(st, ast.If) and any(isinstance(n, ast.Raise) for n in ast.walk(st))), None)
    ck.expect('I4', guard_idx is not None and (first_store is None or guard_idx < first_store), fn, 'the refusal precedes any store', 'fields are stored before the square check', instance='guard first', nontrivial=False)

    # ------------------------------------------------------------------ I5 solve wiring
    mv = table.resolve(inv, 'mv')
    if mv is None or not isinstance(mv.node, ast.FunctionDef):
        raise AnalysisError('anchor vanished: InverseOperator.mv')
    fn = mv.node
    S, x = ('var', fn.args.args[0].arg), ('var', fn.args.args[1].arg)
    rets = [p for p in function_paths(fn) if p.exit == 'return']
    for p in rets[:1]:
        env = path_env(p)
        rt = term(p.node.value, env)
        ok = False
        why = show(rt)
        if rt[0] == 'attr' and rt[2] == 'value' and rt[1][0] == 'call' and rt[1][1] == ('attr', ('var', 'lx'), 'linear_solve') and len(rt[1][2]) >= 2:
            A, b = rt[1][2][0], rt[1][2][1]
            a_ok = A == ('attr', S, 'operator') or (A[0] == 'call' and A[1] == ('attr', ('var', 'lx'), 'TaggedLinearOperator') and A[2] and A[2][0] == ('attr', S, 'operator'))
            ok = a_ok and b == x
            why = f'matrix={show(A)}, right-hand side={show(b)}'
        ck.expect('I5', ok, fn, 'A.I(y) = linear_solve(operand, y).value', f'the lazy inverse does not solve with its operand as matrix and its input as right-hand side: {why}', instance='solve wiring')


    # I5b: the dense form of every lazy inverse is the matrix inverse of the operand's dense form (schema shared with C04.L2)
    from . import c04

    lazy = table.get(f'{CORE}.AbstractLazyInverseOperator')
    for cls in [lazy] + [c for c in table.subclasses(lazy, strict=True)]:
        am = table.resolve(cls, 'as_matrix')
        if am is None or not isinstance(am.node, ast.FunctionDef):
            continue
        schema = c04.SCHEMAS.get(am.owner.name)
        if am.owner is lazy or schema is c04.s_lazy_inverse:
            ok, why = c04.s_lazy_inverse(world, table, cls, am.node)
            ck.expect('I5', ok, am.node, f'{cls.name}.as_matrix: {why}', f'{cls.name}.as_matrix is not the general matrix inverse of the operand matrix: {why} '
                      '(the lazy orthogonal inverses inherit it, and their operands are neither symmetric nor positive definite)', instance=f'{cls.name} dense inverse')

    # ------------------------------------------------------------------ I7 the coefficient of a closed-form-invertible operator is applied uncast
    # (A.I(A(x)) = x with the closed forms 1/s and 1/d only if mv multiplies by the stored coefficient itself: a coefficient
    # cast to the data type of the operand truncates 1/s to 0 on integer operands and drops the imaginary part on real ones)
    from .c04 import _self_closure as _closure

    n_i7 = 0
    for qual in (f'{CORE}.HomothetyOperator', 'furax._base.diagonal.BroadcastDiagonalOperator', 'furax._base.diagonal.DiagonalOperator', 'furax._base.diagonal.DiagonalInverseOperator'):
        cls = table.find(qual)
        mvr = table.resolve(cls, 'mv') if cls is not None else None
        if mvr is None or not isinstance(mvr.node, ast.FunctionDef):
            raise AnalysisError(f'anchor vanished: {qual}.mv')
        fns = [mvr.node] + list(_closure(table, cls, mvr.node).values())
        casts = []
        for f in fns:
            casts.extend(_coefficient_casts(f, {fi.name for fi in table.fields(cls) if not fi.static}))
        n_i7 += 1
        ck.expect('I7', not casts, mvr.node, f'{cls.name}.mv applies its stored coefficient without converting it to the data type of the operand',
                  f'{cls.name}.mv converts its coefficient to the data type of the operand before multiplying ({casts[0] if casts else ""}): on integer operands the closed-form '
                  'inverse ratio 1/s becomes 0 (A.I(A(x)) = 0), on real operands a complex coefficient loses its imaginary part', instance=f'{cls.name} uncast coefficient')
    ck.floor('I7', n_i7, 4, 'coefficient-carrying operators with a closed-form inverse')

    # ------------------------------------------------------------------ I6 the solve uses the configuration captured at construction
    from . import c19

    sub = type(ck)(ck.pid)
    c19.run(ctx, sub)
    for o in sub.obs:
        if o.rule.endswith(('K2', 'K3', 'K4', 'K6', 'K7')):
            o.rule = f'{ck.pid}.I6'
            ck.obs.append(o)
    ck.floor('I6', sum(1 for o in ck.obs if o.rule.endswith('I6')), 6, 'capture/use obligations of the solver configuration')


def _coefficient_casts(fn: ast.FunctionDef, fields: set[str]) -> list[str]:
    """Conversions of an expression built from the operator's own dynamic fields (or accessors) to the dtype of something else."""
    if not fn.args.args:
        return []
    me = fn.args.args[0].arg

    def own(e: ast.AST) -> bool:
        return any(isinstance(n, ast.Attribute) and isinstance(n.value, ast.Name) and n.value.id == me and (n.attr in fields or n.attr.lstrip('_') in {f.lstrip('_') for f in fields}) for n in ast.walk(e))

    def foreign_dtype(e: ast.AST) -> bool:
        # <something that is not self>.dtype, possibly wrapped
        for n in ast.walk(e):
            if isinstance(n, ast.Attribute) and n.attr == 'dtype':
                root = n.value
                while isinstance(root, (ast.Attribute, ast.Subscript, ast.Call)):
                    root = root.value if not isinstance(root, ast.Call) else root.func
                if isinstance(root, ast.Name) and root.id != me:
                    return True
        return False

    out = []
    for n in ast.walk(fn):
        if not isinstance(n, ast.Call):
            continue
        f = n.func
        if isinstance(f, ast.Attribute) and f.attr == 'astype' and own(f.value) and n.args and foreign_dtype(n.args[0]) and not own(n.args[0]):
            out.append(ast.unparse(n))
        elif isinstance(f, ast.Attribute) and f.attr in ('asarray', 'array', 'convert_element_type', 'full_like') and n.args and own(n.args[0]):
            dt = next((k.value for k in n.keywords if k.arg in ('dtype', 'new_dtype')), n.args[1] if len(n.args) > 1 else None)
            if dt is not None and foreign_dtype(dt) and not own(dt):
                out.append(ast.unparse(n))
        elif isinstance(f, ast.Name) and f.id in ('int', 'float') and n.args and own(n.args[0]):
            out.append(ast.unparse(n))
    return out


# ---------------------------------------------------------------------- closed-form schemas
def s_homothety(ctx, table, cls, r):
    fn = r.node
    t = _ret(fn)
    S = ('var', fn.args.args[0].arg)
    if t and t[0] == 'call' and t[1] == ('var', 'HomothetyOperator') and len(t[2]) == 2:
        val, st = t[2]
        if val == ('binop', '/', ('const', '1'), ('attr', S, 'value')) and st in (('attr', S, '_in_structure'), ('IN', S), ('OUT', S)):
            return True, 'scalar inverse: 1/value on the same structure'
        return False, f'value={show(val)}, structure={show(st)}'
    return False, f'found {show(t)}'


def s_moveaxis(ctx, table, cls, r):
    rt = table.resolve(cls, 'transpose')
    if rt is not None and rt.node is r.node:
        return True, 'inverse is the class-level alias of transpose (swapped source/destination, checked by C03)'
    # or a method of its own that returns what transpose returns
    if rt is not None and isinstance(rt.node, ast.FunctionDef) and isinstance(r.node, ast.FunctionDef) and rt.node.args.args and r.node.args.args:
        from ..terms import subst

        a, b = _ret(r.node), _ret(rt.node)
        if a is not None and b is not None and subst(b, {('var', rt.node.args.args[0].arg): ('var', r.node.args.args[0].arg)}) == a:
            return True, 'inverse returns exactly what transpose returns (swapped source/destination, checked by C03)'
        if a == ('T', ('var', r.node.args.args[0].arg)):
            return True, 'inverse returns self.T'
    return False, f'inverse ({r.provenance}) is not the transpose of the class'


def s_blockdiag(ctx, table, cls, r):
    fn = r.node
    S = ('var', fn.args.args[0].arg)
    got_block = got_generic = False
    why = []
    for p in function_paths(fn):
        if p.exit != 'return':
            continue
        t = term(p.node.value, path_env(p))
        fs = path_facts(p)
        sq = ('call', ('attr', ('attr', ('var', 'jax'), 'tree'), 'all'), (('call', ('attr', S, '_tree_map'), (('lambda', ('op',), ('cmp', 'eq', ('IN', ('var', 'op')), ('OUT', ('var', 'op')))),), ()),), ())
        if t[0] == 'call' and t[1] == ('var', 'BlockDiagonalOperator'):
            inner = t[2][0] if t[2] else None
            blockwise = inner is not None and inner[0] == 'call' and inner[1] == ('attr', S, '_tree_map') and len(inner[2]) == 1 and inner[2][0][0] == 'lambda' and inner[2][0][2] == ('I', ('var', inner[2][0][1][0]))
            guarded = any(f[0] == 'truth' and f[2] is True and _is_all_square(f[1], S) for f in fs)
            got_block = blockwise and guarded
            why.append(f'block-wise={blockwise}, under the all-blocks-square guard={guarded}')
        elif t == ('call', ('attr', ('call', ('var', 'super'), (), ()), 'inverse'), (), ()):
            got_generic = True
        else:
            why.append(f'unexpected return {show(t)}')
    if got_block:
        return True, 'block-wise .I under the all-blocks-square guard' + (', generic lazy inverse otherwise' if got_generic else '')
    return False, '; '.join(why) or 'no block-wise return'


def _is_all_square(t, S) -> bool:
    s = show(t)
    return 'tree.all' in s.replace('jax.', '') and 'IN(' in s and 'OUT(' in s and '_tree_map' in s


def s_diagonal(ctx, table, cls, r):
    fn = r.node
    t = _ret(fn)
    if t == ('call', ('var', 'DiagonalInverseOperator'), (('var', fn.args.args[0].arg),), ()):
        return True, 'DiagonalInverseOperator(self) (values/axes/structure and guarded reciprocal checked by I2)'
    return False, f'found {show(t)}'


def s_operand(ctx, table, cls, r):
    fn = r.node
    t = _ret(fn)
    if isinstance(fn, ast.FunctionDef) and t == ('attr', ('var', fn.args.args[0].arg), 'operator'):
        return True, 'returns the wrapped operand (involution)'
    return False, f'found {show(t)}'


SCHEMAS = {
    'HomothetyOperator': s_homothety,
    'MoveAxisOperator': s_moveaxis,
    'BlockDiagonalOperator': s_blockdiag,
    'DiagonalOperator': s_diagonal,
    'AbstractLazyInverseOperator': s_operand,
    'DiagonalInverseOperator': s_operand,
}


def controls(world: World) -> list[Control]:
    def reorder(tree_cls):
        tree_cls.decorator_list.reverse()

    return [
        Control('stale-inverse-after-decorator-reorder', lambda w: edit_def(w, CORE, 'IdentityOperator', reorder), 'C06.I1'),
        Control('block-not-inverted', lambda w: edit_def(w, 'furax._base.blocks', 'BlockDiagonalOperator.inverse', lambda fn: replace_expr(fn, 'op.I', 'op')), 'C06.I1'),
        Control('pseudo-inverse-one', lambda w: edit_def(w, DIAG, 'DiagonalInverseOperator.diagonal', lambda fn: replace_expr(fn, 'jnp.where(self._diagonal != 0, 1 / self._diagonal, 0)', 'jnp.where(self._diagonal != 0, 1 / self._diagonal, 1)')), 'C06.I2'),
        Control('square-guard-dropped', lambda w: edit_def(w, CORE, 'InverseOperator.__init__', lambda fn: remove_stmt(fn, 'if operator.in_structure() != operator.out_structure():', prefix=True)), 'C06.I4'),
        Control('ratio-cast-to-operand-dtype', lambda w: edit_def(w, CORE, 'HomothetyOperator.mv', lambda fn: replace_expr(fn, 'self.value * leaf', 'self.value.astype(leaf.dtype) * leaf')), 'C06.I7'),
        Control('solve-with-self', lambda w: edit_def(w, CORE, 'InverseOperator.mv', lambda fn: replace_expr(fn, 'lx.TaggedLinearOperator(self.operator, lx.positive_semidefinite_tag)', 'lx.TaggedLinearOperator(self, lx.positive_semidefinite_tag)')), 'C06.I5'),
    ]

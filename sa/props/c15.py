"""C15 - polarimetry operators realise their Mueller matrices (decided in full by E6)."""

from __future__ import annotations

import ast
from typing import Any

from ..classes import ClassInfo
from ..linform import Chain, External, Incomplete as _Inc, Interp, InterpRaise, LossyCoefficient, NonLinear, Opaque, Rec, SymObj, value_matrix  # noqa: F401
from ..loader import AnalysisError, Incomplete, World
from ..mutate import edit_def, replace_expr
from ..poly import Matrix, Poly, poly_cos, poly_sin
from ..run import Control

LEVEL = 'proof'
RULE_TEXT = (
    'for each of the 4 Stokes kinds: the Mueller matrix of each polarimetry mv is derived from its source by exact '
    'linear-form interpretation with symbolic angles and compared with the matrix the property states; identities '
    '(R(a)R(b)=R(a+b), R(a)H=HR(-a), PH=P, transposes, factories) are decided by polynomial normal forms; an obligation '
    'is one (clause, class or identity, Stokes kind) triple, all derived (none is a presence check)'
)
EXPLANATION = (
    'Exact symbolic derivation: the mv source of HWPOperator, QURotationOperator, QURotationTransposeOperator and '
    'LinearPolarizerOperator is re-interpreted over polynomials in the input Stokes components and cos/sin of symbolic angles; '
    'each derived matrix is compared, for all angles at once, with the matrix stated by the property, and the algebraic '
    'identities and factory products are decided by a normal form modulo sin^2+cos^2=1. Trusted: jnp arithmetic/cos/sin act '
    'element-wise (a scalar identity lifts pointwise to angle arrays), Stokes dataclass field order = constructor order.'
)

POL = 'furax.operators'
HWP = f'{POL}.hwp.HWPOperator'
ROT = f'{POL}.qu_rotations.QURotationOperator'
ROTT = f'{POL}.qu_rotations.QURotationTransposeOperator'
PLR = f'{POL}.polarizers.LinearPolarizerOperator'


def angle(name: str) -> Poly:
    return Poly.atom(('ang', name))


def oracle_rotation(letters: str, a: Poly) -> Matrix:
    """Rotation of (Q,U) by 2a; I and V untouched."""
    names = [l.lower() for l in letters]
    c, s = poly_cos(a.scale(2)), poly_sin(a.scale(2))
    data = [[Poly.const(1 if i == j else 0) for j in range(len(names))] for i in range(len(names))]
    if 'q' in names and 'u' in names:
        iq, iu = names.index('q'), names.index('u')
        data[iq][iq], data[iq][iu] = c, -s
        data[iu][iq], data[iu][iu] = s, c
    return Matrix(names, names, data)


def oracle_hwp(letters: str) -> Matrix:
    names = [l.lower() for l in letters]
    sign = {'i': 1, 'q': 1, 'u': -1, 'v': -1}
    return Matrix(names, names, [[Poly.const(sign[n] if i == j else 0) for j, _ in enumerate(names)] for i, n in enumerate(names)])


def oracle_polarizer(letters: str) -> Matrix:
    names = [l.lower() for l in letters]
    from fractions import Fraction

    return Matrix(['d'], names, [[Poly.const(Fraction(1, 2) if n in ('i', 'q') else 0) for n in names]])


class Polarimetry:
    """Symbolic objects and derived matrices shared by C15 / C01 / C03 / C06 / C08 / C16."""

    def __init__(self, world: World, table):
        self.world, self.table = world, table
        self.interp = Interp(world, table)
        self.hwp, self.rot, self.rott, self.plr = (table.get(q) for q in (HWP, ROT, ROTT, PLR))
        self.kinds = self.interp.stokes_classes()
        if len(self.kinds) < 4:
            raise AnalysisError(f'only {len(self.kinds)} Stokes container classes found (floor 4)')

    def letters(self, kind: ClassInfo) -> str:
        return self.interp.stokes_letters(kind)

    def make(self, cls: ClassInfo, a: Poly | None = None) -> SymObj:
        struct = Opaque('structure')
        if cls is self.rot:
            return SymObj(cls, {'angles': a, '_in_structure': struct})
        if cls is self.rott:
            return SymObj(cls, {'operator': self.make(self.rot, a)})
        return SymObj(cls, {'_in_structure': struct})

    def apply(self, op: Any, x: Any) -> Any:
        if isinstance(op, Chain):
            for o in reversed(op.ops):
                x = self.apply(o, x)
            return x
        return self.interp.call_method(op, 'mv', [x])

    def matrix(self, op: Any, kind: ClassInfo, what: str) -> Matrix:
        x = self.interp.input_record(kind)
        before = len(self.interp.coefficient_casts)
        y = self.apply(op, x)
        casts = self.interp.coefficient_casts[before:]
        if casts:
            raise LossyCoefficient(f'a coefficient computed from the operator parameters is converted to the dtype of the Stokes data before it is applied ({casts[0]}): '
                                   'for integer Stokes data cos/sin of the angles are truncated to 0 or +-1, so the applied matrix is not the exact one')
        return value_matrix(self.interp, y, x, what)

    def out_kind(self, op: Any, kind: ClassInfo) -> Any:
        x = self.interp.input_record(kind)
        return self.apply(op, x)


def _derive(ck, rule, pol, op, kind, what):
    """Matrix of op on kind, or None after recording the failure."""
    try:
        return pol.matrix(op, kind, what)
    except LossyCoefficient as exc:
        ck.bad(rule, what, str(exc))
    except NonLinear as exc:
        ck.bad(rule, what, f'not a linear map of the Stokes components: {exc}')
    except InterpRaise as exc:
        ck.bad(rule, what, f'the application raises {exc.name} for this Stokes kind')
    except Incomplete as exc:
        ck.incomplete(rule, what, f'{exc.site}: {exc.why}')
    return None


def run(ctx, ck) -> None:
    world, table = ctx.world, ctx.table
    ck.trust('jnp arithmetic, jnp.cos and jnp.sin act element-wise (a scalar identity lifts pointwise to arrays of angles)',
             'the polynomial normaliser of sa/poly.py (normal form modulo sin^2 + cos^2 = 1)',
             'jax_dataclasses: positional constructor order of a Stokes container = its field order')
    pol = Polarimetry(world, table)
    ctx.cache['polarimetry'] = pol
    a, b = angle('a'), angle('b')
    nmat = 0
    for kind in pol.kinds:
        L = pol.letters(kind)
        tag = f'kind {L}'
        # V2-like sanity: fields are the lower-cased letters in order (needed to label rows/columns)
        fields = [f.name for f in table.fields(kind)]
        if fields != [l.lower() for l in L]:
            ck.bad('M1', kind.node, f'fields {fields} are not the lower-cased letters of stokes={L!r} in order')
            continue
        H = _derive(ck, 'M2', pol, pol.make(pol.hwp), kind, f'{HWP}.mv [{tag}]')
        R = _derive(ck, 'M3', pol, pol.make(pol.rot, a), kind, f'{ROT}.mv [{tag}]')
        Rt = _derive(ck, 'M4', pol, pol.make(pol.rott, a), kind, f'{ROTT}.mv [{tag}]')
        P = _derive(ck, 'M5', pol, pol.make(pol.plr), kind, f'{PLR}.mv [{tag}]')
        nmat += sum(m is not None for m in (H, R, Rt, P))
        # M1: same kind out (polariser: a scalar field)
        for cls, name in ((pol.hwp, HWP), (pol.rot, ROT), (pol.rott, ROTT)):
            try:
                y = pol.out_kind(pol.make(cls, a), kind)
                ck.expect('M1', isinstance(y, Rec) and y.cls is kind, f'{name}.mv', f'returns a {kind.name} for a {kind.name}',
                          f'returns {getattr(getattr(y, "cls", None), "name", type(y).__name__)} for a {kind.name} input', instance=tag)
            except (InterpRaise, Incomplete, NonLinear):
                pass
        if H is not None:
            ck.expect('M2', H == oracle_hwp(L), f'{HWP}.mv', f'derived Mueller matrix {H} = diag(+,+,-,-) restricted to {L}',
                      f'derived Mueller matrix {H} differs from the ideal half-wave plate diag(+1,+1,-1,-1) restricted to {L} (only U and V change sign)', instance=tag, semantic=True)
        if R is not None:
            ck.expect('M3', R == oracle_rotation(L, a), f'{ROT}.mv', f'derived matrix rotates (Q,U) by 2a and leaves I,V: {R}',
                      f'derived matrix {R} is not the rotation of (Q,U) by 2a leaving I and V untouched', instance=tag, semantic=True)
        if R is not None and Rt is not None:
            ck.expect('M4', Rt == R.T, f'{ROTT}.mv', 'M(R^T) = M(R)^T for all angles',
                      f'the transposed rotation {Rt} is not the transpose of the rotation matrix {R.T}', instance=f'{tag} transpose', semantic=True)
            ck.expect('M4', Rt == oracle_rotation(L, -a), f'{ROTT}.mv', 'R^T(a) = R(-a)', f'R^T(a) = {Rt} is not R(-a)', instance=f'{tag} inverse rotation', semantic=True)
        if P is not None:
            ck.expect('M5', P == oracle_polarizer(L), f'{PLR}.mv', f'derived row {P} = (I+Q)/2 restricted to {L}',
                      f'derived detector response {P} is not (I+Q)/2 restricted to {L}', instance=tag, semantic=True)
        # M6 identities (from the derived matrices of this very tree)
        Rb = _derive(ck, 'M6', pol, pol.make(pol.rot, b), kind, f'{ROT}.mv [{tag} b]')
        Rab = _derive(ck, 'M6', pol, pol.make(pol.rot, a + b), kind, f'{ROT}.mv [{tag} a+b]')
        Rneg = _derive(ck, 'M6', pol, pol.make(pol.rot, -a), kind, f'{ROT}.mv [{tag} -a]')
        if None not in (R, Rb, Rab):
            ck.expect('M6', (R @ Rb) == Rab, f'{ROT}.mv', 'R(a) R(b) = R(a+b)', 'R(a) R(b) differs from R(a+b)', instance=f'{tag} composition', semantic=True)
        if None not in (R, Rt):
            ck.expect('M6', (Rt @ R) == Matrix.identity(R.rows), f'{ROT}.mv', 'R^T R = I', 'R^T R is not the identity', instance=f'{tag} orthogonality', semantic=True)
        if None not in (R, H, Rneg):
            ck.expect('M6', (R @ H) == (H @ Rneg), f'{HWP}.mv', 'R(a) H = H R(-a)', 'R(a) H differs from H R(-a)', instance=f'{tag} commutation', semantic=True)
        if None not in (P, H):
            ck.expect('M6', (P @ H) == P, f'{PLR}.mv', 'P H = P', 'polariser after HWP differs from the polariser', instance=f'{tag} absorption', semantic=True)
        # M7 factories
        _factories(ck, pol, kind, L, tag, a)
    ck.floor('M1', nmat, 16, 'derived Mueller matrices (4 classes x 4 kinds)')
    # M8: the rule implementations realise exactly these identities (chains agree before and after reduction) and leave
    # their operands untouched
    from ..rulesem import rule_info
    from . import c01

    rules = table.rules()
    infos = {r.qual: rule_info(table, r) for r in rules}
    sub = type(ck)(ck.pid)
    c01._r_qu(sub, ctx, world, table, rules, infos)
    c01._r_pure(sub, world, table, [r for r in rules if r.name in ('QURotationRule', 'QURotationHWPRule', 'LinearPolarizerHWPRule')])
    for o in sub.obs:
        o.rule = f'{ck.pid}.M8'
        ck.obs.append(o)
    ck.floor('M8', sum(1 for o in ck.obs if o.rule.endswith('M8')), 28, 'rule-case identities')
    # M9: a chain written with @ is the product of its factors in the written order, however it is parenthesised: the
    # construction-time behaviour of the composition (shared with C02.S2/S5, restricted to the @ dunders)
    from . import c02

    sub = type(ck)(ck.pid)
    c02.run(ctx, sub)
    for o in sub.obs:
        if o.rule.endswith(('S2', 'S5')) and 'matmul__' in o.construct:
            o.rule = f'{ck.pid}.M9'
            ck.obs.append(o)
    ck.floor('M9', sum(1 for o in ck.obs if o.rule.endswith('M9')), 6, 'composition-construction obligations')
    # M10: a pair of polarimetry operators is only deleted by a rule when its product is the identity for the angles at hand
    # (shared with C01.R-DEL, restricted to the rules of the polarimetry modules)
    from . import c01

    sub = type(ck)(ck.pid)
    prules = table.rules()
    pinfos = {r.qual: c01.rule_info(table, r) for r in prules}
    c01._r_del(sub, world, table, prules, pinfos)
    for o in sub.obs:
        if 'furax.operators.' in o.construct:
            o.rule = f'{ck.pid}.M10'
            ck.obs.append(o)
    ck.counts['M10:pair deletions by polarimetry rules (none on the reference tree)'] = sum(1 for o in ck.obs if o.rule.endswith('M10'))


def _call_create(pol: Polarimetry, cls: ClassInfo, angles: Any, stokes: str) -> Any:
    interp = pol.interp
    from ..linform import ClassRef

    r = pol.table.resolve(cls, 'create')
    if r is None or not isinstance(r.node, ast.FunctionDef):
        raise AnalysisError(f'anchor vanished: {cls.name}.create')
    kwargs = {'angles': angles} if angles is not None else {}
    # (the dtype requested from the factory is the dtype of the Stokes data: a parameter converted to it is recorded as a coefficient cast)
    return interp.call_function(r.node, [ClassRef(cls), Opaque('shape'), Opaque('data.dtype'), stokes], kwargs, owner=r.owner)


def _same_structure(op: Any, kind: ClassInfo) -> bool | None:
    ops = op.ops if isinstance(op, Chain) else [op]
    structs = []
    for o in ops:
        cur = o
        while isinstance(cur, SymObj) and 'operator' in cur.attrs:
            cur = cur.attrs['operator']
        structs.append(cur.attrs.get('_in_structure') if isinstance(cur, SymObj) else None)
    # the same structure value (built once and shared, or built again from the same arguments)
    if not all(isinstance(s, Rec) for s in structs):
        return None  # a structure the interpreter could not follow (e.g. the kind table is computed): not decided
    return all(s.cls is kind and (s is structs[0] or s == structs[0]) for s in structs)


def _factories(ck, pol: Polarimetry, kind: ClassInfo, L: str, tag: str, a: Poly) -> None:
    H, P = oracle_hwp(L), oracle_polarizer(L)
    cases = [
        (pol.hwp, HWP, a, oracle_rotation(L, -a) @ H @ oracle_rotation(L, a), 'R(-a) H R(a)'),
        (pol.hwp, HWP, None, H, 'H'),
        (pol.plr, PLR, a, P @ oracle_rotation(L, a), 'P R(a)'),
        (pol.plr, PLR, None, P, 'P'),
        (pol.rot, ROT, a, oracle_rotation(L, a), 'R(a)'),
    ]
    for cls, name, ang, want, text in cases:
        what = f'{name}.create'
        inst = f'{tag} {"with" if ang is not None else "without"} angles'
        try:
            before = len(pol.interp.coefficient_casts)
            op = _call_create(pol, cls, ang, L)
            casts = pol.interp.coefficient_casts[before:]
            ck.expect('M7', not casts, what, 'the angles reach the operators as given (no conversion to the dtype of the Stokes data)',
                      f'the factory converts the angles to the dtype requested for the Stokes data ({casts[0] if casts else ""}): with single-precision (or integer) data and double-precision angles '
                      'the operators rotate by the rounded angles, not by the given ones', instance=inst + ' angles as given', semantic=True)
            if not isinstance(op, (SymObj, Chain)):
                ck.bad('M7', what, f'the factory returns {type(op).__name__}, not an operator', instance=inst)
                continue
            got = pol.matrix(op, kind, what)
            ck.expect('M7', got == want, what, f'factory denotes {text}', f'factory denotes {got}, expected {text} = {want}', instance=inst, semantic=True)
            same = _same_structure(op, kind)
            if same is None:
                ck.incomplete('M7', what, 'the structure the factory builds its factors on could not be followed (it is not obtained from the kind table and structure_for in a form the interpreter evaluates)', instance=inst + ' structure')
            else:
                ck.expect('M7', same, what, f'all factors share one structure, the {kind.name} built by class_for(stokes).structure_for(shape, dtype)',
                          'the factors of the factory product are not all built on the one structure of the requested Stokes kind', instance=inst + ' structure')
        except NonLinear as exc:
            ck.bad('M7', what, str(exc), instance=inst)
        except InterpRaise as exc:
            ck.bad('M7', what, f'the factory raises {exc.name}', instance=inst)
        except Incomplete as exc:
            ck.incomplete('M7', what, f'{exc.site}: {exc.why}', instance=inst)


def controls(world: World) -> list[Control]:
    return [
        Control('hwp-sign', lambda w: edit_def(w, f'{POL}.hwp', 'HWPOperator.mv', lambda fn: replace_expr(fn, 'StokesIQUVPyTree(x.i, x.q, -x.u, -x.v)', 'StokesIQUVPyTree(x.i, x.q, -x.u, x.v)')), 'C15.M2'),
        Control('transpose-sign', lambda w: edit_def(w, f'{POL}.qu_rotations', 'QURotationTransposeOperator.mv', lambda fn: replace_expr(fn, '-x.q * sin_2angles + x.u * cos_2angles', 'x.q * sin_2angles + x.u * cos_2angles')), 'C15.M4'),
        Control('factory-order', lambda w: edit_def(w, f'{POL}.hwp', 'HWPOperator.create', lambda fn: replace_expr(fn, 'rot.T @ hwp @ rot', 'rot @ hwp @ rot')), 'C15.M7'),
    ]

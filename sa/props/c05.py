"""C05 - declared structures are honest: overrides justified, dtype discipline, init-before-escape."""

from __future__ import annotations

import ast

from ..classes import CORE, OPERATOR_BASE
from ..initflow import InitFlow
from ..kinds import KindInterp, Lin
from ..loader import AnalysisError, World, enclosing, module_of, qualname
from ..mutate import edit_def, remove_stmt, replace_expr, replace_stmt
from ..opkinds import all_mv, concrete_mv_classes
from ..paths import function_paths
from ..run import Control
from ..terms import path_env, show, term
from .c03 import _ret
from .c08 import derive_square
from .c15 import Polarimetry

LEVEL = 'other'
RULE_TEXT = (
    'every class that overrides out_structure (written or patched by square) is enumerated and its override justified; every array '
    'creation reached by the abstract interpretation of an mv / as_matrix is enumerated and must carry an explicit dtype when its value '
    'flows to the result; every constructor path of every operator class is walked with the set of definitely assigned fields; an '
    'obligation is one (class | creation site | constructor, clause) item'
)
EXPLANATION = (
    'out_structure defaults to jax.eval_shape(self.mv, ...) and is honest by construction, so only overrides can lie: each square class '
    'is justified by a derived structure-preserving mv or a constructor guard, each written accessor of a composite agrees with the order '
    'in which mv applies its parts. A buffer created without dtype has the session default float type, so the result dtype would depend on '
    'the 64-bit flag: every creation on a result path must carry a dtype. Equinox flattens a bound method as all fields of self, so no '
    'constructor may hand self to JAX (or call a method that reads a field) before that field is assigned. Sizes and promoted dtypes are '
    'computed from the structures. Flag-dependent dtype canonicalisation of user-supplied float64 structures is not decided.'
)

BLOCKS = 'furax._base.blocks'
INDEX_FUNCS = {'arange', 'indices', 'tri'}


def run(ctx, ck) -> None:
    world, table = ctx.world, ctx.table
    ck.trust('jax.eval_shape(self.mv, in_structure) returns exactly the structure of what mv returns')
    kinds = all_mv(ctx)
    pol: Polarimetry = ctx.cache.get('polarimetry') or Polarimetry(world, table)
    ctx.cache['polarimetry'] = pol
    base = table.get(OPERATOR_BASE)
    generic = table.resolve(base, 'out_structure')
    if generic is None or not isinstance(generic.node, ast.FunctionDef):
        raise AnalysisError('anchor vanished: AbstractLinearOperator.out_structure')
    gt = _ret(generic.node)
    S = ('var', generic.node.args.args[0].arg)
    ck.expect('O1', gt == ('call', ('attr', ('var', 'jax'), 'eval_shape'), (('attr', S, 'mv'), ('IN', S)), ()), generic.node,
              'the default output structure is the abstract evaluation of mv on in_structure()', f'the default out_structure returns {show(gt)}', instance='default')

    # ------------------------------------------------------------------ O1 / O2
    nover = 0
    seen = set()
    for cls in table.operators():
        r = table.resolve(cls, 'out_structure')
        if r is None or r.node is generic.node:
            continue
        nover += 1
        if table.decorated_with(cls, 'square'):
            ok, why = derive_square(ctx, pol, kinds, cls, dtypes=True)
            if ok is True:
                ck.ok('O1', cls.node, f'out_structure = in_structure justified: {why}', instance=f'{cls.name} square')
            elif ok is False:
                ck.bad('O1', cls.node, f'{cls.name} declares out_structure = in_structure but {why}', instance=f'{cls.name} square')
            else:
                ck.incomplete('O1', cls.node, f'{cls.name} declares out_structure = in_structure and no justification is derivable: {why}', instance=f'{cls.name} square')
            continue
        if id(r.node) in seen:
            continue
        seen.add(id(r.node))
        owner = r.owner
        schema = ACCESSORS.get((owner.name if owner else '', 'out_structure'))
        if schema is None:
            ck.incomplete('O2', r.node, f'{cls.name}.out_structure ({r.provenance}) matches no accessor schema', instance=cls.name)
            continue
        _apply_schema(ck, owner, r.node, schema)
    ck.floor('O1', nover, 14, 'classes with a declared out_structure')
    for (cname, acc), schema in ACCESSORS.items():
        if acc != 'in_structure':
            continue
        cls = table.by_name(cname)
        fn = cls.own.get('in_structure')
        if isinstance(fn, ast.FunctionDef):
            _apply_schema(ck, cls, fn, schema)
        else:
            ck.bad('O2', cls.node, f'{cname} no longer defines in_structure')
    # the structures of the block operators are also decided by evaluation (shared with C10.B2); where it decides, the written
    # form of their accessors is kept only where it confirms
    from . import c10 as _c10

    if _c10.block_structures_by_evaluation(ctx, ck, 'O2'):
        ck.obs[:] = [o for o in ck.obs if not (o.rule.endswith('O2') and o.status != 'ok' and 'Block' in o.construct and 'by evaluation' not in o.construct)]

    # ------------------------------------------------------------------ O3 dtype discipline
    sites: dict[int, tuple] = {}
    roots = 0
    for cls in concrete_mv_classes(table):
        for method in ('mv', 'as_matrix'):
            r = table.resolve(cls, method)
            if r is None or not isinstance(r.node, ast.FunctionDef):
                continue
            ki = KindInterp(world, table)
            ki.analyse_method(cls, method, [Lin('Id')] if method == 'mv' else [])
            roots += 1
            for call, short, has_dtype in ki.creations:
                sites.setdefault(id(call), (call, short, has_dtype, f'{cls.name}.{method}'))
    ck.floor('O3', roots, 40, 'mv/as_matrix roots interpreted')
    ck.floor('O3', len(sites), 6, 'array creation sites on a result path')
    for call, short, has_dtype, via in sites.values():
        fn = enclosing(call, (ast.FunctionDef,))
        inst = short
        if short in INDEX_FUNCS:
            ck.ok('O3', call, f'{short}: index-valued (used to address, not as a value), reached from {via}', instance=inst, nontrivial=False)
            continue
        if short in ('array', 'asarray') and not has_dtype:
            # python-literal scalars are weakly typed: they adopt the dtype of the other operand
            lit = call.args and isinstance(call.args[0], (ast.Constant, ast.UnaryOp))
            ck.expect('O3', bool(lit), call, 'weakly-typed Python literal', f'jnp.{short} of a non-literal without dtype on a result path (reached from {via})', instance=inst, nontrivial=False)
            continue
        ck.expect('O3', has_dtype, call, f'explicit dtype on the result path (reached from {via})',
                  f'`{ast.unparse(call)[:60]}` creates a buffer without dtype on the result path of {via}: it has the session default float type, so with 64-bit mode on and float32 data the '
                  'result dtype differs from the declared one (or the update raises a dtype mismatch)', instance=inst)

    # O3b: every creation call in operator / rule code that some class method can reach carries a dtype that is
    # not a Python builtin type (float/int/complex are the session-default dtypes)
    from ..callgraph import CallGraph

    graph = ctx.cache.get('callgraph') or CallGraph(world, table)
    ctx.cache['callgraph'] = graph
    method_roots = [q for q, f in graph.functions.items() if isinstance(getattr(f, '_parent', None), ast.ClassDef)
                    and (table.find(qualname(f._parent)) is not None) and (table.is_subclass(table.find(qualname(f._parent)), OPERATOR_BASE)
                    or table.is_subclass(table.find(qualname(f._parent)), 'furax._base.rules.AbstractRule'))]
    reach = graph.reachable(method_roots)
    nscan = 0
    for q in sorted(reach):
        f = graph.functions.get(q)
        if f is None:
            continue
        mod = module_of(f)
        if not (mod.name.startswith('furax._base') or mod.name.startswith('furax.operators') or mod.name.startswith('furax.toast')):
            continue
        for call in ast.walk(f):
            if not isinstance(call, ast.Call):
                continue
            cq = world.qualify(mod, call.func) or ''
            if not cq.startswith('jax.numpy.'):
                continue
            short = cq[len('jax.numpy.'):]
            if short not in ('zeros', 'ones', 'empty', 'full', 'eye', 'identity'):
                continue
            nscan += 1
            dt = next((k.value for k in call.keywords if k.arg == 'dtype'), None)
            pos = {'zeros': 1, 'ones': 1, 'empty': 1, 'full': 2, 'eye': 3, 'identity': 1}[short]
            if dt is None and len(call.args) > pos:
                dt = call.args[pos]
            if dt is None:
                if id(call) not in sites:
                    ck.bad('O3', call, f'`{ast.unparse(call)[:60]}` creates a buffer without dtype in operator code reachable from a class method: its dtype is the session default', instance=f'{short} in {f.name}')
                continue
            builtin = isinstance(dt, ast.Name) and dt.id in ('float', 'int', 'complex', 'bool')
            ck.expect('O3', not builtin, call, f'dtype={ast.unparse(dt)[:40]} is derived from data / a field, not from a Python builtin type',
                      f'`{ast.unparse(call)[:70]}` uses the Python type `{ast.unparse(dt)}` as dtype: that is the session-default dtype (float64 with 64-bit mode on, float32 otherwise), so operators built from this buffer change the result dtype with the flag', instance=f'{short} in {f.name} dtype', nontrivial=False)
    ck.floor('O3', nscan, 8, 'creation calls in reachable operator/rule code')

    # ------------------------------------------------------------------ O4 init before escape
    flow = InitFlow(world, table)
    ninit = 0
    nesc = 0
    inits = set()
    for cls in table.operators():
        rep = flow.analyse(cls)
        if rep.init is None:
            continue
        ninit += 1
        inits.add(id(rep.init))
        nesc += len(rep.escapes)
        if rep.problems:
            for pr in rep.problems:
                ck.bad('O4', rep.init if pr.kind == 'unassigned-field' else pr.node, f'{cls.name}: {pr.detail}', instance=f'{cls.name} {pr.kind} {",".join(pr.fields)}')
        else:
            ck.ok('O4', rep.init, f'{cls.name}: every field is assigned before self reaches JAX or a method that reads it ({rep.stores} stores, {rep.calls_checked} uses of self checked, {len(rep.escapes)} escapes), every declared field assigned on all non-raising paths',
                  instance=cls.name)
    ck.floor('O4', len(inits), 15, 'distinct constructors')
    ck.floor('O4', nesc, 3, 'escapes of self inside constructors')

    # ------------------------------------------------------------------ O6 reduced operators keep the structures implied by their parts
    from . import c01

    sub = type(ck)(ck.pid)
    c01._r_nary(sub, world, table)
    c01._r_red(sub, world, table)
    c01._r_ident(sub, world, table)
    c01._r_drv(sub, world, table)
    # a rule that deletes a pair, or replaces it by a diagonal / a merged block operator, asserts in particular that
    # the structures of the replacement are those of the pair
    rules = table.rules()
    infos = {r.qual: c01.rule_info(table, r) for r in rules}
    c01._r_del(sub, world, table, rules, infos)
    c01._r_blk(sub, world, table, rules, infos)
    c01._r_ptp(sub, world, table)
    def structural(o) -> bool:
        """Obligations of C01 that are necessary for the *structures* of the reduced operator (value-level ones stay in C01)."""
        if o.rule.endswith(('R-RED', 'R-IDENT', 'R-DRV')):
            return True
        if o.rule.endswith('R-NARY'):
            return 'scalar product' not in o.construct
        if o.rule.endswith('R-DEL'):
            # deleting a pair of shape-changing operators: the structures survive for all shapes only if the pair is the identity
            return any(k in o.construct for k in ('MoveAxis', 'Reshape', 'Ravel'))
        if o.rule.endswith('R-BLK'):
            return 'product order' not in o.construct
        if o.rule.endswith('R-PTP'):
            return 'diagonal placement' in o.construct
        return False

    for o in sub.obs:
        if structural(o):
            o.rule = f'{ck.pid}.O6'
            ck.obs.append(o)
    ck.floor('O6', sum(1 for o in ck.obs if o.rule.endswith('O6')), 15, 'structure obligations on reduced operators')

    # ------------------------------------------------------------------ O7 a product or a sum is only built from operands whose structures agree
    # (an operator built from incompatible parts declares the output structure of its first factor and returns something
    # else: the structure guards of the arithmetic dunders, shared with C02.S1)
    from . import c02

    sub2 = type(ck)(ck.pid)
    c02.run(ctx, sub2)
    for o in sub2.obs:
        if o.rule.endswith('S1'):
            o.rule = f'{ck.pid}.O7'
            ck.obs.append(o)
    ck.floor('O7', sum(1 for o in ck.obs if o.rule.endswith('O7')), 14, 'structure guards of the arithmetic dunders')

    # ------------------------------------------------------------------ O8 the structure a block row / column declares is the one of its first
    # block: honest only if the construction refuses blocks that do not share it (shared with C10.B6)
    from . import c10

    sub3 = type(ck)(ck.pid)
    c10.construction_validation(ctx, sub3, table.get(f'{c10.BLOCKS}.BlockRowOperator'), table.get(f'{c10.BLOCKS}.BlockColumnOperator'))
    for o in sub3.obs:
        o.rule = f'{ck.pid}.O8'
        ck.obs.append(o)
    ck.floors.extend((r.replace('B6', 'O8'), c, m, w) for r, c, m, w in sub3.floors)
    ck.floor('O8', sum(1 for o in ck.obs if o.rule.endswith('O8')), 1, 'construction checks of the block row / column')

    for name, acc, kind in (('in_size', 'IN', 'size'), ('out_size', 'OUT', 'size'), ('in_promoted_dtype', 'IN', 'dtype'), ('out_promoted_dtype', 'OUT', 'dtype')):
        r = table.resolve(base, name)
        if r is None or not isinstance(r.node, ast.FunctionDef):
            raise AnalysisError(f'anchor vanished: AbstractLinearOperator.{name}')
        t = _ret(r.node)
        S = ('var', r.node.args.args[0].arg)
        leaves = ('call', ('attr', ('attr', ('var', 'jax'), 'tree'), 'leaves'), ((acc, S),), ())
        if kind == 'size':
            ok = t is not None and t[0] == 'call' and t[1] == ('var', 'sum') and t[2] and t[2][0][0] == 'comp' and t[2][0][2][0][1] == leaves and t[2][0][1] == ('attr', t[2][0][2][0][0], 'size')
        else:
            ok = t == ('call', ('attr', ('var', 'jnp'), 'result_type'), (('star', leaves),), ())
        # the right form on the structure of the other side is wrong whatever the way it is written
        other_side = repr(t).replace("'IN'", "'\x00'").replace("'OUT'", "'IN'").replace("'\x00'", "'OUT'") if t is not None else ''
        if kind == 'size':
            swapped = False
        else:
            swapped = not ok and other_side == repr(('call', ('attr', ('var', 'jnp'), 'result_type'), (('star', leaves),), ()))
        ck.expect('O5', ok, r.node, f'{name} is computed from the leaves of {"in" if acc == "IN" else "out"}_structure()',
                  f'{name} is {show(t)}: not computed from the leaves of {"in" if acc == "IN" else "out"}_structure()' + (' but from those of the other side' if swapped else ''), instance=name, semantic=swapped)


def _apply_schema(ck, cls, fn, schema) -> None:
    want_fn, text = schema
    t = _ret(fn)
    S = ('var', fn.args.args[0].arg)
    ok = t is not None and want_fn(t, S)
    ck.expect('O2', ok, fn, text, f'{cls.name}.{fn.name} returns {show(t)}: {text} is required', instance=f'{cls.name}.{fn.name}')


def _leafwise(acc):
    def f(t, S):
        return (t[0] == 'call' and t[1] == ('attr', S, '_tree_map') and len(t[2]) == 1 and t[2][0][0] == 'lambda' and len(t[2][0][1]) == 1
                and t[2][0][2] == (acc, ('var', t[2][0][1][0])))
    return f


ACCESSORS = {
    ('CompositionOperator', 'in_structure'): (lambda t, S: t == ('IN', ('sub', ('attr', S, 'operands'), ('unop', 'neg', ('const', '1')))),
                                              'input structure of the operand that mv applies first (the last one)'),
    ('CompositionOperator', 'out_structure'): (lambda t, S: t == ('OUT', ('sub', ('attr', S, 'operands'), ('const', '0'))),
                                               'output structure of the operand that mv applies last (the first one)'),
    ('AdditionOperator', 'in_structure'): (lambda t, S: t == ('IN', ('sub', ('attr', S, 'operand_leaves'), ('const', '0'))), 'input structure of a summand (all equal by construction)'),
    ('AdditionOperator', 'out_structure'): (lambda t, S: t == ('OUT', ('sub', ('attr', S, 'operand_leaves'), ('const', '0'))), 'output structure of a summand (all equal by construction)'),
    ('_AbstractLazyDualOperator', 'in_structure'): (lambda t, S: t == ('OUT', ('attr', S, 'operator')), 'lazy dual: input = operand output'),
    ('_AbstractLazyDualOperator', 'out_structure'): (lambda t, S: t == ('IN', ('attr', S, 'operator')), 'lazy dual: output = operand input'),
    ('AbstractBlockOperator', 'in_structure'): (_leafwise('IN'), 'container of the blocks\' input structures'),
    ('AbstractBlockOperator', 'out_structure'): (_leafwise('OUT'), 'container of the blocks\' output structures'),
    ('BlockRowOperator', 'out_structure'): (lambda t, S: t == ('OUT', ('sub', ('attr', S, 'block_leaves'), ('const', '0'))), 'shared output structure of the blocks (validated equal at construction)'),
    ('BlockColumnOperator', 'in_structure'): (lambda t, S: t == ('IN', ('sub', ('attr', S, 'block_leaves'), ('const', '0'))), 'shared input structure of the blocks (validated equal at construction)'),
    ('IndexOperator', 'out_structure'): (lambda t, S: t == ('attr', S, '_out_structure'), 'the stored structure (constructor argument or abstract evaluation, see O4)'),
}


def controls(world: World) -> list[Control]:
    return [
        Control('composition-out-from-last', lambda w: edit_def(w, CORE, 'CompositionOperator.out_structure', lambda fn: replace_expr(fn, 'self.operands[0].out_structure()', 'self.operands[-1].out_structure()')), 'C05.O2'),
        Control('buffer-without-dtype', lambda w: edit_def(w, 'furax.operators.toeplitz', 'SymmetricBandToeplitzOperator._apply_overlap_save', lambda fn: replace_expr(fn, 'jnp.zeros(l + x_padding_end, dtype=jnp.result_type(x, band_values))', 'jnp.zeros(l + x_padding_end)')), 'C05.O3'),
        Control('escape-before-assignment', lambda w: edit_def(w, 'furax._base.indices', 'IndexOperator.__init__', lambda fn: remove_stmt(fn, 'self._out_structure = out_structure')), 'C05.O4'),
        Control('square-on-broadcast', lambda w: edit_def(w, 'furax._base.diagonal', 'BroadcastDiagonalOperator', lambda c: c.decorator_list.insert(0, ast.Name(id='square', ctx=ast.Load()))) if False else _square_broadcast(w), 'C05.O1'),
    ]


def _square_broadcast(w: World) -> World:
    from ..mutate import find_def, variant

    def edit(tree):
        cls = find_def(tree, 'BroadcastDiagonalOperator')
        cls.decorator_list.insert(0, ast.Name(id='square', ctx=ast.Load()))
        tree.body.insert(0, ast.parse('from furax._base.core import square').body[0])

    return variant(w, 'furax._base.diagonal', edit)

"""C08 - algebraic tags are truthful: who may tag, every tag derived, rewiring consistent."""

from __future__ import annotations

import ast

from ..classes import CORE, OPERATOR_BASE, ClassInfo
from ..kinds import Lin
from ..linform import InterpRaise, LossyCoefficient, NonLinear
from ..loader import AnalysisError, Incomplete, World, enclosing, module_of, qualname
from ..mutate import edit_def, find_def, variant
from ..opkinds import all_mv
from ..paths import exception_name, function_paths
from ..poly import Matrix, Poly
from ..run import Control
from ..terms import facts as path_facts
from ..terms import show, term
from .c15 import Polarimetry, angle

LEVEL = 'other'
RULE_TEXT = (
    'every tag registration / tag use in the package is enumerated (who may tag); for every (class, tag) pair that evaluates to True '
    'through the MRO the tag is re-derived from the denotation of the class\'s mv (kind, exact Mueller matrix, constructor guard); for '
    'every class the rewiring done by the decorators is compared with what the class finally resolves; an obligation is one '
    '(class, tag) or (registration site) item'
)
EXPLANATION = (
    'Static decision that no tag lies: (G1) tags are asserted only inside the decorator functions of core.py, with constant lambdas, '
    'plus the one documented solver precondition in InverseOperator.mv; (G2) each True tag is derived - diagonal from Id/Scale kinds or '
    'an exactly derived diagonal Mueller matrix, symmetric from diagonal (the banded Toeplitz symmetry is a listed assumption), '
    'orthogonal from M^T M = I / Id, square from a structure-preserving mv or a constructor guard; a semidefinite tag on a class whose '
    'matrix is linear in an unconstrained parameter array is refuted (negating the parameters negates the operator); (G3) a class with '
    'a symmetric ancestor resolves transpose to the self-returning function, with an orthogonal ancestor resolves inverse to its own '
    'transpose, with a square ancestor resolves out_structure and in_structure to the same function.'
)

TAGS = ['is_diagonal', 'is_symmetric', 'is_lower_triangular', 'is_upper_triangular', 'is_tridiagonal', 'is_positive_semidefinite', 'is_negative_semidefinite']
DECORATORS = {'diagonal', 'lower_triangular', 'upper_triangular', 'symmetric', 'positive_semidefinite', 'negative_semidefinite', 'square', 'orthogonal'}


def run(ctx, ck) -> None:
    world, table = ctx.world, ctx.table
    ck.assume('the symmetric band Toeplitz matrix T[i,j] = band[|i-j|] is symmetric (mathematical fact about the intended matrix; the kernels\' computed result is C09\'s business)')
    if table.default_tags is None:
        base = table.find(f'{CORE}.AbstractLinearOperator')
        hook = base.own.get('__init_subclass__') if base is not None else None
        metaclass = base is not None and any(k.arg == 'metaclass' for k in base.node.keywords)
        if base is not None and hook is None and not metaclass:
            ck.bad('G1', base.node, 'AbstractLinearOperator has no __init_subclass__: the default-False tags are no longer registered for every subclass at its creation, so a subclass that '
                   'is not decorated answers the tag queries with whatever a tagged base later in its MRO declared (e.g. class X(Mixin, DiagonalOperator) is reported diagonal and symmetric '
                   'whatever Mixin does to the matrix)', instance='per-subclass default tags')
        else:
            ck.incomplete('G1', f'{CORE}._monkey_patch_operator', 'the default-False tag registration of __init_subclass__ was not recognised')
    # the scalar operator is tagged diagonal, symmetric and square: true only if its value is 0-d, i.e. if the arithmetic that
    # builds it refuses every other factor (shared with C02.S4, decided by evaluation)
    from . import c02 as _c02

    _sub = type(ck)(ck.pid)
    _base = table.get(f'{CORE}.AbstractLinearOperator')
    _c02._scalar_arithmetic_by_evaluation(ctx, _sub, _base, table.get(f'{CORE}.HomothetyOperator'), table.get(f'{CORE}.CompositionOperator'))
    for _o in _sub.obs:
        if 'non-scalar factors refused' in _o.construct:
            _o.rule = f'{ck.pid}.G2'
            ck.obs.append(_o)
    # the symmetric tag of the band Toeplitz operator rests on the assumption that mv computes T x, which C09 establishes for the
    # methods listed in METHODS: it is truthful only if no other method can be requested (shared with C09.Z1)
    from . import c09 as _c09

    _sub9 = type(ck)(ck.pid)
    _c09.run(ctx, _sub9)
    for _o in _sub9.obs:
        if _o.rule.endswith('Z1') and 'unknown method' in _o.construct:
            _o.rule = f'{ck.pid}.G2'
            ck.obs.append(_o)
    kinds = all_mv(ctx)
    pol: Polarimetry = ctx.cache.get('polarimetry') or Polarimetry(world, table)
    ctx.cache['polarimetry'] = pol

    # ------------------------------------------------------------------ G1 who may tag
    nreg = 0
    for module in world.modules.values():
        for node in ast.walk(module.tree):
            if isinstance(node, ast.Call) and isinstance(node.func, ast.Attribute) and node.func.attr == 'register':
                q = world.qualify(module, node.func.value)
                is_tag = (q or '').startswith('lineax.is_')
                if not is_tag and isinstance(node.func.value, ast.Name):
                    # a loop variable ranging over tag functions
                    fn = enclosing(node, (ast.FunctionDef,))
                    loop = enclosing(node, (ast.For,))
                    if loop is not None and isinstance(loop.target, ast.Name) and loop.target.id == node.func.value.id:
                        elts = loop.iter.elts if isinstance(loop.iter, (ast.List, ast.Tuple)) else []
                        if not elts and isinstance(loop.iter, ast.Name):
                            d = module_of(loop.iter).defs.get(loop.iter.id)
                            if isinstance(d, (ast.Assign, ast.AnnAssign)) and isinstance(d.value, (ast.List, ast.Tuple)):
                                elts = d.value.elts
                        is_tag = bool(elts) and all((world.qualify(module_of(e), e) or '').startswith('lineax.is_') for e in elts)
                if not is_tag:
                    continue
                nreg += 1
                fn = enclosing(node, (ast.FunctionDef,))
                outer = enclosing(node, (ast.Call,))
                lam = outer.args[0] if isinstance(outer, ast.Call) and outer.func is node and outer.args else None
                const = isinstance(lam, ast.Lambda) and isinstance(lam.body, ast.Constant) and isinstance(lam.body.value, bool)
                where = qualname(fn) if fn is not None else f'{module.name} (module level)'
                allowed = fn is not None and module.name == CORE and (fn.name in DECORATORS or fn.name == '_monkey_patch_operator')
                if allowed and const:
                    ck.ok('G1', node, f'registration with a constant answer inside {fn.name}', instance=f'{fn.name}:{ast.unparse(node.func.value)}')
                elif allowed:
                    ck.bad('G1', node, f'tag registration inside {fn.name} whose answer is not a constant: {ast.unparse(lam) if lam is not None else "?"}', instance=where)
                else:
                    ck.bad('G1', node, f'a lineax tag is registered in {where}, outside the decorator functions of core.py'
                           + ('' if const else f', with a computed answer ({ast.unparse(lam)[:60] if lam is not None else "?"}): e.g. forwarding the operand\'s tags to a transpose leaves lower/upper triangular unswapped'), instance=where)
            elif isinstance(node, ast.Attribute) and node.attr.endswith('_tag'):
                q = world.qualify(module, node)
                if (q or '').startswith('lineax.'):
                    fn = enclosing(node, (ast.FunctionDef,))
                    ok = fn is not None and qualname(fn) == f'{CORE}.InverseOperator.mv' and node.attr == 'positive_semidefinite_tag'
                    ck.expect('G1', ok, node, 'the documented solver precondition (CG needs a positive (semi)definite operand): not a class tag',
                              f'a lineax tag object ({node.attr}) is attached to an operator outside InverseOperator.mv', instance=f'{qualname(fn) if fn else module.name}:{node.attr}', nontrivial=False)
    ck.floor('G1', nreg, 7, 'tag registration sites')

    # ------------------------------------------------------------------ G2 every True tag is derived
    classes = table.operators()
    ntrue = 0
    for cls in classes:
        for tag in TAGS:
            val, prov = table.tag(cls, tag)
            if val is not True:
                continue
            ntrue += 1
            ok, why = _derive_tag(ctx, ck, pol, kinds, cls, tag)
            inst = f'{cls.name}:{tag}'
            if ok is True:
                ck.ok('G2', cls.node, f'{tag} derived: {why} (registered by {prov})', instance=inst)
            elif ok is False:
                ck.bad('G2', cls.node, f'{cls.name} is tagged {tag} ({prov}) but the property can fail: {why}', instance=inst)
            else:
                ck.incomplete('G2', cls.node, f'{cls.name} is tagged {tag} ({prov}) and no derivation is available: {why}', instance=inst)
    ck.floor('G2', ntrue, 10, 'true (class, tag) pairs')
    for cls in classes:
        if table.decorated_with(cls, 'orthogonal'):
            ok, why = _derive_orthogonal(ctx, pol, kinds, cls)
            if ok is True:
                ck.ok('G2', cls.node, f'orthogonal derived: {why}', instance=f'{cls.name}:orthogonal')
            elif ok is False:
                ck.bad('G2', cls.node, f'{cls.name} is declared orthogonal but {why}', instance=f'{cls.name}:orthogonal', semantic=('matri' in why or 'M^T M' in why))  # a refutation by derived exact matrices is not a written-form rule
            else:
                ck.incomplete('G2', cls.node, f'{cls.name} is declared orthogonal and no derivation is available: {why}', instance=f'{cls.name}:orthogonal')
        if table.decorated_with(cls, 'square'):
            ok, why = derive_square(ctx, pol, kinds, cls)
            if ok is True:
                ck.ok('G2', cls.node, f'square derived: {why}', instance=f'{cls.name}:square')
            elif ok is False:
                ck.bad('G2', cls.node, f'{cls.name} is declared square but {why}', instance=f'{cls.name}:square')
            else:
                ck.incomplete('G2', cls.node, f'{cls.name} is declared square and no derivation is available: {why}', instance=f'{cls.name}:square')

    # ------------------------------------------------------------------ G3 rewiring consistent
    for cls in classes:
        rt, ri = table.resolve(cls, 'transpose'), table.resolve(cls, 'inverse')
        rin, rout = table.resolve(cls, 'in_structure'), table.resolve(cls, 'out_structure')
        if table.decorated_with(cls, 'symmetric'):
            is_self = rt is not None and isinstance(rt.node, ast.Lambda) and len(rt.node.args.args) == 1 and term(rt.node.body) == ('var', rt.node.args.args[0].arg)
            ck.expect('G3', is_self, cls.node, 'symmetric ancestor: transpose resolves to the self-returning function',
                      f'{cls.name} has a symmetric ancestor but its transpose resolves to {rt.provenance if rt else "-"} (a later override defeats "A.T is A")', instance=f'{cls.name}:transpose')
        if table.decorated_with(cls, 'orthogonal'):
            ck.expect('G3', rt is not None and ri is not None and rt.node is ri.node, cls.node, 'orthogonal ancestor: inverse resolves to the function transpose resolves to on this class',
                      f'{cls.name} has an orthogonal ancestor but inverse ({ri.provenance if ri else "-"}) and transpose ({rt.provenance if rt else "-"}) resolve to different functions: A.I does not act as A.T', instance=f'{cls.name}:inverse')
        if table.decorated_with(cls, 'square'):
            ck.expect('G3', rin is not None and rout is not None and rin.node is rout.node, cls.node, 'square ancestor: out_structure and in_structure resolve to the same function',
                      f'{cls.name} has a square ancestor but out_structure ({rout.provenance if rout else "-"}) is not its in_structure ({rin.provenance if rin else "-"}): a subclass overrode one side after the decorator bound the other', instance=f'{cls.name}:out_structure')


def _polarimetry_matrices(pol: Polarimetry, cls: ClassInfo):
    if cls not in (pol.hwp, pol.rot, pol.rott, pol.plr):
        return None
    out = []
    for kind in pol.kinds:
        out.append((pol.letters(kind), pol.matrix(pol.make(cls, angle('a')), kind, cls.name)))
    return out


def _strict_guard(table, cls: ClassInfo) -> bool:
    """The strict diagonal variant refuses every request whose product does not have the shape of the leaf: recognised in
    its usual written form, and otherwise decided by interpreting the construction and application of the class (C11.D7)."""
    if _strict_guard_written(table, cls):
        return True
    from . import c11

    return c11.strict_rejection(table.world, table, cls) is True


def _strict_guard_written(table, cls: ClassInfo) -> bool:
    """DiagonalOperator._check_leaf_shapes raises when the broadcast shape differs from the input leaf shape,
    and the inherited mv reaches it."""
    r = table.resolve(cls, '_check_leaf_shapes')
    if r is None or not isinstance(r.node, ast.FunctionDef):
        return False
    fn = r.node
    params = [a.arg for a in fn.args.args]
    if len(params) < 4:
        return False
    for p in function_paths(fn):
        if p.exit == 'raise':
            continue
        from ..terms import path_env

        env = path_env(p)
        fs = path_facts(p)
        shape_t = ('call', ('attr', ('var', 'jnp'), 'broadcast_shapes'), (('var', params[1]), ('var', params[2])), ())
        if ('eq', frozenset({shape_t, ('var', params[3])})) not in fs:
            return False
    mv = table.resolve(cls, 'mv')
    helper = table.resolve(cls, '_reshape_leaves')
    reach = mv is not None and helper is not None and '_reshape_leaves' in ast.unparse(mv.node) and '_check_leaf_shapes' in ast.unparse(helper.node)
    return bool(reach)


def _has_unconstrained_array_param(ctx, cls: ClassInfo) -> str | None:
    from ..kinds import KindInterp, Par

    ki = KindInterp(ctx.world, ctx.table)
    for f in ctx.table.fields(cls):
        if not f.static and isinstance(ki.field_value(f), Par):
            return f.name
    return None


def _derive_tag(ctx, ck, pol, kinds, cls: ClassInfo, tag: str):
    table = ctx.table
    s = kinds.get(cls.qual)
    k = s.value.k if s is not None and isinstance(s.value, Lin) else None
    try:
        mats = _polarimetry_matrices(pol, cls)
    except LossyCoefficient as exc:
        return False, str(exc)
    except (NonLinear, InterpRaise, Incomplete) as exc:
        return None, f'cannot derive the Mueller matrix: {exc}'
    if tag in ('is_diagonal', 'is_symmetric', 'is_tridiagonal'):
        if mats is not None:
            if tag == 'is_symmetric':
                bad = [L for L, m in mats if m.rows != m.cols or not (m == m.T)]
            else:
                bad = [L for L, m in mats if not m.is_diagonal()]
            return (not bad), ('exact Mueller matrix is ' + tag[3:] + ' for all four Stokes kinds' if not bad else f'the derived matrix is not {tag[3:]} on kinds {bad}')
        if k in ('Id', 'Scale'):
            return True, f'mv is an element-wise scaling that keeps the structure (kind {k})'
        if k == 'RScale':
            if _strict_guard(table, cls):
                return True, 'mv multiplies each leaf element-wise by broadcast values (kind RScale) and the strict variant rejects any shape change'
            return False, 'mv broadcasts the values (kind RScale) without the strict shape-preservation guard: the matrix is not square diagonal in general'
        if tag == 'is_symmetric' and cls.name == 'SymmetricBandToeplitzOperator':
            return True, 'assumed: T[i,j] = band[|i-j|] (listed assumption)'
        return None, f'mv kind {k}'
    if tag in ('is_positive_semidefinite', 'is_negative_semidefinite'):
        if mats is not None:
            ok = all(m.is_diagonal() and all(m.data[i][i].is_const() and (m.data[i][i].const_value() >= 0) == (tag == 'is_positive_semidefinite') or m.data[i][i].is_zero() for i in range(len(m.rows))) for _, m in mats)
            return ok, 'constant diagonal matrix with entries of the right sign' if ok else 'the derived matrix has diagonal entries of the wrong sign or is not diagonal with constant entries'
        if k == 'Id':
            return (tag == 'is_positive_semidefinite'), 'identity'
        p = _has_unconstrained_array_param(ctx, cls)
        if p is not None and k is not None:
            return False, (f'the matrix is linear in the parameter array `{p}`, which the constructor does not constrain: negating `{p}` negates the operator, '
                           'so it cannot be semidefinite of one sign for all parameter values')
        return None, f'mv kind {k}'
    if tag in ('is_lower_triangular', 'is_upper_triangular'):
        if mats is not None:
            lower = tag == 'is_lower_triangular'
            ok = all(m.rows == m.cols and all(m.data[i][j].is_zero() for i in range(len(m.rows)) for j in range(len(m.cols)) if (j > i if lower else j < i)) for _, m in mats)
            return ok, 'zero pattern of the exact Mueller matrix'
        if k in ('Id', 'Scale'):
            return True, f'diagonal (kind {k})'
        return None, f'mv kind {k}'
    return None, 'unknown tag'


def _derive_orthogonal(ctx, pol, kinds, cls: ClassInfo):
    table = ctx.table
    s = kinds.get(cls.qual)
    k = s.value.k if s is not None and isinstance(s.value, Lin) else None
    if cls in (pol.rot, pol.rott, pol.hwp, pol.plr):
        try:
            mats = _polarimetry_matrices(pol, cls)
        except LossyCoefficient as exc:
            return False, str(exc)
        except (NonLinear, InterpRaise, Incomplete) as exc:
            return None, str(exc)
        bad = [L for L, m in mats if m.rows != m.cols or not ((m.T @ m) == Matrix.identity(m.cols))]
        return (not bad), ('M^T M = I for all angles and Stokes kinds' if not bad else f'M^T M != I on kinds {bad}')
    if k == 'Id':
        return True, 'identity (kind Id)'
    if table.is_subclass(cls, f'{CORE}.TransposeOperator'):
        # a lazy dual of an orthogonal operand: every concrete subclass must type its operand as an orthogonal class
        subs = [c for c in table.subclasses(cls) if c is not cls] or []
        if cls.name == 'AbstractLazyInverseOrthogonalOperator':
            bad = []
            for c in subs:
                f = next((f for f in table.fields(c) if f.name == 'operator'), None)
                q = None
                if f is not None:
                    from ..loader import dotted

                    for n in ast.walk(f.annotation):
                        d = dotted(n) if isinstance(n, (ast.Name, ast.Attribute)) else None
                        qq = ctx.world.qualify(f.owner.module, d) if d else None
                        kc = table.find(qq) if qq else None
                        if kc is not None:
                            q = kc
                if q is None or not table.decorated_with(q, 'orthogonal'):
                    bad.append(c.name)
            return (not bad), ('every concrete subclass wraps an operand typed as an orthogonal class' if not bad else f'subclasses {bad} wrap an operand that is not typed orthogonal')
        return None, 'lazy dual'
    return None, f'mv kind {k}'


def derive_square(ctx, pol, kinds, cls: ClassInfo, dtypes: bool = False):
    """out_structure = in_structure justified?  With ``dtypes`` the leaf dtypes count too (C05); the square *tag* of C08 is
    about the shape of the matrix only."""
    table = ctx.table
    s = kinds.get(cls.qual)
    k = s.value.k if s is not None and isinstance(s.value, Lin) else None
    if cls in (pol.rot, pol.rott, pol.hwp, pol.plr):
        try:
            for kind in pol.kinds:
                from ..linform import Rec

                before = len(pol.interp.promotions)
                y = pol.out_kind(pol.make(cls, angle('a')), kind)
                if not (isinstance(y, Rec) and y.cls is kind):
                    return False, f'its mv maps a {kind.name} to {getattr(getattr(y, "cls", None), "name", "an array")}: output and input structures differ'
                promoted = pol.interp.promotions[before:]
                if dtypes and promoted and len(y.comps) > 1:
                    return False, (f'its mv rebuilds the {kind.name} through a helper that promotes all components to one dtype ({promoted[0]}): '
                                   'for an input whose components have different dtypes the returned leaf dtypes differ from those of the input structure')
        except (NonLinear, InterpRaise, Incomplete) as exc:
            return None, str(exc)
        return True, 'mv returns the Stokes kind it receives, component shapes unchanged'
    if k in ('Id', 'Scale'):
        return True, f'mv keeps the structure (kind {k})'
    if k == 'RScale':
        return (True, 'element-wise scaling under the strict shape-preservation guard') if _strict_guard(table, cls) else (False, 'mv broadcasts (kind RScale) without the strict shape-preservation guard')
    if cls.name == 'SymmetricBandToeplitzOperator':
        mv = table.resolve(cls, 'mv')
        from ..loader import string_constants

        sig = [v for v in string_constants(mv.node) if '->' in v] if mv else []
        ok = any(x.replace(' ', '') == '(n),(k)->(n)' for x in sig)
        return ok, 'vectorize signature (n),(k)->(n): the core axis keeps its length' if ok else f'vectorize signature {sig} does not map the core axis n to n'
    if cls.name == 'ToastObservationMatrixOperator':
        init = table.resolve(cls, '__init__')
        ok = False
        if init and isinstance(init.node, ast.FunctionDef):
            from ..terms import raise_paths

            stored = None
            for st in ast.walk(init.node):
                if isinstance(st, ast.Assign) and any(isinstance(t, ast.Attribute) and t.attr == 'matrix' for t in st.targets):
                    stored = st
            for fs, env, p in raise_paths(init.node, 'ValueError'):
                for f in fs:
                    if f[0] == 'ne' and len(f[1]) == 2:
                        a, b = tuple(f[1])
                        if a[0] == 'sub' and b[0] == 'sub' and a[1] == b[1] and a[1][0] == 'attr' and a[1][2] == 'shape' and {a[2], b[2]} == {('const', '0'), ('const', '1')}:
                            m = a[1][1]
                            if stored is not None and term(stored.value, env) == m:
                                ok = True
        return ok, 'constructor guard: the matrix is square' if ok else 'no constructor guard that the matrix is square'
    if table.is_subclass(cls, f'{CORE}._AbstractLazyDualOperator'):
        return _derive_orthogonal(ctx, pol, kinds, cls)
    return None, f'mv kind {k}'


def controls(world: World) -> list[Control]:
    def add_psd(tree):
        cls = find_def(tree, 'SymmetricBandToeplitzOperator')
        cls.decorator_list.insert(0, ast.Name(id='positive_semidefinite', ctx=ast.Load()))
        tree.body.insert(0, ast.parse('from furax.operators import positive_semidefinite').body[0])

    def diagonal_on_broadcast(tree):
        cls = find_def(tree, 'BroadcastDiagonalOperator')
        cls.decorator_list.insert(0, ast.Name(id='diagonal', ctx=ast.Load()))

    def forward_tags(tree):
        tree.body.extend(ast.parse('lx.is_symmetric.register(TransposeOperator)(lambda op: lx.is_symmetric(op.operator))').body)

    return [
        Control('psd-on-toeplitz', lambda w: variant(w, 'furax.operators.toeplitz', add_psd), 'C08.G2'),
        Control('diagonal-on-broadcast', lambda w: variant(w, 'furax._base.diagonal', diagonal_on_broadcast), 'C08.G2'),
        Control('tag-forwarding', lambda w: variant(w, CORE, forward_tags), 'C08.G1'),
        Control('decorator-reorder', lambda w: edit_def(w, CORE, 'IdentityOperator', lambda c: c.decorator_list.reverse()), 'C08.G3'),
    ]

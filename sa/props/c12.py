"""C12 - indexing and packing select; transposes scatter-add; rules."""

from __future__ import annotations

import ast

from ..initflow import InitFlow
from ..kinds import Lin, describe
from ..loader import AnalysisError, World
from ..mutate import edit_def, remove_stmt, replace_expr, replace_stmt
from ..opkinds import all_mv
from ..paths import Path, exception_name, function_paths
from ..rulesem import rule_info
from ..run import Control
from ..terms import facts as path_facts
from ..terms import path_env, show, term
from . import c01
from .c03 import _ret

LEVEL = 'other'
IDX = 'furax._base.indices'
RULE_TEXT = (
    'the index and pack operators, their constructor paths, the uniqueness flag, their three rules and the Stokes container indexing are '
    'enumerated clause by clause; an obligation is one (construct, clause) item; non-trivial = discharged by kind inference, '
    'definite-assignment analysis, guard facts or a term derivation'
)
EXPLANATION = (
    'Static decision of the selection structure: both mv are pure selections leaf[indices] / x[mask] of the input (Select kind: each output '
    'element is one input element), so the generic transpose is the scatter-add adjoint (JAX, trusted); the index operator is '
    'constructible with and without an explicit output structure (no field read or JAX escape before assignment), rejects boolean masks '
    'without output structure and several ellipses; unique_indices is forced true only when every index is an int, slice, ellipsis or '
    'boolean array; P P^T is deleted only under identity + uniqueness, pack pack^T under identity, P^T P becomes the multiplicity '
    'diagonal along the single indexed axis with negative aliases merged; the no-op index reduces to the identity only when no axis is '
    'indexed; indexing a Stokes container indexes every component named in `stokes` in field order. The indexed-axes arithmetic and the '
    'multiplicity values themselves are value-level and not decided.'
)


def _index_round_trip(ctx, ck, cls) -> None:
    """X6: the index expression the operator applies is the one it was built with, entry by entry.  The constructor and the
    `indices` accessor are interpreted (sa/axinterp.py) on every index expression of up to three entries over two integer
    arrays, a boolean mask, an integer, a slice, the ellipsis and None."""
    import itertools

    from ..axinterp import AxArr, Interp, Opaque, Raised, Undecided, UNK

    world, table = ctx.world, ctx.table
    A = AxArr(((frozenset({'a'}), 7),), 'int32')
    B = AxArr(((frozenset({'b'}), 5),), 'int32')
    M = AxArr(((frozenset({'m'}), 3),), bool)
    entries = [A, B, M, 0, slice(None), Ellipsis, None]
    names = {id(A): 'rows', id(B): 'cols', id(M): 'mask'}

    def text(t):
        return '(' + ', '.join(names.get(id(e), repr(e)) for e in t) + ')'

    wrong: list[str] = []
    undecided: list[str] = []
    n = 0
    for k in (1, 2, 3):
        for t in itertools.product(entries, repeat=k):
            if sum(e is Ellipsis for e in t) > 1 or len({id(e) for e in t if isinstance(e, AxArr)}) < sum(isinstance(e, AxArr) for e in t):
                continue
            n += 1
            it = Interp(world, table, budget=20_000)
            try:
                op = it.construct(cls, t, in_structure=Opaque('in'), out_structure=Opaque('out'))
                got = it.get_attr(op, 'indices', None)
            except Raised:
                continue  # refused: not an application of a wrong expression
            except Undecided as exc:
                undecided.append(f'{text(t)}: {exc}')
                continue
            if got is UNK or not isinstance(got, (tuple, list)):
                undecided.append(f'{text(t)}: the stored index expression cannot be followed')
                continue
            same = len(got) == len(t) and all((g is e) or (not isinstance(e, AxArr) and not isinstance(g, AxArr) and type(g) is type(e) and g == e) for g, e in zip(got, t))
            if not same:
                wrong.append(f'built with {text(t)}, applies {text(tuple(got))}')
        if len(undecided) > 3:
            break
    r = table.resolve(cls, 'indices')
    target = r.node if r is not None and isinstance(r.node, ast.AST) else cls.node
    if undecided:
        ck.incomplete('X6', target, f'the index expression kept by the operator could not be followed for {len(undecided)} of {n} expressions, e.g. {undecided[0]}', instance='index expression round trip')
    else:
        ck.expect('X6', not wrong, target, f'for all {n} index expressions of up to three entries the operator applies the expression it was built with, entry by entry',
                  f'the operator does not apply the index expression it was built with for {len(wrong)} of {n} expressions, e.g. {wrong[0] if wrong else ""} '
                  '(x[rows, cols] becomes x[cols, rows]: out-of-range values are clamped silently)', instance='index expression round trip')
    ck.floor('X6', n, 200, 'index expressions')


def run(ctx, ck) -> None:
    world, table = ctx.world, ctx.table
    ck.trust('JAX native indexing x[indices] selects elements; its linear transpose accumulates the selected positions into zeros (scatter-add)')
    index = table.get(f'{IDX}.IndexOperator')
    pack = table.by_name('PackOperator')
    kinds = all_mv(ctx)
    _index_round_trip(ctx, ck, index)
    # ------------------------------------------------------------------ X1
    for cls in (index, pack):
        s = kinds.get(cls.qual)
        if s is None:
            raise AnalysisError(f'anchor vanished: {cls.name}.mv')
        ok = isinstance(s.value, Lin) and s.value.k == 'Select' and not s.unknowns
        ck.expect('X1', ok, s.fn, f'{cls.name}.mv is a pure selection of input elements (kind Select)',
                  f'{cls.name}.mv is {describe(s.value)}: not a pure selection leaf[indices] of the input', instance=cls.name)
        rt = table.resolve(cls, 'transpose')
        ck.expect('X1', rt is not None and rt.owner is not None and rt.owner.name == 'AbstractLinearOperator', cls.node, 'the transpose is the generic one: scatter-add by jax.linear_transpose',
                  f'{cls.name}.transpose is {rt.provenance if rt else "-"}', instance=f'{cls.name} transpose', nontrivial=False)
    fn = index.own.get('mv')
    t = _ret(fn) if isinstance(fn, ast.FunctionDef) else None
    good = False
    if t is not None and isinstance(fn, ast.FunctionDef):
        S, x = ('var', fn.args.args[0].arg), ('var', fn.args.args[1].arg)
        if t[0] == 'call' and t[1] == ('attr', ('attr', ('var', 'jax'), 'tree'), 'map') and len(t[2]) == 2 and t[2][1] == x and t[2][0][0] == 'lambda' and len(t[2][0][1]) == 1:
            p = ('var', t[2][0][1][0])
            good = t[2][0][2] == ('sub', p, ('attr', S, 'indices'))
    ck.expect('X1', good, fn or index.node, 'every leaf is indexed by the stored indices: y = leaf[self.indices]', f'IndexOperator.mv is {show(t)}', instance='leaf[indices]')
    fn = pack.own.get('mv')
    t = _ret(fn) if isinstance(fn, ast.FunctionDef) else None
    good = isinstance(fn, ast.FunctionDef) and t == ('sub', ('var', fn.args.args[1].arg), ('attr', ('var', fn.args.args[0].arg), 'mask'))
    ck.expect('X6', good, fn or pack.node, 'pack returns x[self.mask]', f'PackOperator.mv is {show(t)}', instance='x[mask]')

    # ------------------------------------------------------------------ X2 construction
    flow = InitFlow(world, table)
    rep = flow.analyse(index)
    if rep.init is None:
        raise AnalysisError('anchor vanished: IndexOperator.__init__')
    if rep.problems:
        for pr in rep.problems:
            ck.bad('X2', pr.node if pr.kind != 'unassigned-field' else rep.init, f'IndexOperator cannot be constructed on some path: {pr.detail}', instance=f'{pr.kind} {",".join(pr.fields)}')
    else:
        ck.ok('X2', rep.init, f'constructible with and without an explicit output structure: every field is assigned before the abstract evaluation of mv ({len(rep.escapes)} escape, {rep.stores} stores)', instance='init order')
    init = rep.init
    # output structure: the argument, or the abstract evaluation when it is None
    ok_os = False
    for p in function_paths(init):
        if p.exit == 'raise':
            continue
        fs = path_facts(p)
        none_known = any(f[0] == 'is' and ('var', 'out_structure') in f[1] and ('const', 'None') in f[1] for f in fs)
        last = None
        for st in p.stmts():
            if isinstance(st, ast.Assign) and any(isinstance(tg, ast.Attribute) and tg.attr == '_out_structure' for tg in st.targets):
                last = term(st.value)
        abstract = ('call', ('attr', ('var', 'AbstractLinearOperator'), 'out_structure'), (('var', init.args.args[0].arg),), ())
        if none_known and last == abstract:
            ok_os = True
        if last == ('or', ('var', 'out_structure'), abstract):
            ok_os = True
    ck.expect('X2', ok_os, init, 'without an explicit output structure the stored one is the abstract evaluation of mv', 'when out_structure is None the stored output structure is not the abstract evaluation of mv', instance='default output structure')
    raises = [p for p in function_paths(init) if p.exit == 'raise' and exception_name(p.node) == 'ValueError']
    from ..terms import ELEM, prop_equiv, quantified, raise_paths

    IDXV = ('var', init.args.args[1].arg)
    mask_p = ('and', ('call', ('var', 'isinstance'), (ELEM, ('var', 'Array')), ()), ('cmp', 'eq', ('attr', ELEM, 'dtype'), ('var', 'bool')))
    mask_guard = False
    for fs, _e, _p in raise_paths(init, 'ValueError'):
        none_os = any(f[0] == 'is' and ('var', 'out_structure') in f[1] and ('const', 'None') in f[1] for f in fs)
        some_mask = False
        for f in fs:
            if f[0] == 'truth' and f[2] is True:
                for base in (IDXV, ('tuple', IDXV)):
                    q = quantified(f[1], base)
                    if q and q[0] == 'any' and prop_equiv(q[1], mask_p):
                        some_mask = True
        if none_os and not some_mask:
            # or: an explicit loop over the entries that raises on the first boolean array
            env_l: dict = {}
            after_iter = None
            conj = []
            for ev in _p.events:
                if ev[0] == 'iter' and ev[2] and term(ev[1].iter, env_l) in (IDXV, ('tuple', IDXV)):
                    after_iter = ('elem', term(ev[1].iter, env_l))
                    conj = []
                elif ev[0] == 'cond' and after_iter is not None:
                    t = term(ev[1], env_l)
                    conj.append(t if ev[2] else ('unop', 'not', t))
                env_l = path_env(Path([ev]), env_l)
            if after_iter is not None and conj:
                from ..terms import subst as _sb

                some_mask = bool(prop_equiv(('and',) + tuple(conj) if len(conj) > 1 else conj[0], _sb(mask_p, {ELEM: after_iter})))
        mask_guard = mask_guard or (none_os and some_mask)
    ck.expect('X2', mask_guard, init, 'a boolean mask without explicit output structure is refused (its output shape is data dependent)', 'a boolean-mask index without output structure is no longer refused at construction', instance='mask needs structure')
    chk = index.own.get('_check_indices')
    ell = False
    if isinstance(chk, ast.FunctionDef):
        for p in function_paths(chk):
            if p.exit == 'raise' and exception_name(p.node) == 'ValueError':
                txt = ' '.join(ast.unparse(ev[1]) for ev in p.events if ev[0] == 'cond')
                ell = '> 1' in txt
    called = any(isinstance(n, ast.Call) and isinstance(n.func, ast.Attribute) and n.func.attr == '_check_indices' for n in ast.walk(init))
    ck.expect('X2', ell and called, chk or index.node, 'more than one ellipsis is refused at construction', 'several ellipses are no longer refused at construction', instance='one ellipsis')

    # ------------------------------------------------------------------ X3 uniqueness flag
    ok_u = True
    why = ''
    found_true = 0
    for p in function_paths(init):
        if p.exit == 'raise':
            continue
        env = path_env(p)
        val = env.get('unique_indices')
        if val == ('const', 'True'):
            found_true += 1
            if _kind_fact(path_facts(p), init) is not True:
                ok_u = False
                why = 'unique_indices is forced to True on a path where "every entry is an int, a slice, an ellipsis or a boolean mask" is not known to hold'
        stored = None
        for st in p.stmts():
            if isinstance(st, ast.Assign) and any(isinstance(tg, ast.Attribute) and tg.attr == 'unique_indices' for tg in st.targets):
                stored = term(st.value, path_env(p, upto=st))
        if stored is None:
            ok_u = False
            why = 'a path does not store unique_indices'
        elif stored not in (('const', 'True'), ('const', 'False'), ('var', 'unique_indices')):
            ok_u = False
            why = f'unique_indices stored as {show(stored)}'
    flag_kind_invariant(ck, table, 'X3')
    ck.expect('X3', ok_u and found_true >= 1, init, 'unique_indices is forced true only when every index is an int, a slice, an ellipsis or a boolean array; otherwise it is the caller\'s promise or False',
              f'the uniqueness flag can be true for indices that may repeat: {why}', instance='uniqueness flag')

    # ------------------------------------------------------------------ X4 rules
    rules = table.rules()
    infos = {r.qual: rule_info(table, r) for r in rules}
    sub = type(ck)(ck.pid)
    mine = [r for r in rules if r.name in ('IndexTransposeRule', 'PackUnpackRule')]
    c01._r_del(sub, world, table, mine, infos)
    c01._r_ptp(sub, world, table)
    for o in sub.obs:
        o.rule = f'{ck.pid}.X4'
        ck.obs.append(o)
    ck.floor('X4', len([o for o in sub.obs]), 6, 'rule obligations for index/pack')

    # ------------------------------------------------------------------ X5 no-op
    sub = type(ck)(ck.pid)
    c01._r_ident(sub, world, table)
    for o in sub.obs:
        if 'IndexOperator' in o.construct:
            o.rule = f'{ck.pid}.X5'
            ck.obs.append(o)
    ck.floor('X5', sum(1 for o in ck.obs if o.rule.endswith('X5')), 1, 'no-op reduction of the index operator')

    # ------------------------------------------------------------------ X6 Stokes packing
    stokes = table.get('furax.landscapes.StokesPyTree')
    gi = stokes.own.get('__getitem__')
    good = False
    why = '__getitem__ vanished'
    if isinstance(gi, ast.FunctionDef):
        S, idx = ('var', gi.args.args[0].arg), ('var', gi.args.args[1].arg)
        rets = [p for p in function_paths(gi) if p.exit == 'return']
        if len(rets) == 1:
            t = term(rets[0].node.value, path_env(rets[0]))
            # type(self)(*[getattr(self, stoke.lower())[index] for stoke in self.stokes])
            if t[0] == 'call' and t[1] == ('call', ('var', 'type'), (S,), ()) and len(t[2]) == 1 and t[2][0][0] == 'star' and t[2][0][1][0] == 'comp':
                c = t[2][0][1]
                tgt, it, ifs = c[2][0]
                want = ('sub', ('call', ('var', 'getattr'), (S, ('call', ('attr', tgt, 'lower'), (), ())), ()), idx)
                good = c[1] == want and it == ('attr', S, 'stokes') and not ifs
            why = show(t)
    ck.expect('X6', good, gi or stokes.node, 'indexing a Stokes container indexes every component named in `stokes`, in order, and rebuilds the same class',
              f'StokesPyTree.__getitem__ is {why}', instance='container indexing')
    for kind in table.subclasses(stokes, strict=True):
        letters, _ = table.class_attr(kind, 'stokes')
        fields = [f.name for f in table.fields(kind)]
        good = isinstance(letters, ast.Constant) and [c.lower() for c in letters.value] == fields
        ck.expect('X6', good, kind.node, f'fields {fields} are the lower-cased letters of stokes, in order', f'{kind.name}: fields {fields} vs stokes {ast.unparse(letters) if letters is not None else "?"}', instance=f'{kind.name} fields', nontrivial=False)


def _kind_fact(fs, init: ast.FunctionDef):
    """True / False when the facts of a path decide "every entry of indices is an int, a slice, an ellipsis or a boolean
    array" (however the test is spelled: the all(...) is lifted to a predicate on a generic entry and compared
    propositionally with the reference predicate), None when they do not."""
    from ..terms import ELEM, prop_equiv, quantified

    IDX = ('var', init.args.args[1].arg)
    static = ('call', ('var', 'isinstance'), (ELEM, ('tuple', ('var', 'int'), ('var', 'slice'), ('var', 'EllipsisType'))), ())
    mask = ('and', ('call', ('var', 'isinstance'), (ELEM, ('var', 'Array')), ()), ('cmp', 'eq', ('attr', ELEM, 'dtype'), ('var', 'bool')))
    want = ('or', static, mask)
    for f in fs:
        if f[0] != 'truth':
            continue
        for base in (IDX, ('tuple', IDX)):
            q = quantified(f[1], base)
            if q and q[0] == 'all' and prop_equiv(q[1], want):
                return f[2]
    return None


def flag_kind_invariant(ck, table, rule: str) -> None:
    """IndexOperator.__init__: a flag that may be false is stored only when some entry is an integer array.

    TransposeIndexRule reads `unique_indices` being false as "the single indexed entry is an integer array whose
    values may repeat" and hands that entry to jnp.unique; an int, a slice or a boolean mask there raises or is
    read as positions 0/1.  The constructor is the only writer of the flag, so the invariant is decided on its paths.
    """
    index = table.by_name('IndexOperator')
    init = index.own.get('__init__')
    if not isinstance(init, ast.FunctionDef):
        ck.incomplete(rule, index.node, 'IndexOperator.__init__ vanished', instance='flag implies integer array')
        return
    bad = ''
    n = 0
    for p in function_paths(init):
        if p.exit == 'raise':
            continue
        stored = None
        for st in p.stmts():
            if isinstance(st, ast.Assign) and any(isinstance(tg, ast.Attribute) and tg.attr == 'unique_indices' for tg in st.targets):
                stored = term(st.value, path_env(p, upto=st))
        if stored is None or stored == ('const', 'True'):
            continue
        n += 1
        from ..terms import facts as _pf

        if _kind_fact(_pf(p), init) is not False:
            bad = f'a path stores {show(stored)} without having established that some entry is neither an int, a slice, an ellipsis nor a boolean mask'
    ck.expect(rule, not bad and n >= 1, init, f'on the {n} paths that store a possibly false flag, the kind test over the entries is known to have failed: a false flag implies an integer-array entry',
              f'the uniqueness flag can be false for int/slice/boolean-mask entries ({bad}); TransposeIndexRule takes a false flag as licence to pass the entry to jnp.unique',
              instance='false flag implies integer array')


def controls(world: World) -> list[Control]:
    return [
        Control('escape-before-assignment', lambda w: edit_def(w, IDX, 'IndexOperator.__init__', lambda fn: remove_stmt(fn, 'self._out_structure = out_structure')), 'C12.X2'),
        Control('unique-forced', lambda w: edit_def(w, IDX, 'IndexOperator.__init__', lambda fn: replace_stmt(fn, 'unique_indices = False', 'unique_indices = True')), 'C12.X3'),
        Control('unique-guard-dropped', lambda w: edit_def(w, IDX, 'IndexTransposeRule.apply', lambda fn: remove_stmt(fn, 'if not left.unique_indices:', prefix=True)), 'C12.X4'),
        Control('noop-guard-weakened', lambda w: edit_def(w, IDX, 'IndexOperator.reduce', lambda fn: replace_expr(fn, 'len(self.indexed_axes) == 0', 'len(self.indexed_axes) <= 1')), 'C12.X5'),
    ]

"""C03 - transpose is the exact adjoint: resolution per class, structure swap, composites, lazy duals."""

from __future__ import annotations

import ast

from ..classes import CORE, OPERATOR_BASE
from ..kinds import Lin
from ..linform import InterpRaise, LossyCoefficient, NonLinear
from ..loader import AnalysisError, Incomplete, World
from ..mutate import edit_def, replace_expr
from ..opkinds import all_mv
from ..paths import function_paths
from ..run import Control
from ..terms import path_env, show, term
from .c15 import Polarimetry, angle

LEVEL = 'other'
RULE_TEXT = (
    'the transpose attribute of every operator class is resolved through the class table (MRO + decorator rewiring); each hand-written '
    'transpose is matched against the adjoint schema of its class (structures swapped, same data, reversed order, dual layout); the three '
    'hand-written dual mv are checked (exact matrix transpose for the rotation, Perm kind and input shapes for the reshape, same matrix '
    'field transposed for the observation matrix); an obligation is one (class, clause) pair'
)
EXPLANATION = (
    'Static decision of the structure of every transpose: classes resolving to the generic lazy transpose are adjoint by '
    'jax.linear_transpose (trusted) and transposable because their mv is built from linear primitives; self-transposing classes must be '
    'derivably symmetric; every hand-written transpose swaps the structures, keeps the data and uses the dual layout (reversed composition, '
    'row<->column of transposed blocks, swapped source/destination, rewritten subscripts on the output structure); A.T.T denotes A; the '
    'transposed rotation is proved to be the matrix transpose for all angles and Stokes kinds. The adjointness of the rewritten einsum '
    'subscripts (C14) and the symmetry of the Toeplitz kernels are not decided here.'
)


def run(ctx, ck) -> None:
    world, table = ctx.world, ctx.table
    ck.trust('jax.linear_transpose returns the exact adjoint of a function built from linear primitives')
    base = table.get(OPERATOR_BASE)
    generic = table.resolve(base, 'transpose')
    if generic is None or not isinstance(generic.node, ast.FunctionDef):
        raise AnalysisError('anchor vanished: AbstractLinearOperator.transpose')
    gt = _ret(generic.node)
    ck.expect('T1', gt == ('call', ('var', 'TransposeOperator'), (('var', generic.node.args.args[0].arg),), ()), generic.node,
              'the generic transpose is the lazy TransposeOperator(self)', f'the generic transpose returns {show(gt)}', instance='generic')
    kinds = all_mv(ctx)
    classes = table.operators()
    ck.floor('T1', len(classes), 31, 'operator classes')
    handwritten = {}
    for cls in classes:
        r = table.resolve(cls, 'transpose')
        if r is None:
            ck.bad('T1', cls.node, 'transpose does not resolve')
            continue
        if r.node is generic.node:
            s = kinds.get(cls.qual)
            if s is None:
                ck.ok('T1', cls.node, 'generic lazy transpose (abstract class: no mv of its own)', instance='generic', nontrivial=False)
            else:
                ck.expect('T1', isinstance(s.value, Lin), cls.node, f'generic lazy transpose; mv is built from linear primitives (kind {getattr(s.value, "k", "?")}), hence transposable',
                          f'{cls.name} relies on jax.linear_transpose but its mv is not linear ({s.value})', instance='generic')
        elif isinstance(r.node, ast.Lambda):
            body = term(r.node.body)
            arg = r.node.args.args[0].arg if r.node.args.args else None
            is_self = body == ('var', arg)
            sym = table.tag(cls, 'is_symmetric')[0] is True
            ck.expect('T1', is_self and sym, cls.node, f'self-transpose ({r.provenance.split(":")[0]}), class is tagged symmetric (truthfulness of the tag: C08)',
                      f'{cls.name}.transpose is a patched lambda returning {show(body)} on a class that is {"not " if not sym else ""}tagged symmetric', instance='self')
        else:
            handwritten[r.node] = handwritten.get(r.node, []) + [cls]
            ck.ok('T1', cls.node, f'hand-written transpose defined on {r.owner.name if r.owner else "?"} ({r.provenance})', instance='hand-written', nontrivial=False)
    ck.floor('T2', len(handwritten), 11, 'hand-written transposes')
    for fn, users in handwritten.items():
        owner = next(c for c in classes if c.own.get('transpose') is fn or any(v is fn for v in c.own.values()))
        schema = SCHEMAS.get(owner.name)
        if schema is None:
            ck.incomplete('T2', fn, f'{owner.name}.transpose matches no adjoint schema of the table', instance=owner.name)
            continue
        ok, why = schema(table, owner, fn)
        if not ok and owner.name == 'MoveAxisOperator':
            # written another way: decided by following the axes through the operator and its transpose (C13.A3)
            from . import c13

            sub = type(ck)(ck.pid)
            c13._moveaxis_transpose(ctx, sub, owner, fn, why)
            for o in sub.obs:
                o.rule = f'{ck.pid}.T2'
                o.construct = o.construct.replace('[moveaxis transpose]', f'[{owner.name}]')
                ck.obs.append(o)
            continue
        if not ok and owner.name in ('CompositionOperator', 'AdditionOperator'):
            # written another way: decided by evaluating the transpose of products / sums of opaque operators
            verdict = _composite_transpose_by_evaluation(ctx, owner)
            if verdict is not None:
                ncases, problems = verdict
                ck.expect('T2', not problems, fn, f'on {ncases} products / sums of opaque operators (flat and nested, with lazy transposes among the factors) the transpose holds the transposed factors in reverse order (sums: term by term)',
                          f'{problems[0] if problems else ""} ({len(problems)} of {ncases})', instance=owner.name, semantic=True)
                continue
        ck.expect('T2', ok, fn, why, f'{owner.name}.transpose is not the adjoint construction of its class: {why}', instance=owner.name)

    # ------------------------------------------------------------------ T4 lazy duals
    dual = table.get(f'{CORE}._AbstractLazyDualOperator')
    for acc, other, tag in (('in_structure', 'OUT', 'IN'), ('out_structure', 'IN', 'OUT')):
        fn = dual.own.get(acc)
        t = _ret(fn) if isinstance(fn, ast.FunctionDef) else None
        s = ('var', fn.args.args[0].arg) if isinstance(fn, ast.FunctionDef) else None
        ck.expect('T4', t == (other, ('attr', s, 'operator')), fn or dual.node, f'lazy dual: {acc}() is the operand\'s {"out" if other == "OUT" else "in"}_structure()',
                  f'the lazy dual reports {show(t)} as its {acc}: structures are not swapped', instance=f'dual {acc}')
    tr = table.get(f'{CORE}.TransposeOperator')
    mv = tr.own.get('mv')
    good = False
    why = 'mv missing'
    if isinstance(mv, ast.FunctionDef):
        p = [q for q in function_paths(mv) if q.exit == 'return']
        if len(p) == 1:
            s, x = ('var', mv.args.args[0].arg), ('var', mv.args.args[1].arg)
            t = term(p[0].node.value, path_env(p[0]))
            lt = ('call', ('attr', ('var', 'jax'), 'linear_transpose'), (('attr', ('attr', s, 'operator'), 'mv'), ('IN', ('attr', s, 'operator'))), ())
            good = t == ('sub', ('call', lt, (x,), ()), ('const', '0'))
            why = show(t)
    ck.expect('T4', good, mv or tr.node, 'TransposeOperator.mv = jax.linear_transpose(operator.mv, operator.in_structure())(x)[0]',
              f'TransposeOperator.mv does not transpose the operand\'s mv at the operand\'s input structure: {why}', instance='generic dual mv')
    # dual mvs
    pol: Polarimetry = ctx.cache.get('polarimetry') or Polarimetry(world, table)
    ctx.cache['polarimetry'] = pol
    a = angle('a')
    n = 0
    for kind in pol.kinds:
        L = pol.letters(kind)
        try:
            R = pol.matrix(pol.make(pol.rot, a), kind, 'R')
            Rt = pol.matrix(pol.make(pol.rott, a), kind, 'Rt')
            n += 1
            ck.expect('T4', Rt == R.T, f'{pol.rott.qual}.mv', 'the hand-written transposed rotation is the matrix transpose of the rotation, for all angles',
                      f'QURotationTransposeOperator.mv denotes {Rt}, the transpose of the rotation is {R.T}', instance=f'kind {L}', semantic=True)  # exact matrices derived from the code
        except LossyCoefficient as exc:
            ck.incomplete('T4', f'{pol.rott.qual}.mv', f'the exact matrices are not defined for every data dtype: {exc}', instance=f'kind {L}')
        except (NonLinear, InterpRaise) as exc:
            ck.bad('T4', f'{pol.rott.qual}.mv', f'cannot derive the matrix: {exc}', instance=f'kind {L}')
        except Incomplete as exc:
            ck.incomplete('T4', f'{pol.rott.qual}.mv', f'{exc.site}: {exc.why}', instance=f'kind {L}')
    ck.floor('T4', n, 4, 'symbolic transpose identities')
    rt = table.by_name('ReshapeTransposeOperator')
    s = kinds.get(rt.qual)
    mvn = rt.own.get('mv')
    ok_r = False
    why = ''
    if isinstance(mvn, ast.FunctionDef):
        t = _ret(mvn)
        S, x = ('var', mvn.args.args[0].arg), ('var', mvn.args.args[1].arg)
        if t and t[0] == 'call' and t[1] == ('attr', ('attr', ('var', 'jax'), 'tree'), 'map') and len(t[2]) == 3 and t[2][0][0] == 'lambda' and len(t[2][0][1]) == 2:
            p1, p2 = t[2][0][1]
            body = t[2][0][2]
            ok_r = body == ('call', ('attr', ('var', p1), 'reshape'), (('attr', ('var', p2), 'shape'),), ()) and t[2][1] == x and t[2][2] == ('OUT', S)
        why = show(t)
    ck.expect('T4', ok_r and s is not None and isinstance(s.value, Lin) and s.value.k == 'Perm', mvn or rt.node,
              'the reshape dual maps each leaf back to the shape of the matching leaf of its own output structure (= the operand\'s input structure); Perm kind',
              f'ReshapeTransposeOperator.mv does not reshape every leaf to the operand\'s input leaf shape: {why}', instance='reshape dual')
    _t5(ctx, ck)
    tt = table.by_name('ToastObservationMatrixTransposeOperator')
    tm = tt.own.get('mv')
    t = _ret(tm) if isinstance(tm, ast.FunctionDef) else None
    want = None
    if isinstance(tm, ast.FunctionDef):
        want = ('binop', '@', ('T', ('attr', ('attr', ('var', tm.args.args[0].arg), 'operator'), 'matrix')), ('var', tm.args.args[1].arg))
    fwd = table.by_name('ToastObservationMatrixOperator').own.get('mv')
    tf = _ret(fwd) if isinstance(fwd, ast.FunctionDef) else None
    wantf = ('binop', '@', ('attr', ('var', fwd.args.args[0].arg), 'matrix'), ('var', fwd.args.args[1].arg)) if isinstance(fwd, ast.FunctionDef) else None
    ck.expect('T4', t is not None and t == want and tf == wantf, tm or tt.node, 'the dual applies the transposed matrix field of the same operand that the forward mv applies',
              f'forward mv is {show(tf)}, dual mv is {show(t)}', instance='observation matrix dual')


def _t5(ctx, ck) -> None:
    """T5: the rewritten-subscript transpose of the einsum operator refuses what it cannot transpose (shared with C14)."""
    from . import c14

    sub = type(ck)(ck.pid)
    c14.run(ctx, sub)
    for o in sub.obs:
        if o.rule.endswith(('E2', 'E3', 'E4', 'E7')):
            o.rule = f'{ck.pid}.T5'
            ck.obs.append(o)
    ck.floor('T5', sum(1 for o in ck.obs if o.rule.endswith('T5')), 5, 'einsum transpose obligations')


def _ret(fn):
    if not isinstance(fn, ast.FunctionDef):
        return None
    rets = [p for p in function_paths(fn) if p.exit == 'return']
    if len(rets) != 1:
        return None
    return term(rets[0].node.value, path_env(rets[0]))


def _S(fn):
    return ('var', fn.args.args[0].arg)


def _map_T(t, S, container_method='_tree_map'):
    """self._tree_map(lambda op: op.T)"""
    return (
        t[0] == 'call' and t[1] == ('attr', S, container_method) and len(t[2]) == 1 and t[2][0][0] == 'lambda'
        and len(t[2][0][1]) == 1 and t[2][0][2] == ('T', ('var', t[2][0][1][0]))
    )


def s_addition(table, cls, fn):
    t, S = _ret(fn), _S(fn)
    if t and t[0] == 'call' and t[1] == ('var', 'AdditionOperator') and len(t[2]) == 1 and _map_T(t[2][0], S):
        return True, '(A+B)^T = A^T + B^T: every operand transposed, same container'
    return False, f'expected AdditionOperator(self._tree_map(lambda op: op.T)), found {show(t)}'


def s_composition(table, cls, fn):
    t, S = _ret(fn), _S(fn)
    if t and t[0] == 'call' and t[1] == ('var', 'CompositionOperator') and len(t[2]) == 1 and t[2][0][0] == 'comp':
        c = t[2][0]
        tgt, it, ifs = c[2][0]
        rev = it in (('call', ('var', 'reversed'), (('attr', S, 'operands'),), ()),
                     ('sub', ('attr', S, 'operands'), ('slice', ('none',), ('none',), ('unop', 'neg', ('const', '1')))))
        if c[1] == ('T', tgt) and rev and not ifs:
            return True, '(AB)^T = B^T A^T: every operand transposed, order reversed, unconditionally'
        return False, f'each operand transposed: {c[1] == ("T", tgt)}, order reversed: {rev} ({show(t)})'
    return False, f'expected CompositionOperator([op.T for op in reversed(self.operands)]) on every path, found {show(t)}'


def s_transpose_of_transpose(table, cls, fn):
    t, S = _ret(fn), _S(fn)
    if t == ('attr', S, 'operator'):
        return True, 'A.T.T is the wrapped operator itself'
    return False, f'expected self.operator, found {show(t)}'


def s_moveaxis(table, cls, fn):
    t, S = _ret(fn), _S(fn)
    if t and t[0] == 'call' and t[1] == ('var', 'MoveAxisOperator'):
        args = list(t[2])
        kws = dict(t[3])
        src = args[0] if args else kws.get('source')
        dst = args[1] if len(args) > 1 else kws.get('destination')
        st = kws.get('in_structure', args[2] if len(args) > 2 else None)
        if src == ('attr', S, 'destination') and dst == ('attr', S, 'source') and st == ('OUT', S):
            return True, 'source and destination swapped, input structure = output structure of self'
        return False, f'source={show(src)}, destination={show(dst)}, in_structure={show(st)}'
    return False, f'expected MoveAxisOperator(self.destination, self.source, in_structure=self.out_structure()), found {show(t)}'


def _dual_ctor(name):
    def schema(table, cls, fn):
        t, S = _ret(fn), _S(fn)
        if t == ('call', ('var', name), (S,), ()):
            dual = table.by_name(name)
            if table.is_subclass(dual, f'{CORE}._AbstractLazyDualOperator'):
                return True, f'{name}(self): a lazy dual (structures swapped by construction) with its own checked mv'
        return False, f'expected {name}(self), found {show(t)}'

    return schema


def _block(to_name):
    def schema(table, cls, fn):
        t, S = _ret(fn), _S(fn)
        if t and t[0] == 'call' and t[1] == ('var', to_name) and len(t[2]) == 1 and _map_T(t[2][0], S):
            return True, f'{to_name} of the transposed blocks over the same container'
        return False, f'expected {to_name}(self._tree_map(lambda op: op.T)), found {show(t)}'

    return schema


def s_dense(table, cls, fn):
    t, S = _ret(fn), _S(fn)
    want = ('call', ('var', 'DenseBlockDiagonalOperator'), (('attr', S, 'blocks'), ('OUT', S), ('call', ('attr', S, '_get_transposed_subscripts'), (('attr', S, 'subscripts'),), ())), ())
    if t == want:
        return True, 'same blocks, input structure = output structure of self, subscripts rewritten from self.subscripts'
    if t and t[0] == 'call' and t[1] == ('var', 'DenseBlockDiagonalOperator'):
        kws = dict(t[3])
        args = list(t[2])
        blocks = args[0] if args else kws.get('blocks')
        st = args[1] if len(args) > 1 else kws.get('in_structure')
        subs = args[2] if len(args) > 2 else kws.get('subscripts')
        if blocks == want[2][0] and st == want[2][1] and subs == want[2][2]:
            return True, 'same blocks, swapped structure, rewritten subscripts (keyword form)'
        return False, f'blocks={show(blocks)}, in_structure={show(st)}, subscripts={show(subs)}'
    return False, f'found {show(t)}'


SCHEMAS = {
    'AdditionOperator': s_addition,
    'CompositionOperator': s_composition,
    'TransposeOperator': s_transpose_of_transpose,
    'MoveAxisOperator': s_moveaxis,
    'AbstractRavelOrReshapeOperator': _dual_ctor('ReshapeTransposeOperator'),
    'BlockRowOperator': _block('BlockColumnOperator'),
    'BlockColumnOperator': _block('BlockRowOperator'),
    'BlockDiagonalOperator': _block('BlockDiagonalOperator'),
    'DenseBlockDiagonalOperator': s_dense,
    'QURotationOperator': _dual_ctor('QURotationTransposeOperator'),
    'ToastObservationMatrixOperator': _dual_ctor('ToastObservationMatrixTransposeOperator'),
}


def _composite_transpose_by_evaluation(ctx, owner):
    """(number of cases, problems) or None when not decided.  `X.T` is evaluated (sa/axinterp.py) for products and sums of
    opaque operators A, B, C and their lazy transposes, flat and nested: (F1 F2 ... Fn)^T must hold F_n^T ... F_1^T (a nested
    product contributes its factors in reverse as well), (S1 + S2)^T the transposed terms, with (X^T)^T = X."""
    from ..axinterp import Interp, Obj, Raised, StructLeaf, Undecided, UNK

    world, table = ctx.world, ctx.table
    comp, add, tr = table.by_name('CompositionOperator'), table.by_name('AdditionOperator'), table.by_name('TransposeOperator')
    base = table.get(f'{CORE}.AbstractLinearOperator')
    # an operator class whose transpose is the generic lazy one stands for "any operator"
    generic = next((k for k in table.operators() if k.name == 'IndexOperator' and (r_ := table.resolve(k, 'transpose')) is not None and r_.owner is base), None)
    if None in (generic, comp, add, tr):
        return None
    S = StructLeaf(((frozenset({'s'}), 3),))
    A, B, C = (Obj(generic, {'_in_structure': S, '__out__': S, 'name': n}) for n in 'ABC')
    tB = Obj(tr, {'operator': B, '__out__': S})
    out_fn = base.own.get('out_structure')

    def letters(o, transposed=False):
        """The product as a list of (operator, transposed?) read left to right, or None."""
        if not isinstance(o, Obj):
            return None
        if o.cls is comp:
            ops = o.attrs.get('operands')
            if not isinstance(ops, (list, tuple)):
                return None
            parts = [letters(x, transposed) for x in (reversed(ops) if transposed else ops)]
            return None if any(p_ is None for p_ in parts) else [l for p_ in parts for l in p_]
        if o.cls is tr and isinstance(o.attrs.get('operator'), Obj):
            return letters(o.attrs['operator'], not transposed)
        if o.cls is generic:
            return [(o.attrs['name'], transposed)]
        return None

    def cmp_(*ops):
        return Obj(comp, {'operands': list(ops), '__out__': S})

    problems: list[str] = []
    if owner is comp:
        cases = {'A @ B': cmp_(A, B), 'A @ B @ C': cmp_(A, B, C), 'A @ (B @ C)': cmp_(A, cmp_(B, C)), '(A @ B) @ C': cmp_(cmp_(A, B), C), 'A @ B.T @ C': cmp_(A, tB, C),
                 '(A @ B.T) @ (C @ A)': cmp_(cmp_(A, tB), cmp_(C, A))}
    else:
        cases = {'A + B': Obj(add, {'operands': [A, B], '__out__': S}), 'A + B.T + C': Obj(add, {'operands': [A, tB, C], '__out__': S}), "{'x': A, 'y': B @ C}": Obj(add, {'operands': {'x': A, 'y': cmp_(B, C)}, '__out__': S})}
    for text, op in cases.items():
        it = Interp(world, table, budget=40_000)
        it.constructible = {k.qual for k in table.operators()}
        if isinstance(out_fn, ast.FunctionDef):
            it.summaries[id(out_fn)] = lambda args, kwargs: args[0].attrs.get('__out__', UNK)
        try:
            res = it.get_attr(op, 'T', None)
        except Raised as exc:
            problems.append(f'({text}).T raises {exc.name}')
            continue
        except Undecided:
            return None
        if it.degraded or res is UNK:
            return None
        if owner is comp:
            got, want = letters(res), letters(op, True)
            if got is None:
                return None
            if got != want:
                show_ = lambda w: ' '.join(n + ('^T' if t_ else '') for n, t_ in w)  # noqa: E731
                problems.append(f'({text}).T is the product {show_(got)}, the adjoint is {show_(want)}')
        else:
            if not (isinstance(res, Obj) and res.cls is add):
                return None
            def terms(o):
                v = o.attrs.get('operands')
                return [v[k] for k in sorted(v)] if isinstance(v, dict) else list(v) if isinstance(v, (list, tuple)) else None
            g, w = terms(res), terms(op)
            if g is None or w is None or len(g) != len(w):
                problems.append(f'({text}).T does not hold one transposed term per term')
                continue
            for x, y in zip(g, w):
                lx_, ly_ = letters(x), letters(y, True)
                if lx_ is None:
                    return None
                if lx_ != ly_:
                    problems.append(f'({text}).T: a term is not the transpose of the corresponding term')
    return len(cases), problems


def controls(world: World) -> list[Control]:
    return [
        Control('unreversed-composition', lambda w: edit_def(w, CORE, 'CompositionOperator.transpose', lambda fn: replace_expr(fn, 'reversed(self.operands)', 'self.operands')), 'C03.T2'),
        Control('untransposed-block', lambda w: edit_def(w, 'furax._base.blocks', 'BlockRowOperator.transpose', lambda fn: replace_expr(fn, 'op.T', 'op')), 'C03.T2'),
        Control('wrong-structure', lambda w: edit_def(w, 'furax._base.dense', 'DenseBlockDiagonalOperator.transpose', lambda fn: replace_expr(fn, 'self.out_structure()', 'self.in_structure()')), 'C03.T2'),
        Control('dual-not-swapped', lambda w: edit_def(w, CORE, '_AbstractLazyDualOperator.in_structure', lambda fn: replace_expr(fn, 'self.operator.out_structure()', 'self.operator.in_structure()')), 'C03.T4'),
    ]

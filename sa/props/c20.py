"""C20 - Stokes containers and pytree helpers act leaf-wise and consistently."""

from __future__ import annotations

import ast

from ..loader import AnalysisError, World, module_of
from ..mutate import edit_def, replace_expr, replace_stmt
from ..paths import function_paths
from ..run import Control
from ..terms import facts as path_facts
from ..terms import path_env, show, term

LEVEL = 'other'
LAND = 'furax.landscapes'
TREE = 'furax.tree'
RULE_TEXT = (
    'the 10 arithmetic dunders, the two dispatch helpers, the unary operations, the kind tables (dict / Literal / ClassVar / fields), the '
    'five from_iquv implementations, every factory call site and every tree helper are enumerated; an obligation is one (function | '
    'table | call site, clause) item; non-trivial = discharged by a term derivation or a table comparison'
)
EXPLANATION = (
    'Static decision of the component-wise structure: each forward dunder calls _operation with the like-named operator function and '
    'each reflected one _roperation; _operation applies (own leaf, other) and _roperation (other, own leaf) in both the container and '
    'the scalar branch, and anything else returns NotImplemented; unary operations map over self; the fields of each Stokes class are '
    'the lower-cased letters of its `stokes` string; class_for\'s dict, the Literal of valid kinds and the subclasses agree; from_iquv '
    'passes exactly the class\'s own components in field order; every factory hands its arguments to the like-named *_like helper in '
    'that helper\'s parameter order (the positional orders of normal and uniform differ); zeros/ones are full with 0/1; dot maps vdot '
    'over (x, y) in that order and sums; as_promoted_dtype casts every leaf to the result_type of all leaves; *_like use each leaf\'s '
    'own shape and dtype. Numeric results and promotion outcomes are not decided.'
)

FORWARD = {'__add__': 'add', '__sub__': 'sub', '__mul__': 'mul', '__truediv__': 'truediv', '__pow__': 'pow'}
REFLECTED = {'__radd__': 'add', '__rsub__': 'sub', '__rmul__': 'mul', '__rtruediv__': 'truediv', '__rpow__': 'pow'}


def _ret(fn):
    rets = [p for p in function_paths(fn) if p.exit == 'return']
    if len(rets) != 1:
        return None
    return term(rets[0].node.value, path_env(rets[0]))


def run(ctx, ck) -> None:
    world, table = ctx.world, ctx.table
    stokes = table.get(f'{LAND}.StokesPyTree')
    land = world.module(LAND)
    # ------------------------------------------------------------------ V1 dunder tables
    n = 0
    for names, helper in ((FORWARD, '_operation'), (REFLECTED, '_roperation')):
        for dunder, opname in names.items():
            fn = stokes.own.get(dunder)
            if not isinstance(fn, ast.FunctionDef):
                ck.bad('V1', stokes.node, f'{dunder} vanished', instance=dunder)
                continue
            n += 1
            t = _ret(fn)
            S, o = ('var', fn.args.args[0].arg), ('var', fn.args.args[1].arg)
            from ..terms import canon_lambda

            op_t = term(ast.parse(f'operator.{opname}', mode='eval').body, {})
            binops = {'add': '+', 'sub': '-', 'mul': '*', 'truediv': '/', 'matmul': '@'}
            if opname in binops:
                op_t = ('lambda', ('_a', '_b'), ('binop', binops[opname], ('var', '_a'), ('var', '_b')))
            want = ('call', ('attr', S, helper), (op_t, o), ())
            if t is not None and t[0] == 'call' and len(t[2]) == 2:
                t = (t[0], t[1], (canon_lambda(t[2][0]), t[2][1]), t[3])
            ck.expect('V1', t == want, fn, f'{dunder} -> {helper}(operator.{opname}, other)',
                      f'{dunder} returns {show(t)} instead of self.{helper}(operator.{opname}, other): the wrong operation or operand order is applied component-wise', instance=dunder)
    ck.floor('V1', n, 10, 'arithmetic dunders of the Stokes container')
    for helper, own_first in (('_operation', True), ('_roperation', False)):
        fn = stokes.own.get(helper)
        if not isinstance(fn, ast.FunctionDef):
            raise AnalysisError(f'anchor vanished: StokesPyTree.{helper}')
        S, f, other = (('var', a.arg) for a in fn.args.args[:3])
        seen = {'container': False, 'scalar': False, 'reject': False}
        for p in function_paths(fn):
            if p.exit != 'return':
                continue
            e = path_env(p)
            t = term(p.node.value, e)
            fs = path_facts(p)
            same_kind = ('isinstance', other, ('call', ('var', 'type'), (S,), ()), True) in fs
            if t == ('var', 'NotImplemented'):
                seen['reject'] = True
                continue
            if t[0] == 'call' and t[1] == ('attr', ('attr', ('var', 'jax'), 'tree'), 'map'):
                args = t[2]
                if same_kind:
                    want = (f, S, other) if own_first else (f, other, S)
                    seen['container'] = True
                    ck.expect('V1', args == want, fn, f'{helper}: container branch maps operation over ({"self, other" if own_first else "other, self"})',
                              f'{helper}: the container branch maps {show(t)}: operands are not passed as ({"self, other" if own_first else "other, self"})', instance=f'{helper} container branch')
                else:
                    seen['scalar'] = True
                    ok = False
                    if len(args) == 2 and args[1] == S:
                        g = args[0]
                        if g[0] == 'lambda' and len(g[1]) == 1:
                            leaf = ('var', g[1][0])
                            ok = g[2] == ('call', f, ((leaf, other) if own_first else (other, leaf)), ())
                        elif g[0] == 'call' and g[1] in (('var', 'partial'), ('attr', ('var', 'functools'), 'partial')):
                            # partial(operation, other)(leaf) = operation(other, leaf)
                            ok = (not own_first) and g[2] == (f, other)
                    ck.expect('V1', ok, fn, f'{helper}: scalar/array branch applies operation({"leaf, other" if own_first else "other, leaf"}) to every leaf',
                              f'{helper}: the scalar/array branch maps {show(args[0]) if args else "?"}: operands are not ({"leaf, other" if own_first else "other, leaf"})', instance=f'{helper} scalar branch')
        ck.expect('V1', all(seen.values()), fn, f'{helper} has a same-kind branch, a scalar/array branch and returns NotImplemented otherwise',
                  f'{helper} lacks a branch: {[k for k, v in seen.items() if not v]}', instance=f'{helper} branches', nontrivial=False)
    for dunder, opname in (('__neg__', 'neg'), ('__abs__', 'abs')):
        fn = stokes.own.get(dunder)
        e = path_env(next(p for p in function_paths(fn) if p.exit == 'return')) if isinstance(fn, ast.FunctionDef) else {}
        t = _ret(fn) if isinstance(fn, ast.FunctionDef) else None
        ok = isinstance(fn, ast.FunctionDef) and t == ('call', ('attr', ('attr', ('var', 'jax'), 'tree'), 'map'), (('attr', ('var', 'operator'), opname), ('var', fn.args.args[0].arg)), ())
        ck.expect('V1', ok, fn or stokes.node, f'{dunder} maps operator.{opname} over self', f'{dunder} returns {show(t)}', instance=dunder)
    fn = stokes.own.get('__pos__')
    ck.expect('V1', isinstance(fn, ast.FunctionDef) and _ret(fn) == ('var', fn.args.args[0].arg), fn or stokes.node, '+x is x', '__pos__ does not return self', instance='__pos__', nontrivial=False)
    for name, meth in (('ravel', 'ravel'), ('reshape', 'reshape')):
        fn = stokes.own.get(name)
        t = _ret(fn) if isinstance(fn, ast.FunctionDef) else None
        ok = False
        if t is not None and t[0] == 'call' and t[1] == ('attr', ('attr', ('var', 'jax'), 'tree'), 'map') and len(t[2]) == 2 and t[2][1] == ('var', fn.args.args[0].arg) and t[2][0][0] == 'lambda':
            leaf = ('var', t[2][0][1][0])
            extra = tuple(('var', a.arg) for a in fn.args.args[1:])
            ok = t[2][0][2] == ('call', ('attr', leaf, meth), extra, ())
        ck.expect('V1', ok, fn or stokes.node, f'{name} applies .{meth} to every component', f'{name} returns {show(t)}', instance=name)

    # ------------------------------------------------------------------ V2 fields <-> letters, V3 kind dispatch
    kinds = table.subclasses(stokes, strict=True)
    ck.floor('V2', len(kinds), 4, 'Stokes container classes')
    by_letters = {}
    for k in kinds:
        letters, _ = table.class_attr(k, 'stokes')
        fields = [f.name for f in table.fields(k)]
        ok = isinstance(letters, ast.Constant) and isinstance(letters.value, str) and [c.lower() for c in letters.value] == fields
        ck.expect('V2', ok, k.node, f'fields {fields} = lower-cased letters of stokes={letters.value if isinstance(letters, ast.Constant) else "?"!r}, in order',
                  f'{k.name}: fields {fields} are not the lower-cased letters of its stokes string in order: getattr(self, letter.lower()) users (shape, dtype, indexing) read the wrong component', instance=k.name)
        if isinstance(letters, ast.Constant):
            by_letters[letters.value] = k
    cf = stokes.own.get('class_for')
    if not isinstance(cf, ast.FunctionDef):
        raise AnalysisError('anchor vanished: StokesPyTree.class_for')
    v3_decided = _factories_by_evaluation(ctx, ck, stokes, kinds, by_letters)
    outer_ck, ck = ck, type(ck)(ck.pid)  # the written form of the two factories: kept only where it confirms when the evaluation decides
    dicts = [n for n in ast.walk(cf) if isinstance(n, ast.Dict)]
    valid = land.defs.get('ValidStokesType')
    lit = []
    if isinstance(valid, ast.Assign) and isinstance(valid.value, ast.Subscript):
        sl = valid.value.slice
        lit = [e.value for e in (sl.elts if isinstance(sl, ast.Tuple) else [sl]) if isinstance(e, ast.Constant)]
    if len(dicts) == 1:
        d = dicts[0]
        mapping = {}
        for kk, vv in zip(d.keys, d.values):
            if isinstance(kk, ast.Constant):
                c = table.find(world.qualify(land, vv) or '')
                mapping[kk.value] = c
        ck.expect('V3', set(mapping) == set(lit) == set(by_letters), cf, f'class_for keys = Literal of valid kinds = stokes values of the subclasses = {sorted(lit)}',
                  f'kind tables disagree: class_for keys {sorted(mapping)}, ValidStokesType {sorted(lit)}, subclasses {sorted(by_letters)}', instance='kind tables')
        for key, c in mapping.items():
            ck.expect('V3', c is by_letters.get(key), cf, f'{key!r} -> {c.name if c else "?"}', f'class_for maps {key!r} to {c.name if c else "?"} whose stokes is not {key!r}', instance=f'class_for {key}')
    else:
        ck.incomplete('V3', cf, 'class_for no longer uses a single dict literal')
    rej = any(p.exit == 'raise' and any(pol and 'not in get_args(ValidStokesType)' in ast.unparse(e) for e, pol in p.conds()) for p in function_paths(cf))
    ck.expect('V3', rej, cf, 'unknown kinds raise', 'class_for no longer rejects unknown Stokes kinds', instance='unknown kind')
    fs = stokes.own.get('from_stokes')
    if isinstance(fs, ast.FunctionDef):
        got = {}
        for p in function_paths(fs):
            if p.exit != 'return':
                continue
            t = term(p.node.value, path_env(p))
            from ..terms import atom_facts as _af

            for e, pol in p.conds():
                for f in _af(e, pol, {}):
                    if f[0] == 'eq' and ('call', ('var', 'len'), (('var', 'args'),), ()) in f[1]:
                        other = next((x for x in f[1] if x[0] == 'const'), None)
                        if other is None:
                            continue
                        c = table.find(world.qualify(land, t[1][1]) or '') if t[0] == 'call' and t[1][0] == 'var' else None
                        got[int(other[1])] = c
        for nargs, c in sorted(got.items()):
            ck.expect('V3', c is not None and len(table.fields(c)) == nargs, fs, f'{nargs} components -> {c.name if c else "?"}', f'from_stokes builds {c.name if c else "?"} from {nargs} components', instance=f'from_stokes {nargs}')
        ck.floor('V3', len(got), 4, 'from_stokes arities')
        npromo = 0
        for p in function_paths(fs):
            if p.exit != 'return':
                continue
            npromo += 1
            promoted = any(isinstance(st, ast.Assign) and term(st.value) == ('call', ('var', 'as_promoted_dtype'), (('var', 'args'),), ()) and ast.unparse(st.targets[0]) == 'args' for st in p.stmts())
            last_args_def = None
            for st in p.stmts():
                if isinstance(st, ast.Assign) and ast.unparse(st.targets[0]) == 'args':
                    last_args_def = st
            is_last = last_args_def is not None and term(last_args_def.value) == ('call', ('var', 'as_promoted_dtype'), (('var', 'args'),), ())
            kw_path = any(pol and ast.unparse(e) == 'keywords' for e, pol in p.conds())
            ck.expect('V3', promoted and is_last, fs, f'components are promoted to a common dtype on this path ({"keyword" if kw_path else "positional"} form) before the container is built',
                      f'from_stokes builds the container on a path ({"keyword" if kw_path else "positional"} form) where the components were not passed through as_promoted_dtype last: components of different dtypes stay unpromoted', instance=f'from_stokes promotion path {npromo}')
        ck.expect('V3', any(p.exit == 'raise' for p in function_paths(fs)), fs, 'other arities raise', 'from_stokes no longer rejects other arities', instance='from_stokes arity', nontrivial=False)
    written, ck = ck, outer_ck
    ck.obs.extend(o for o in written.obs if not (v3_decided and o.status != 'ok'))
    if not v3_decided:
        ck.floors.extend(written.floors)

    # ------------------------------------------------------------------ V4 from_iquv
    # decided by partial evaluation: from_iquv (wherever the class finds it along its MRO) is interpreted with the class and
    # its constants known and four symbolic components; the instance it builds must take exactly the components named by
    # the class, in field order, promoted (if at all) among themselves only
    from ..axinterp import Built, ClassRef, Env, Func, Interp, Opaque, Promoted, Raised, Undecided

    for k in kinds:
        r = table.resolve(k, 'from_iquv')
        if r is None or not isinstance(r.node, ast.FunctionDef):
            ck.bad('V4', k.node, f'{k.name}.from_iquv vanished')
            continue
        fn = r.node
        fields = [f.name for f in table.fields(k)]
        it = Interp(world, table, budget=50_000)
        it.watch_constructors = {k.qual}
        comps = {n: Opaque(n) for n in ('i', 'q', 'u', 'v')}
        try:
            res = it.call_function(Func(fn, Env(module_of(fn)), ClassRef(k), r.found_on), [comps['i'], comps['q'], comps['u'], comps['v']], {})
        except (Undecided, Raised) as exc:
            ck.incomplete('V4', fn, f'{k.name}.from_iquv could not be followed: {exc}', instance=k.name)
            continue
        if not isinstance(res, Built) or res.kwargs:
            ck.incomplete('V4', fn, f'{k.name}.from_iquv does not end in a construction of {k.name} the interpreter can follow ({res!r:.80})', instance=k.name)
            continue
        taken = [a.value.name if isinstance(a, Promoted) and isinstance(a.value, Opaque) else a.name if isinstance(a, Opaque) else None for a in res.args]
        groups = [a.group for a in res.args if isinstance(a, Promoted)]
        ok = taken == fields
        promo_ok = all(g == frozenset(fields) for g in groups) and (not groups or len(groups) == len(fields))
        ck.expect('V4', ok and promo_ok, fn, f'{k.name}.from_iquv passes exactly ({", ".join(fields)}) in field order' + (', promoted among themselves' if groups else ''),
                  f'{k.name}.from_iquv builds {k.name}({", ".join(str(t) for t in taken)})' + (f' with components promoted over {sorted(groups[0])}' if groups and not promo_ok else '')
                  + ': components are dropped, duplicated, permuted, or take the data type of components the container ignores', instance=k.name)

    # ------------------------------------------------------------------ V5 factories: argument selection
    tree = world.module(TREE)
    helpers = {n: d for n, d in tree.defs.items() if isinstance(d, ast.FunctionDef)}
    nsites = 0
    for fname, helper in (('zeros', 'zeros_like'), ('ones', 'ones_like'), ('full', 'full_like'), ('normal', 'normal_like'), ('uniform', 'uniform_like')):
        fn = stokes.own.get(fname)
        h = helpers.get(helper)
        if not isinstance(fn, ast.FunctionDef) or h is None:
            ck.bad('V5', stokes.node, f'factory {fname} or helper {helper} vanished')
            continue
        t = _ret(fn)
        cls_param = ('var', fn.args.args[0].arg)
        struct = ('call', ('attr', cls_param, 'structure_for'), (('var', 'shape'), ('var', 'dtype')), ())
        hp = [a.arg for a in h.args.args]
        ok = t is not None and t[0] == 'call' and t[1] == ('var', helper) and t[2] and t[2][0] == struct
        if ok:
            for pos, a in enumerate(t[2][1:], start=1):
                ok = ok and a == ('var', hp[pos])
        nsites += 1
        ck.expect('V5', ok, fn, f'{fname} -> {helper}(structure_for(shape, dtype), {", ".join(hp[1:])}) with like-named arguments in the helper\'s parameter order',
                  f'{fname} calls {show(t)}; {helper} takes ({", ".join(hp)}): an argument is passed in the wrong position', instance=f'StokesPyTree.{fname}')
    sl = table.get(f'{LAND}.StokesLandscape')
    for fname in ('full', 'normal', 'uniform'):
        fn = sl.own.get(fname)
        target = stokes.own.get(fname)
        if not isinstance(fn, ast.FunctionDef) or not isinstance(target, ast.FunctionDef):
            ck.bad('V5', sl.node, f'StokesLandscape.{fname} vanished')
            continue
        t = _ret(fn)
        S = ('var', fn.args.args[0].arg)
        tp = [a.arg for a in target.args.args[1:]]
        ok = t is not None and t[0] == 'call' and t[1] == ('attr', ('call', ('attr', ('var', 'StokesPyTree'), 'class_for'), (('attr', S, 'stokes'),), ()), fname)
        if ok:
            for pos, a in enumerate(t[2]):
                name = tp[pos]
                want = ('attr', S, name) if name in ('shape', 'dtype') else ('var', name)
                ok = ok and a == want
            ok = ok and len(t[2]) >= sum(1 for a in target.args.args[1:]) - len(target.args.defaults) and not t[3]
        nsites += 1
        ck.expect('V5', ok, fn, f'StokesLandscape.{fname} passes ({", ".join(tp)}) in the order StokesPyTree.{fname} declares',
                  f'StokesLandscape.{fname} calls {show(t)} but StokesPyTree.{fname} takes ({", ".join(tp)}): positional arguments are swapped (normal takes key first, uniform takes shape first)', instance=f'StokesLandscape.{fname}')
    ck.floor('V5', nsites, 8, 'factory call sites')
    sf = stokes.own.get('structure_for')
    t = _ret(sf) if isinstance(sf, ast.FunctionDef) else None
    ok = False
    if t is not None and isinstance(sf, ast.FunctionDef):
        cls_param = ('var', sf.args.args[0].arg)
        n_t = ('call', ('var', 'len'), (('attr', cls_param, 'stokes'),), ())
        one = ('list', ('call', ('attr', ('var', 'jax'), 'ShapeDtypeStruct'), (('var', sf.args.args[1].arg), ('var', sf.args.args[2].arg)), ()))
        ok = t in (('call', cls_param, (('star', ('binop', '*', n_t, one)),), ()), ('call', cls_param, (('star', ('binop', '*', one, n_t)),), ()))
    ck.expect('V5', ok, sf or stokes.node, 'structure_for builds one ShapeDtypeStruct(shape, dtype) per letter of stokes', f'structure_for returns {show(t)}', instance='structure_for')

    # ------------------------------------------------------------------ V6 tree helpers
    v6_decided = _tree_helpers_by_evaluation(ctx, ck, tree)
    v6_start = len(ck.obs)

    def helper(name):
        fn = helpers.get(name)
        if fn is None:
            raise AnalysisError(f'anchor vanished: furax.tree.{name}')
        return fn
    for name, val in (('zeros_like', '0'), ('ones_like', '1')):
        fn = helper(name)
        ck.expect('V6', _ret(fn) == ('call', ('var', 'full_like'), (('var', fn.args.args[0].arg), ('const', val)), ()), fn, f'{name}(x) = full_like(x, {val})', f'{name} returns {show(_ret(fn))}', instance=name)
    fn = helper('full_like')
    t = _ret(fn)
    x, fv = ('var', fn.args.args[0].arg), ('var', fn.args.args[1].arg)
    ok = t is not None and t[0] == 'call' and t[1] == ('attr', ('attr', ('var', 'jax'), 'tree'), 'map') and t[2][1] == x and t[2][0][0] == 'lambda' and \
        t[2][0][2] == ('call', ('attr', ('var', 'jnp'), 'full'), (('attr', ('var', t[2][0][1][0]), 'shape'), fv, ('attr', ('var', t[2][0][1][0]), 'dtype')), ())
    ck.expect('V6', ok, fn, 'full_like maps jnp.full(leaf.shape, value, leaf.dtype) over x', f'full_like returns {show(t)}', instance='full_like')
    fn = helper('dot')
    e = path_env(next(p for p in function_paths(fn) if p.exit == 'return'))
    t = _ret(fn)
    x, y = ('var', fn.args.args[0].arg), ('var', fn.args.args[1].arg)
    xy = ('call', ('attr', ('attr', ('var', 'jax'), 'tree'), 'map'), (('attr', ('var', 'jnp'), 'vdot'), x, y), ())
    ok = t is not None and t[0] == 'call' and t[1] == ('var', 'sum') and t[2] and t[2][0] == ('call', ('attr', ('attr', ('var', 'jax'), 'tree'), 'leaves'), (xy,), ())
    ck.expect('V6', ok, fn, 'dot = sum over leaves of vdot(x_leaf, y_leaf) (x conjugated: Hermitian product, operand order matters)', f'dot returns {show(t)}: not the sum of vdot over (x, y) in that order', instance='dot')
    if ok:
        start = dict(t[3]).get('start', t[2][1] if len(t[2]) > 1 else ('const', '0'))
        weak_zero = start == ('const', '0') or (start[0] == 'call' and show(start[1]) in ('jnp.array', 'jnp.asarray') and start[2] == (('const', '0'),) and not start[3])
        ck.expect('V6', weak_zero, fn, f'the sum starts from a weakly typed integer zero ({show(start)}): the result keeps the dtype of the products',
                  f'the sum starts from {show(start)}, which is not a weakly typed integer zero: the accumulator promotes the products (integer leaves become floats and lose exactness above 2**24, '
                  'half precision leaves become single precision)', instance='dot accumulator', semantic=True)
    fn = helper('as_promoted_dtype')
    x = ('var', fn.args.args[0].arg)
    promo = ('call', ('attr', ('var', 'jnp'), 'result_type'), (('star', ('call', ('attr', ('attr', ('var', 'jax'), 'tree'), 'leaves'), (x,), ())),), ())
    t = _ret(fn)
    from ..terms import contains as _contains

    ok_p = t is not None and _contains(t, promo)
    ok_m = t is not None and t[0] == 'call' and t[1] == ('attr', ('attr', ('var', 'jax'), 'tree'), 'map') and t[2][1] == x and 'astype' in show(t[2][0]) and _contains(t[2][0], promo)
    ck.expect('V6', ok_p and ok_m, fn, 'every leaf is cast to result_type(*all leaves)', f'as_promoted_dtype: promoted dtype {show(promo)}, mapping {show(t)[:120]}', instance='as_promoted_dtype')
    for name, rnd in (('normal_like', 'normal'), ('uniform_like', 'uniform')):
        fn = helper(name)
        t = _ret(fn)
        x = ('var', fn.args.args[0].arg)
        ok = t is not None and t[0] == 'call' and t[1] == ('attr', ('attr', ('var', 'jax'), 'tree'), 'map') and len(t[2]) == 3 and t[2][1] == x and t[2][0][0] == 'lambda' and len(t[2][0][1]) == 2
        if ok:
            leaf, key = (('var', n) for n in t[2][0][1])
            body = t[2][0][2]
            ok = body[0] == 'call' and body[1] == ('attr', ('attr', ('var', 'jax'), 'random'), rnd) and body[2][:3] == (key, ('attr', leaf, 'shape'), ('attr', leaf, 'dtype'))
            if rnd == 'uniform':
                ok = ok and body[2][3:] == (('var', 'low'), ('var', 'high'))
        ck.expect('V6', ok, fn, f'{name}: one key per leaf, jax.random.{rnd}(key, leaf.shape, leaf.dtype{", low, high" if rnd == "uniform" else ""})', f'{name} returns {show(t)[:160]}', instance=name)
    # where the evaluation decided a helper, the clause on its written form is kept only when it agrees
    ck.obs[:] = [o for i, o in enumerate(ck.obs) if not (i >= v6_start and o.rule.endswith('V6') and o.status != 'ok' and o.construct.split(' [')[-1].rstrip(']') in v6_decided)]


def _tree_helpers_by_evaluation(ctx, ck, tree) -> set:
    """V6 decided by evaluating the leaf-wise helpers (sa/axinterp.py) on symbolic pytrees (a tuple and a dict of two opaque
    leaves): the result must have the structure of the argument and, leaf by leaf, the documented value.  Returns the names of
    the helpers that were decided this way."""
    from ..axinterp import Env, Func, Interp, Opaque, Raised, Ref, Sym, Undecided, UNK, module_of as _mo  # noqa: F401

    world, table = ctx.world, ctx.table
    decided: set = set()
    A, B = Opaque('a'), Opaque('b')
    trees = [(A, B), {'p': A, 'q': B}]

    def run(name, *args, **kw):
        fn = tree.defs.get(name)
        if not isinstance(fn, ast.FunctionDef):
            raise AnalysisError(f'anchor vanished: furax.tree.{name}')
        it = Interp(world, table, budget=50_000)
        it.symbolic = True
        res = it.call_function(Func(fn, Env(tree)), list(args), dict(kw))
        if it.degraded:
            raise Undecided(it.degraded[0])
        return fn, res

    def leaves_of(t):
        return list(t) if isinstance(t, tuple) else [t[k] for k in sorted(t)]

    def same_structure(t, r):
        return type(t) is type(r) and len(t) == len(r) and (not isinstance(t, dict) or sorted(t) == sorted(r))

    def attr(x, name):
        return Sym('.' + name, (x,))

    def check(name, build, expect_leaf, what):
        problems = []
        fn = tree.defs.get(name)
        try:
            for t in trees:
                fn, res = run(name, *build(t))
                if res is UNK or not isinstance(res, (tuple, dict)) or not same_structure(t, res):
                    problems.append(f'{name} does not return a pytree with the structure of its argument ({res!r:.80})')
                    continue
                for i, (x, y) in enumerate(zip(leaves_of(t), leaves_of(res))):
                    if not expect_leaf(x, y, i, leaves_of(t)):
                        problems.append(f'{name}: the leaf for {x.name} is {y!r:.160}')
        except Raised as exc:
            problems.append(f'{name} raises {exc.name} on a pytree of two leaves')
        except Undecided:
            return
        decided.add(name)
        ck.expect('V6', not problems, fn, f'{name}: {what} (evaluated on a tuple and a dict of two symbolic leaves)', f'{problems[0] if problems else ""}: not {what}', instance=name, semantic=True)

    V = Opaque('value')
    check('full_like', lambda t: (t, V), lambda x, y, i, ls: y == Sym('jnp.full', (attr(x, 'shape'), V, attr(x, 'dtype'))), 'every leaf becomes jnp.full(leaf.shape, value, leaf.dtype)')
    for nm, val in (('zeros_like', 0), ('ones_like', 1)):
        check(nm, lambda t: (t,), lambda x, y, i, ls, val=val: y == Sym('jnp.full', (attr(x, 'shape'), val, attr(x, 'dtype'))), f'every leaf becomes jnp.full(leaf.shape, {val}, leaf.dtype)')

    def promoted(x, y, i, ls):
        D = None
        if isinstance(y, Sym) and y.op in ('jnp.astype',) and len(y.args) == 2 and y.args[0] is x:
            D = y.args[1]
        elif isinstance(y, Sym) and y.op == 'call' and isinstance(y.args[0], Sym) and y.args[0].op == '.astype' and y.args[0].args[0] is x and len(y.args) == 2:
            D = y.args[1]
        return isinstance(D, Sym) and D.op == 'jnp.result_type' and sorted(map(repr, D.args)) == sorted(map(repr, ls))

    _dot_by_evaluation(ctx, ck, tree, decided)
    check('as_promoted_dtype', lambda t: (t,), promoted, 'every leaf is converted to jnp.result_type(*all the leaves themselves) - the leaves, not their dtypes, so that weakly typed leaves do not widen the others')
    K = Opaque('key')

    def random_leaf(rnd, extra):
        def ok(x, y, i, ls):
            want_key = Sym('jax.random.split[]', (K, len(ls), i))
            return y == Sym(f'jax.random.{rnd}', (want_key, attr(x, 'shape'), attr(x, 'dtype')) + extra)
        return ok

    check('normal_like', lambda t: (t, K), random_leaf('normal', ()), 'leaf i is jax.random.normal(key_i, leaf.shape, leaf.dtype) with one key of split(key, n) per leaf, in order')
    LO, HI = Opaque('low'), Opaque('high')
    check('uniform_like', lambda t: (t, K, LO, HI), random_leaf('uniform', (LO, HI)), 'leaf i is jax.random.uniform(key_i, leaf.shape, leaf.dtype, low, high) with one key of split(key, n) per leaf, in order')
    return decided


def _dot_by_evaluation(ctx, ck, tree, decided: set) -> None:
    """V6 for `dot`, by evaluating it (sa/axinterp.py, symbolic) on pairs of two-leaf pytrees (tuple and dict) for the four
    combinations of real / complex leaves on either side (`jnp.iscomplexobj` answers from that table): the result must be
    0 + h(x1, y1) + h(x2, y2) in leaf order, where h(x, y) is the Hermitian product - `jnp.vdot(x, y)`, or `jnp.dot` / `jnp.inner`
    / `jnp.sum(.. * ..)` of the two leaves (ravelled or not) with the FIRST one conjugated unless it is real, and the second one not
    conjugated unless it is real.  Any other shape of result leaves the clause to the written-form rule."""
    from ..axinterp import Computed, Env, Func, Interp, Opaque, Raised, Sym, Undecided, UNK

    fn = tree.defs.get('dot')
    if not isinstance(fn, ast.FunctionDef):
        return
    world, table = ctx.world, ctx.table

    def strip(v):
        """(root leaf, number of conjugations) under ravel / reshape / flatten / conj wrappers"""
        n = 0
        while isinstance(v, Sym):
            op = v.op
            if op in ('jnp.conj', 'jnp.conjugate') and len(v.args) == 1:
                n += 1
                v = v.args[0]
            elif op in ('jnp.ravel', 'jnp.asarray') and len(v.args) == 1:
                v = v.args[0]
            elif op == 'call' and isinstance(v.args[0], Sym) and v.args[0].op in ('.ravel', '.flatten', '.conj', '.conjugate') and len(v.args) == 1:
                n += v.args[0].op in ('.conj', '.conjugate')
                v = v.args[0].args[0]
            else:
                return None, 0
        return v, n

    def hermitian(term, x, y, cx):
        if not isinstance(term, Sym):
            return None
        if term.op == 'jnp.vdot' and len(term.args) == 2:
            (a, na), (b, nb) = strip(term.args[0]), strip(term.args[1])
            na += 1
        elif term.op in ('jnp.dot', 'jnp.inner') and len(term.args) == 2:
            (a, na), (b, nb) = strip(term.args[0]), strip(term.args[1])
        else:
            return None
        if a is None or b is None:
            return None
        if a is not x or b is not y:
            return False
        return (na % 2 == 1 or not cx[x.name]) and (nb % 2 == 0 or not cx[y.name])

    problems: list[str] = []
    n = 0
    try:
        for mk in (lambda p, q: (p, q), lambda p, q: {'p': p, 'q': q}):
            for bits in range(16):
                X1, X2, Y1, Y2 = Opaque('x1'), Opaque('x2'), Opaque('y1'), Opaque('y2')
                cx = {'x1': bool(bits & 1), 'x2': bool(bits & 2), 'y1': bool(bits & 4), 'y2': bool(bits & 8)}

                def is_complex(args, kwargs, cx=cx):
                    root, _ = strip(args[0]) if args else (None, 0)
                    if not isinstance(root, Opaque) or root.name not in cx:
                        raise Undecided('iscomplexobj of something that is not a leaf')
                    return cx[root.name]

                it = Interp(world, table, budget=50_000)
                it.symbolic = True
                it.watch_externals = {k: Computed(is_complex) for k in ('jax.numpy.iscomplexobj', 'jnp.iscomplexobj', 'numpy.iscomplexobj')}
                res = it.call_function(Func(fn, Env(tree)), [mk(X1, X2), mk(Y1, Y2)], {})
                if it.degraded or res is UNK:
                    return
                n += 1
                # +(+(0, h1), h2)
                if not (isinstance(res, Sym) and res.op == '+' and len(res.args) == 2 and isinstance(res.args[0], Sym) and res.args[0].op == '+' and len(res.args[0].args) == 2):
                    return
                z_ = res.args[0].args[0]
                if not (isinstance(z_, int) and not isinstance(z_, bool) and z_ == 0):
                    return  # another accumulator: left to the written-form clauses (dtype of the start value)
                h1, h2 = res.args[0].args[1], res.args[1]
                v1, v2 = hermitian(h1, X1, Y1, cx), hermitian(h2, X2, Y2, cx)
                if v1 is None or v2 is None:
                    return
                kinds = ', '.join(f'{k} {"complex" if v else "real"}' for k, v in cx.items())
                if not v1:
                    problems.append(f'with {kinds}: the first leaf pair contributes {h1!r:.140}, not conj(x1) . y1')
                if not v2:
                    problems.append(f'with {kinds}: the second leaf pair contributes {h2!r:.140}, not conj(x2) . y2')
    except (Undecided, Raised):
        return
    decided.add('dot')
    ck.expect('V6', not problems, fn, f'dot = sum over the leaves, in order, of the Hermitian product conj(x_leaf) . y_leaf ({n} evaluations: tuple and dict pytrees, every combination of real / complex leaves)',
              f'{problems[0] if problems else ""} ({len(problems)} problems over {n} evaluations): not the Hermitian product of the pytrees', instance='dot', semantic=True)


def _factories_by_evaluation(ctx, ck, stokes, kinds, by_letters) -> bool:
    """V3 by abstract execution (sa/axinterp.py): class_for is evaluated on every valid kind and on strings that are not
    kinds; from_stokes on 0..5 positional components, on every non-empty set of keywords among I, Q, U, V, v, X (in two
    orders) and on a mixed call.  A valid kind gives its class (class_for) / an instance of it whose field for each letter
    is the component given for that letter, all promoted together (from_stokes); everything else raises ValueError /
    TypeError.  Returns True when decided."""
    import itertools

    from ..axinterp import Built, ClassRef, Env, Func, Interp, Opaque, Promoted, Raised, Undecided, UNK
    from .. import run as _run

    if _run.CONTROL_EXPECT and not _run.CONTROL_EXPECT.endswith('V3'):
        return False
    world, table = ctx.world, ctx.table
    rc, rf = table.resolve(stokes, 'class_for'), table.resolve(stokes, 'from_stokes')
    if rc is None or rf is None or not isinstance(rc.node, ast.FunctionDef) or not isinstance(rf.node, ast.FunctionDef) or len(by_letters) < 4:
        return False
    problems: list[str] = []
    n = 0

    def run_(fn_r, args, kwargs):
        it = Interp(world, table, budget=50_000)
        it.watch_constructors = {k.qual for k in kinds}
        res = it.call_function(Func(fn_r.node, Env(module_of(fn_r.node)), ClassRef(stokes), fn_r.found_on), list(args), dict(kwargs))
        if it.degraded:
            raise Undecided(it.degraded[0])
        return res

    try:
        for kind in list(by_letters) + ['', 'V', 'IV', 'UQ', 'QUI', 'IQUVX', 'i', 'qu']:
            n += 1
            try:
                res = run_(rc, [kind], {})
            except Raised as exc:
                if kind in by_letters:
                    problems.append(f'class_for({kind!r}) raises {exc.name}')
                elif exc.name != 'ValueError':
                    problems.append(f'class_for({kind!r}) raises {exc.name}, not ValueError')
                continue
            if kind not in by_letters:
                problems.append(f'class_for({kind!r}) returns {getattr(getattr(res, "cls", None), "name", res)!r} instead of raising ValueError: {kind!r} is not a Stokes kind')
            elif not (isinstance(res, ClassRef) and res.cls is by_letters[kind]):
                problems.append(f'class_for({kind!r}) returns {getattr(getattr(res, "cls", None), "name", res)!r}, not the container class whose stokes is {kind!r}')
        by_len = {len(k): c for k, c in by_letters.items()}

        def expect_instance(text, res, cls, comps):
            if not (isinstance(res, Built) and res.cls is cls):
                problems.append(f'{text} returns {getattr(getattr(res, "cls", None), "name", type(res).__name__)}, expected a {cls.name}')
                return
            fields = [f.name for f in table.fields(cls)]
            got = dict(zip(fields, res.args))
            got.update(dict(res.kwargs))
            group = frozenset(c.name for c in comps.values())
            for f in fields:
                v = got.get(f, UNK)
                want = comps[f]
                if isinstance(v, Promoted) and v.value is want:
                    if v.group != group:
                        problems.append(f'{text}: the component {f} is promoted with {sorted(v.group)}, not with all the given components {sorted(group)}')
                elif v is want:
                    problems.append(f'{text}: the components are not promoted to a common dtype before the container is built')
                else:
                    problems.append(f'{text}: the field {f} of the {cls.name} is not the component given for {f.upper()}')
                    return

        for k_ in range(0, 6):
            n += 1
            comps = [Opaque(f'arg{i}') for i in range(k_)]
            text = f'from_stokes({", ".join(c.name for c in comps)})'
            try:
                res = run_(rf, comps, {})
            except Raised as exc:
                if k_ in by_len:
                    problems.append(f'{text} raises {exc.name}')
                elif exc.name != 'TypeError':
                    problems.append(f'{text} raises {exc.name}, not TypeError')
                continue
            if k_ not in by_len:
                problems.append(f'{text} is accepted: there is no Stokes kind of {k_} components')
                continue
            cls = by_len[k_]
            expect_instance(text, res, cls, dict(zip([f.name for f in table.fields(cls)], comps)))
        pool = ['I', 'Q', 'U', 'V', 'v', 'X']
        for r_ in range(1, 6):
            for names in itertools.combinations(pool, r_):
                for order in (names, tuple(reversed(names))):
                    if r_ > 1 and order == names and r_ > 3:
                        pass
                    n += 1
                    kw = {nm: Opaque(f'given_{nm}') for nm in order}
                    text = f'from_stokes({", ".join(f"{nm}=.." for nm in order)})'
                    kind = next((k for k in by_letters if sorted(k) == sorted(names)), None)
                    try:
                        res = run_(rf, [], kw)
                    except Raised as exc:
                        if kind is not None:
                            problems.append(f'{text} raises {exc.name}')
                        elif exc.name != 'TypeError':
                            problems.append(f'{text} raises {exc.name}, not TypeError')
                        continue
                    if kind is None:
                        problems.append(f'{text} is accepted (returns a {getattr(getattr(res, "cls", None), "name", "?")}): {"".join(order)!r} is not a Stokes kind, a vector is dropped silently or stored under another name')
                        continue
                    cls = by_letters[kind]
                    expect_instance(text, res, cls, {f.name: kw[f.name.upper()] for f in table.fields(cls)})
        n += 1
        try:
            run_(rf, [Opaque('arg0')], {'Q': Opaque('given_Q')})
            problems.append('from_stokes(arg0, Q=..) mixes positional and keyword components and is accepted')
        except Raised as exc:
            if exc.name != 'TypeError':
                problems.append(f'from_stokes(arg0, Q=..) raises {exc.name}, not TypeError')
    except Undecided as exc:
        ck.note(f'V3: the factories could not be evaluated: {exc}')
        return False
    ck.expect('V3', not problems, rf.node, f'on {n} calls class_for / from_stokes return the class / an instance of the class of the requested kind holding each given component under its own letter, '
              'promoted together, and raise for everything that is not a Stokes kind', f'{problems[0] if problems else ""} ({len(problems)} of {n} calls)', instance='factories by evaluation', semantic=True)
    ck.floor('V3', n, 100, 'factory calls evaluated')
    return True


def controls(world: World) -> list[Control]:
    return [
        Control('reflected-order', lambda w: edit_def(w, LAND, 'StokesPyTree._roperation', lambda fn: replace_expr(fn, 'jax.tree.map(operation, left, self)', 'jax.tree.map(operation, self, left)')), 'C20.V1'),
        Control('wrong-operator', lambda w: edit_def(w, LAND, 'StokesPyTree.__rsub__', lambda fn: replace_expr(fn, 'operator.sub', 'operator.add')), 'C20.V1'),
        Control('uniform-args-swapped', lambda w: edit_def(w, LAND, 'StokesLandscape.uniform', lambda fn: replace_expr(fn, 'cls.uniform(self.shape, key, self.dtype, low, high)', 'cls.uniform(key, self.shape, self.dtype, low, high)')), 'C20.V5'),
        Control('from-iquv-permuted', lambda w: edit_def(w, LAND, 'StokesIQUPyTree.from_iquv', lambda fn: replace_expr(fn, 'cls(i, q, u)', 'cls(i, u, q)')), 'C20.V4'),
        Control('dot-order', lambda w: edit_def(w, TREE, 'dot', lambda fn: replace_expr(fn, 'jax.tree.map(jnp.vdot, x, y)', 'jax.tree.map(jnp.vdot, y, x)')), 'C20.V6'),
    ]

"""C02 - operator arithmetic is matrix arithmetic (the dunder table of the operator classes)."""

from __future__ import annotations

import ast

from ..classes import CORE, OPERATOR_BASE, ClassInfo
from ..loader import AnalysisError, World, module_of, qualname, site
from ..mutate import edit_def, remove_stmt, replace_expr, replace_stmt
from ..paths import Path, function_paths
from ..run import Control
from ..terms import contains, facts, path_env, show, term

LEVEL = 'other'
RULE_TEXT = (
    'every path of every arithmetic dunder defined on an operator class is enumerated; an obligation is one '
    '(dunder, returning path, clause) triple; non-trivial = discharged by a dominating-guard, operand-order or '
    'scalar-form derivation on that path'
)
EXPLANATION = (
    'Static analysis of the 16+ arithmetic dunders of the operator classes: (S1) every path that returns an operator is '
    'dominated by the structure-compatibility guard with the right operand roles, or is a delegation to a dunder that is, or '
    'is under an operand-identity guard; (S2) the operand list handed to CompositionOperator/AdditionOperator has the '
    'right order and contains every operand once; (S3) a class for which NotImplemented is returned defines the reflected '
    'dunder; (S4) scalar forms k, 1/k, -1 on the output structure under a scalar-shape guard; (S5) shortcuts; (S6) foreign '
    'array operands are rejected rather than broadcast; (S7) composites apply operands last-to-first / sum over all leaves. '
    'Numerical equality of the composites with the dense product is not decided here (C04 linearity + S7).'
)

BINARY = {
    '__matmul__': [('IN', 'self', 'OUT', 'other')],
    '__rmatmul__': [('OUT', 'self', 'IN', 'other')],
    '__add__': [('IN', 'self', 'IN', 'other'), ('OUT', 'self', 'OUT', 'other')],
    '__radd__': [('IN', 'self', 'IN', 'other'), ('OUT', 'self', 'OUT', 'other')],
    '__sub__': [('IN', 'self', 'IN', 'other'), ('OUT', 'self', 'OUT', 'other')],
    '__rsub__': [('IN', 'self', 'IN', 'other'), ('OUT', 'self', 'OUT', 'other')],
}
SCALAR = ('__mul__', '__rmul__', '__truediv__', '__neg__', '__pos__')
REFLECTED = {'__matmul__': '__rmatmul__', '__add__': '__radd__', '__sub__': '__rsub__', '__mul__': '__rmul__'}


def accessor_aliases(table, cls: ClassInfo, self_name: str) -> dict:
    """Terms equivalent to IN(self)/OUT(self) because the accessor is a trivial field return."""
    out = {}
    for acc, tag in (('in_structure', 'IN'), ('out_structure', 'OUT')):
        r = table.resolve(cls, acc)
        if r is None or not isinstance(r.node, ast.FunctionDef):
            continue
        paths = [p for p in function_paths(r.node) if p.exit == 'return']
        if len(paths) == 1 and isinstance(paths[0].node, ast.Return):
            s = r.node.args.args[0].arg
            t = term(paths[0].node.value, path_env(paths[0]))
            if t[0] == 'attr' and t[1] == ('var', s):
                out[('attr', ('var', self_name), t[2])] = (tag, ('var', self_name))
                if acc == 'in_structure':
                    ro = table.resolve(cls, 'out_structure')
                    if ro is not None and ro.node is r.node:
                        pass
    # square classes: OUT(self) is the same function as IN(self)
    ri, ro = table.resolve(cls, 'in_structure'), table.resolve(cls, 'out_structure')
    if ri is not None and ro is not None and ri.node is ro.node:
        out[('OUT', ('var', self_name))] = ('IN', ('var', self_name))
    return out


def _norm(t, aliases):
    if t in aliases:
        return _norm(aliases[t], aliases) if aliases[t] != t else t
    if isinstance(t, tuple):
        return tuple(_norm(x, aliases) for x in t)
    if isinstance(t, frozenset):
        return frozenset(_norm(x, aliases) for x in t)
    return t


def _is_not_implemented(node: ast.AST | None) -> bool:
    return isinstance(node, ast.Name) and node.id == 'NotImplemented'


def dunder_classes(table):
    base = table.get(OPERATOR_BASE)
    return [base] + table.operators()


def _scalar_arithmetic_by_evaluation(ctx, ck, base, homothety, comp) -> bool:
    """S4 decided by evaluating k * A, A * k, A / k, -A and +A (sa/axinterp.py, Python's operator protocol included) for A an
    opaque operator and A a scalar operator of symbolic value v, with a symbolic scalar k: the result is the scalar operator of
    value k (resp. 1/k, -1) on the output structure of A composed with A - or, for the scalar operator, the scalar operator of
    value k v (resp. v / k, -v) on the same structure.  Values are compared as rational monomials.  Returns True when decided."""
    from ..axinterp import Env, Func, Interp, Obj, Opaque, Raised, StructLeaf, Sym, Undecided, UNK

    world, table = ctx.world, ctx.table
    generic = table.find('furax._base.dense.DenseBlockDiagonalOperator')
    out_fn = base.own.get('out_structure')
    if generic is None:
        return False
    S_in = StructLeaf(((frozenset({'i'}), 3),))
    S_out = StructLeaf(((frozenset({'o'}), 5),))

    def monomial(v):
        """(sign, numerator names, denominator names) of a product / quotient of symbols and +-1."""
        if isinstance(v, Opaque):
            return 1, [v.name], []
        if isinstance(v, (int, float)) and not isinstance(v, bool) and v in (1, -1):
            return int(v), [], []
        if isinstance(v, Sym) and v.op in ('jnp.asarray', 'jnp.array', 'pos') and v.args:
            return monomial(v.args[0])
        if isinstance(v, Sym) and v.op == 'neg':
            m = monomial(v.args[0])
            return None if m is None else (-m[0], m[1], m[2])
        if isinstance(v, Sym) and v.op in ('*', '/') and len(v.args) == 2:
            a_, b_ = monomial(v.args[0]), monomial(v.args[1])
            if a_ is None or b_ is None:
                return None
            if v.op == '*':
                return a_[0] * b_[0], sorted(a_[1] + b_[1]), sorted(a_[2] + b_[2])
            return a_[0] * b_[0], sorted(a_[1] + b_[2]), sorted(a_[2] + b_[1])
        return None

    def reduced(m):
        if m is None:
            return None
        num, den = list(m[1]), list(m[2])
        for x in list(num):
            if x in den:
                num.remove(x)
                den.remove(x)
        return m[0], sorted(num), sorted(den)

    k = Opaque('scalar:k')
    problems: list[str] = []
    n = 0
    cases = [('k * A', lambda A, it: it._object_binop(ast.Mult, k, A), (1, ['scalar:k'], [])),
             ('A * k', lambda A, it: it._object_binop(ast.Mult, A, k), (1, ['scalar:k'], [])),
             ('A / k', lambda A, it: it._object_binop(ast.Div, A, k), (1, [], ['scalar:k'])),
             ('-A', lambda A, it: it.call_method(A, '__neg__'), (-1, [], []))]
    for text, build, factor in cases:
        for kind in ('opaque operator', 'scalar operator'):
            it = Interp(world, table, budget=50_000)
            it.symbolic = True
            it.constructible = {c.qual for c in table.operators()}
            if isinstance(out_fn, ast.FunctionDef):
                it.summaries[id(out_fn)] = lambda args, kwargs: args[0].attrs.get('__out__', UNK)
            if kind == 'opaque operator':
                A = Obj(generic, {'_in_structure': S_in, '__out__': S_out, 'name': 'A'})
            else:
                A = Obj(homothety, {'value': Opaque('scalar:v'), '_in_structure': S_in, '__out__': S_in})
            n += 1
            try:
                res = build(A, it)
            except Raised as exc:
                problems.append(f'{text} with A a {kind}: raises {exc.name}')
                continue
            except Undecided as exc:
                ck.incomplete('S4', base.node, f'{text} with A a {kind} could not be evaluated: {exc}', instance='scalar arithmetic by evaluation')
                return False
            if it.degraded or not isinstance(res, Obj):
                ck.incomplete('S4', base.node, f'{text} with A a {kind} could not be evaluated: {(it.degraded or [repr(res)[:60]])[0]}', instance='scalar arithmetic by evaluation')
                return False
            if kind == 'opaque operator':
                ops = res.attrs.get('operands') if res.cls is comp else None
                good = isinstance(ops, (list, tuple)) and len(ops) == 2 and isinstance(ops[0], Obj) and ops[0].cls is homothety and ops[1] is A
                if not good:
                    problems.append(f'{text} with A an opaque operator is {res.cls.name}, not (scalar operator) @ A')
                    continue
                got = reduced(monomial(ops[0].attrs.get('value')))
                if got != reduced(factor):
                    problems.append(f'{text}: the scalar operator has value {ops[0].attrs.get("value")!r}, expected {"k" if text in ("k * A", "A * k") else "1/k" if text == "A / k" else "-1"}')
                if ops[0].attrs.get('_in_structure') is not S_out and ops[0].attrs.get('_in_structure') != S_out:
                    problems.append(f'{text}: the scalar operator is not built on the output structure of A')
            else:
                want = reduced((factor[0], sorted(factor[1] + ['scalar:v']), factor[2]))
                if res.cls is comp:
                    ops = res.attrs.get('operands') or []
                    vals = [o.attrs.get('value') for o in ops if isinstance(o, Obj) and o.cls is homothety]
                    prod = None
                    if len(vals) == len(ops) == 2:
                        m0, m1 = monomial(vals[0]), monomial(vals[1])
                        if m0 is not None and m1 is not None:
                            prod = reduced((m0[0] * m1[0], m0[1] + m1[1], m0[2] + m1[2]))
                    got = prod
                else:
                    got = reduced(monomial(res.attrs.get('value'))) if res.cls is homothety else None
                if got != want:
                    problems.append(f'{text} with A the scalar operator of value v denotes the scalar {res.attrs.get("value")!r}, expected '
                                    f'{"k v" if text in ("k * A", "A * k") else "v / k" if text == "A / k" else "-v"}')
    # a factor that is not 0-d is refused, one-element arrays of shape (1,) or (1, 1) included
    from ..axinterp import AxArr

    accepted: list[str] = []

    for shape in ((1,), (1, 1), (3,)):
        for text, op_ in (('k * A', ast.Mult), ('A / k', ast.Div)):
            it = Interp(world, table, budget=50_000)
            it.symbolic = True
            it.constructible = {c.qual for c in table.operators()}
            if isinstance(out_fn, ast.FunctionDef):
                it.summaries[id(out_fn)] = lambda args, kwargs: args[0].attrs.get('__out__', UNK)
            A = Obj(generic, {'_in_structure': S_in, '__out__': S_out, 'name': 'A'})
            arr = AxArr(tuple((frozenset({f'f{j}'}), s_) for j, s_ in enumerate(shape)))
            n += 1
            try:
                res = it._object_binop(op_, arr, A) if op_ is ast.Mult else it._object_binop(op_, A, arr)
            except Raised:
                continue
            except Undecided as exc:
                ck.incomplete('S4', base.node, f'{text} with a factor of shape {shape} could not be evaluated: {exc}', instance='scalar arithmetic by evaluation')
                return False
            if it.degraded:
                ck.incomplete('S4', base.node, f'{text} with a factor of shape {shape} could not be evaluated: {it.degraded[0]}', instance='scalar arithmetic by evaluation')
                return False
            accepted.append(f'{text} with a factor of shape {shape} is accepted: only 0-d factors denote a scalar multiple (the scalar operator built from it changes the shape of what it is applied to)')
    ck.expect('S4', not accepted, base.node, 'k * A and A / k refuse every factor that is not 0-d (shapes (1,), (1, 1) and (3,) evaluated)', accepted[0] if accepted else '', instance='non-scalar factors refused', semantic=True)
    ck.expect('S4', not problems, base.node, f'k * A, A * k, A / k and -A evaluate to the scalar multiples (k, k, 1/k, -1) of A for an opaque and for a scalar operator ({n} cases, values compared as rational monomials)',
              f'{problems[0] if problems else ""}', instance='scalar arithmetic by evaluation', semantic=True)
    return True


def _matmul_by_evaluation(ctx, ck, base, comp, identity, homothety) -> bool:
    """S2/S5 for `@`, decided by evaluating L @ R (sa/axinterp.py, Python's operator protocol included) on every pair of a
    family of square operands: opaque operators A, B, their lazy inverses and a lazy transpose, the identity, two scalar
    operators, and every composition of two of A, B, A.I, B.I (and a scalar next to A).  Opaque operators satisfy no relation
    but X.I X = X X.I = I, so the product is right exactly when the factors of the result, read left to right, equal the
    factors of L followed by those of R in the free group on {A, B, A.T} (identities dropped, adjacent inverse pairs
    cancelled) and the scalars of the result multiply to those of L and R.  Returns True when decided."""
    import itertools

    from ..axinterp import Interp, Obj, Opaque, Raised, StructLeaf, Sym, Undecided, UNK
    from .. import run as _run

    if _run.CONTROL_EXPECT and not _run.CONTROL_EXPECT.endswith(('S2', 'S5', 'M9')):
        return False
    world, table = ctx.world, ctx.table
    generic = table.find('furax._base.dense.DenseBlockDiagonalOperator')
    inv_cls = table.find(f'{CORE}.InverseOperator')
    tr_cls = table.find(f'{CORE}.TransposeOperator')
    out_fn = base.own.get('out_structure')
    if None in (generic, inv_cls, tr_cls):
        return False
    S = StructLeaf(((frozenset({'s'}), 3),))

    def gen(name):
        return Obj(generic, {'_in_structure': S, '__out__': S, 'name': name})

    A, B = gen('A'), gen('B')
    iA, iB = Obj(inv_cls, {'operator': A, '__out__': S}), Obj(inv_cls, {'operator': B, '__out__': S})
    tA = Obj(tr_cls, {'operator': A, '__out__': S})
    I = Obj(identity, {'_in_structure': S, '__out__': S})
    H0, H1 = (Obj(homothety, {'value': Opaque(f'k{i}'), '_in_structure': S, '__out__': S}) for i in (0, 1))
    add_cls = table.find(f'{CORE}.AdditionOperator')
    sAB = Obj(add_cls, {'operands': [A, B], '__out__': S}) if add_cls is not None else None
    names = {id(A): 'A', id(B): 'B', id(iA): 'A.I', id(iB): 'B.I', id(tA): 'A.T', id(I): 'I', id(H0): 'k0', id(H1): 'k1', id(sAB): '(A + B)'}
    # (a sum is one factor of a product: its terms must not be spliced into the chain)
    letters = {id(A): ('A', 1), id(B): ('B', 1), id(iA): ('A', -1), id(iB): ('B', -1), id(tA): ('At', 1), id(sAB): ('(A+B)', 1)}

    def compose(*ops):
        c = Obj(comp, {'operands': list(ops), '__out__': S})
        names[id(c)] = '(' + ' @ '.join(names[id(o)] for o in ops) + ')'
        return c

    def make_family():
        fam = [A, B, iA, iB, tA, I, H0, H1] + ([sAB] if sAB is not None else [])
        fam += [compose(x, y) for x, y in itertools.product((A, B, iA, iB), repeat=2) if not (letters[id(x)][0] == letters[id(y)][0] and letters[id(x)][1] != letters[id(y)][1])]
        fam += [compose(H0, A), compose(A, H0)]
        return fam

    family = make_family()

    def scalars_of(v):
        if isinstance(v, Sym) and v.op == '*':
            a_, b_ = scalars_of(v.args[0]), scalars_of(v.args[1])
            return None if a_ is None or b_ is None else a_ + b_
        if isinstance(v, Sym) and v.op in ('jnp.asarray', 'jnp.array') and v.args:
            return scalars_of(v.args[0])
        if isinstance(v, Opaque):
            return [v.name]
        if v == 1:
            return []
        return None

    def word(o):
        """(letters, scalar names) of an operand, or None when it holds something unknown."""
        if not isinstance(o, Obj):
            return None
        if id(o) in letters:
            return [letters[id(o)]], []
        if o.cls is identity:
            return [], []
        if o.cls is homothety:
            sc = scalars_of(o.attrs.get('value'))
            return None if sc is None else ([], sc)
        if o.cls is comp:
            ls, ks = [], []
            ops = o.attrs.get('operands')
            if not isinstance(ops, (list, tuple)):
                return None
            for x in ops:
                w = word(x)
                if w is None:
                    return None
                ls += w[0]
                ks += w[1]
            return ls, ks
        if table.is_subclass(o.cls, inv_cls) and isinstance(o.attrs.get('operator'), Obj):
            w = word(o.attrs['operator'])
            return None if w is None or w[1] else ([(n_, -e_) for n_, e_ in reversed(w[0])], [])
        return None

    def free(ls):
        out = []
        for l_ in ls:
            if out and out[-1][0] == l_[0] and out[-1][1] == -l_[1]:
                out.pop()
            else:
                out.append(l_)
        return out

    it = Interp(world, table, budget=200_000)
    it.symbolic = True
    it.constructible = {k.qual for k in table.operators()}
    if isinstance(out_fn, ast.FunctionDef):
        it.summaries[id(out_fn)] = lambda args, kwargs: args[0].attrs.get('__out__', UNK)
    problems: list[str] = []
    n = 0
    mutated = False
    for iL, iR in itertools.product(range(len(family)), repeat=2):
        if mutated:
            family = make_family()  # an operand was changed by the previous product: start again from fresh operands
            mutated = False
        L, R = family[iL], family[iR]
        text = f'{names[id(L)]} @ {names[id(R)]}'
        it.steps = 0
        del it.degraded[:]
        n += 1
        before = (word(L), word(R))
        raised = None
        try:
            res = it._object_binop(ast.MatMult, L, R)
        except Raised as exc:
            raised = exc.name
        except Undecided as exc:
            ck.note(f'S2: {text} could not be evaluated: {exc}' + (f' [{it.degraded[0]}]' if it.degraded else ''))
            return False
        if (word(L), word(R)) != before:
            mutated = True
            problems.append(f'evaluating {text} changes an operand itself (its list of factors is modified in place): operators are values, every later use of that operand denotes another product')
            continue
        if raised:
            problems.append(f'{text} raises {raised}')
            continue
        if it.degraded or res is UNK:
            ck.note(f'S2: {text} could not be evaluated: {(it.degraded or ["unknown result"])[0]}')
            return False
        got, wl, wr = word(res), word(L), word(R)
        if got is None:
            ck.note(f'S2: the result of {text} is not a product of the given operands: not decided by evaluation')
            return False
        want = free(wl[0] + wr[0]), sorted(wl[1] + wr[1])
        if (free(got[0]), sorted(got[1])) != want:
            show_w = lambda w: ' '.join(n_ + ('' if e_ == 1 else '^-1') for n_, e_ in w[0]) or 'I'  # noqa: E731
            problems.append(f'{text} is built as the product {show_w(got)}' + (f' with scalars {got[1]}' if got[1] or want[1] else '') + f', which is not {show_w(want)}' + (f' with scalars {want[1]}' if got[1] or want[1] else ''))
    mm = table.resolve(base, '__matmul__')
    ck.expect('S2', not problems, mm.node if mm is not None else base.node, f'L @ R holds the factors of L then those of R (identities dropped, X.I next to X cancelled, scalars multiplied) for all {n} pairs of '
              f'{len(family)} operands (opaque operators, lazy inverses / transpose, identity, scalars, compositions of two)',
              f'{problems[0] if problems else ""} ({len(problems)} of {n} products)', instance='@ by evaluation', semantic=True)
    ck.floor('S2', n, 400, 'products L @ R evaluated')
    return True


def _additive_by_evaluation(ctx, ck, base, comp, add, identity, homothety) -> bool:
    """S2/S4 for `+` and `-`, decided by evaluating L + R and L - R (sa/axinterp.py, Python's operator protocol included) on
    every pair of: opaque operators A and B, the sum A + B, the product A @ B, the identity and a scalar operator, all square
    on one structure.  The result, read as a formal sum of signed terms (each term a product of opaque factors and scalars),
    must hold the terms of L and the terms of R with their signs (negated for `-`), nothing dropped, nothing doubled.
    Returns True when decided."""
    import itertools
    from collections import Counter

    from ..axinterp import Interp, Obj, Opaque, Raised, StructLeaf, Sym, Undecided, UNK
    from .. import run as _run

    if _run.CONTROL_EXPECT and not _run.CONTROL_EXPECT.endswith(('S2', 'S4')):
        return False
    world, table = ctx.world, ctx.table
    generic = table.find('furax._base.dense.DenseBlockDiagonalOperator')
    out_fn = base.own.get('out_structure')
    if generic is None:
        return False
    S = StructLeaf(((frozenset({'s'}), 3),))

    def make():
        A, B = (Obj(generic, {'_in_structure': S, '__out__': S, 'name': n}) for n in 'AB')
        fam = {
            'A': A, 'B': B,
            '(A + B)': Obj(add, {'operands': [A, B], '__out__': S}),
            '(A @ B)': Obj(comp, {'operands': [A, B], '__out__': S}),
            'I': Obj(identity, {'_in_structure': S, '__out__': S}),
            'k': Obj(homothety, {'value': Opaque('k'), '_in_structure': S, '__out__': S}),
        }
        return fam

    def coeff(v):
        """(sign, scalar names) of a scalar value built from symbols, +-1 and products; None when not of that form."""
        if isinstance(v, Opaque):
            return 1, [v.name]
        if isinstance(v, (int, float)) and not isinstance(v, bool) and v in (1, -1):
            return int(v), []
        if isinstance(v, Sym) and v.op in ('jnp.asarray', 'jnp.array', 'pos') and v.args:
            return coeff(v.args[0])
        if isinstance(v, Sym) and v.op == 'neg':
            c = coeff(v.args[0])
            return None if c is None else (-c[0], c[1])
        if isinstance(v, Sym) and v.op == '*' and len(v.args) == 2:
            a_, b_ = coeff(v.args[0]), coeff(v.args[1])
            return None if a_ is None or b_ is None else (a_[0] * b_[0], a_[1] + b_[1])
        return None

    def terms(o, sign=1):
        """The operator as a list of (sign, scalar names, factor names); None when it holds something unknown."""
        if not isinstance(o, Obj):
            return None
        if o.cls is add:
            ops = o.attrs.get('operands')
            leaves = list(ops.values()) if isinstance(ops, dict) else list(ops) if isinstance(ops, (list, tuple)) else None
            if leaves is None:
                return None
            out = []
            for x in leaves:
                t = terms(x, sign)
                if t is None:
                    return None
                out += t
            return out
        if o.cls is comp:
            ops = o.attrs.get('operands')
            if not isinstance(ops, (list, tuple)):
                return None
            sg, ks, ws = sign, [], []
            for x in ops:
                t = terms(x)
                if t is None or len(t) != 1:
                    return None  # a sum inside a product: not expanded here
                sg *= t[0][0]
                ks += t[0][1]
                ws += t[0][2]
            return [(sg, tuple(sorted(ks)), tuple(ws))]
        if o.cls is homothety:
            c = coeff(o.attrs.get('value'))
            return None if c is None else [(sign * c[0], tuple(sorted(c[1])), ())]
        if o.cls is identity:
            return [(sign, (), ())]
        if o.cls is generic:
            return [(sign, (), (o.attrs['name'],))]
        return None

    it = Interp(world, table, budget=200_000)
    it.symbolic = True
    it.constructible = {k.qual for k in table.operators()}
    if isinstance(out_fn, ast.FunctionDef):
        it.summaries[id(out_fn)] = lambda args, kwargs: args[0].attrs.get('__out__', UNK)
    problems: list[str] = []
    n = 0
    names = list(make())
    for op_node, sym in ((ast.Add, '+'), (ast.Sub, '-')):
        for ln, rn in itertools.product(names, repeat=2):
            fam = make()
            L, R = fam[ln], fam[rn]
            if ln == rn:
                R = make()[rn]  # two distinct objects
            text = f'{ln} {sym} {rn}'
            it.steps = 0
            del it.degraded[:]
            n += 1
            tl, trr = terms(L), terms(R)
            try:
                res = it._object_binop(op_node, L, R)
            except Raised as exc:
                problems.append(f'{text} raises {exc.name}')
                continue
            except Undecided as exc:
                ck.note(f'S4: {text} could not be evaluated: {exc}' + (f' [{it.degraded[0]}]' if it.degraded else ''))
                return False
            if it.degraded or res is UNK:
                ck.note(f'S4: {text} could not be evaluated: {(it.degraded or ["unknown result"])[0]}')
                return False
            if res is NotImplemented:
                problems.append(f'{text} evaluates to NotImplemented: the hand-over sentinel is returned as a value (Python raises TypeError)')
                continue
            got = terms(res)
            if got is None or tl is None or trr is None:
                ck.note(f'S4: the result of {text} is not a sum of products of the given operands: not decided by evaluation')
                return False
            want = Counter(tl) + Counter((-sg if sym == '-' else sg, ks, ws) for sg, ks, ws in trr)
            if Counter(got) != want:
                show_t = lambda ts: ' '.join(('+' if sg > 0 else '-') + ('*'.join(ks + ws) or '1') for sg, ks, ws in sorted(ts, key=repr))  # noqa: E731
                problems.append(f'{text} is built as {show_t(got)}, which is not {show_t(list(want.elements()))}')
    sub_r = table.resolve(base, '__sub__')
    ck.expect('S4', not problems, sub_r.node if sub_r is not None else base.node, f'L + R and L - R hold the terms of L and the (negated) terms of R, for all {n} pairs of opaque operators, a sum, a product, the identity and a scalar operator',
              f'{problems[0] if problems else ""} ({len(problems)} of {n})', instance='+ and - by evaluation', semantic=True)
    ck.floor('S4', n, 60, 'sums and differences evaluated')
    return True


def _structure_guards_by_evaluation(ctx, ck, base) -> bool:
    """S1 decided by evaluating L @ R, L + R and L - R (sa/axinterp.py) on opaque operators whose structures agree or differ
    in one respect - a leaf shape, a leaf dtype, the container type (list / tuple), a dict key, the nesting with the same
    leaves: the product needs in_structure(L) == out_structure(R), the sum both sides equal; every mismatch must raise
    ValueError, every match must build an operator.  Returns True when decided."""
    from ..axinterp import Interp, Obj, Raised, StructLeaf, Undecided, UNK
    from .. import run as _run

    if _run.CONTROL_EXPECT and not _run.CONTROL_EXPECT.endswith(('S1', 'O7')):
        return False
    world, table = ctx.world, ctx.table
    generic = table.find('furax._base.dense.DenseBlockDiagonalOperator')
    out_fn = base.own.get('out_structure')
    if generic is None:
        return False
    s = StructLeaf(((frozenset({'s'}), 3),), 'float32')
    t = StructLeaf(((frozenset({'t'}), 4),), 'float32')
    s64 = StructLeaf(((frozenset({'s'}), 3),), 'float64')
    variants = {
        'the same structure': ([s, t], [s, t], True),
        'another leaf shape': ([s, t], [s, s], False),
        'another leaf dtype': ([s, t], [s64, t], False),
        'a tuple instead of a list': ([s, t], (s, t), False),
        'another dict key': ({'a': s, 'b': t}, {'a': s, 'c': t}, False),
        'the same leaves nested differently': ([s, [t, s]], [[s, t], s], False),
        'one leaf more': ([s, t], [s, t, s], False),
    }
    other = StructLeaf(((frozenset({'o'}), 5),), 'float32')
    o2, o3, o4 = (StructLeaf(((frozenset({f'o{i}'}), 5 + i),), 'float32') for i in (2, 3, 4))
    problems: list[str] = []
    n = 0
    for text, (x, y, same) in variants.items():
        for sym, op_node in (('@', ast.MatMult), ('+', ast.Add), ('-', ast.Sub)):
            cases = []
            if sym == '@':
                cases.append((Obj(generic, {'_in_structure': x, '__out__': other, 'name': 'L'}), Obj(generic, {'_in_structure': o2, '__out__': y, 'name': 'R'}), 'in_structure(L) vs out_structure(R)'))
            else:
                cases.append((Obj(generic, {'_in_structure': x, '__out__': other, 'name': 'L'}), Obj(generic, {'_in_structure': y, '__out__': other, 'name': 'R'}), 'the input structures'))
                cases.append((Obj(generic, {'_in_structure': other, '__out__': x, 'name': 'L'}), Obj(generic, {'_in_structure': other, '__out__': y, 'name': 'R'}), 'the output structures'))
            # the same operands inside a product (for @) or a sum (for + and -): the dunders of the composite classes are evaluated too
            comp_cls, add_cls = table.find(f'{CORE}.CompositionOperator'), table.find(f'{CORE}.AdditionOperator')
            wrapped = []
            for L, R, which in cases:
                def g(i, o, name):
                    return Obj(generic, {'_in_structure': i, '__out__': o, 'name': name})
                if sym == '@' and comp_cls is not None:
                    # (every interface of the chain has a structure of its own, so that a check made on the wrong end cannot pass by accident)
                    Lc = Obj(comp_cls, {'operands': [g(other, o4, 'L0'), L], '__out__': o4})
                    Rc = Obj(comp_cls, {'operands': [R, g(o3, o2, 'R0')], '__out__': R.attrs['__out__']})
                    wrapped += [(Lc, R, which + ' (L a product)'), (L, Rc, which + ' (R a product)'), (Lc, Rc, which + ' (both products)')]
                    ident_cls = table.find(f'{CORE}.IdentityOperator')
                    if ident_cls is not None:
                        Li = Obj(ident_cls, {'_in_structure': L.attrs['_in_structure'], '__out__': L.attrs['_in_structure']})
                        wrapped += [(Li, R, which + ' (L the identity)'), (Li, Rc, which + ' (L the identity, R a product)')]
                elif sym != '@' and add_cls is not None:
                    La = Obj(add_cls, {'operands': [L, g(L.attrs['_in_structure'], L.attrs['__out__'], 'L1')], '__out__': L.attrs['__out__']})
                    Ra = Obj(add_cls, {'operands': [R, g(R.attrs['_in_structure'], R.attrs['__out__'], 'R1')], '__out__': R.attrs['__out__']})
                    wrapped += [(La, R, which + ' (L a sum)'), (L, Ra, which + ' (R a sum)'), (La, Ra, which + ' (both sums)')]
            for L, R, which in cases + wrapped:
                n += 1
                it = Interp(world, table, budget=40_000)
                it.symbolic = True
                it.constructible = {k.qual for k in table.operators()}
                if isinstance(out_fn, ast.FunctionDef):
                    it.summaries[id(out_fn)] = lambda args, kwargs: args[0].attrs.get('__out__', UNK)
                what = f'L {sym} R with {text} for {which}'
                try:
                    res = it._object_binop(op_node, L, R)
                    raised = None
                except Raised as exc:
                    raised, res = exc.name, None
                except Undecided as exc:
                    ck.note(f'S1: {what} could not be evaluated: {exc}' + (f' [{it.degraded[0]}]' if it.degraded else ''))
                    return False
                if it.degraded:
                    ck.note(f'S1: {what} could not be evaluated: {it.degraded[0]}')
                    return False
                if same and raised:
                    problems.append(f'{what} raises {raised}')
                if not same and raised != 'ValueError':
                    problems.append(f'{what} ' + (f'raises {raised} instead of ValueError' if raised else 'builds an operator instead of raising ValueError: operands whose structures do not agree are combined'))
    mm = table.resolve(base, '__matmul__')
    ck.expect('S1', not problems, mm.node if mm is not None else base.node, f'on {n} combinations (product, sum, difference; shape / dtype / container / key / nesting / length mismatches) operators are combined exactly when the structures agree, and ValueError is raised otherwise',
              f'{problems[0] if problems else ""} ({len(problems)} of {n})', instance='structure guards by evaluation', semantic=True)
    ck.floor('S1', n, 100, 'structure combinations evaluated')
    return True


def _supersede_additive_forms(ck, start: int) -> None:
    kept = []
    for i, o in enumerate(ck.obs):
        if i >= start and o.rule.endswith(('S2', 'S4')) and o.status == 'incomplete' and any(w in (o.construct + o.how) for w in ('__add__', '__radd__', '__sub__', '__rsub__')) and 'by evaluation' not in o.construct:
            ck.note(f'{o.rule} [{o.construct}] not decided structurally ({o.how[:100]}); superseded by the evaluation of the sums and differences')
            continue
        kept.append(o)
    ck.obs[:] = kept


def _supersede_matmul_forms(ck, start: int) -> None:
    kept = []
    for i, o in enumerate(ck.obs):
        if i >= start and o.rule.endswith(('S2', 'S5')) and o.status == 'incomplete' and 'matmul__' in (o.construct + o.how):
            ck.note(f'{o.rule} [{o.construct}] not decided structurally ({o.how[:100]}); superseded by the evaluation of the products')
            continue
        kept.append(o)
    ck.obs[:] = kept


def run(ctx, ck) -> None:
    world, table = ctx.world, ctx.table
    ck.trust('Python binary-operator dispatch (forward, then reflected on NotImplemented when the types differ)',
             'NumPy: a class attribute __array_ufunc__ = None makes ndarray binary operators return NotImplemented')
    base = table.get(OPERATOR_BASE)
    classes = dunder_classes(table)
    comp = table.get(f'{CORE}.CompositionOperator')
    add = table.get(f'{CORE}.AdditionOperator')
    homothety = table.get(f'{CORE}.HomothetyOperator')
    identity = table.get(f'{CORE}.IdentityOperator')
    lazy_inv = table.get(f'{CORE}.AbstractLazyInverseOperator')

    scalar_decided = _scalar_arithmetic_by_evaluation(ctx, ck, base, homothety, comp)
    s4_start = len(ck.obs)
    ndunders = 0
    npaths = 0
    for cls in classes:
        for name in list(BINARY) + list(SCALAR):
            fn = cls.own.get(name)
            if not isinstance(fn, ast.FunctionDef):
                continue
            ndunders += 1
            if name in BINARY:
                npaths += _check_binary(ck, world, table, cls, name, fn, comp, add, homothety, identity, lazy_inv)
            else:
                _check_scalar(ck, world, table, cls, name, fn, homothety)
    if scalar_decided:
        _supersede_scalar_forms(ck, s4_start)
    if _matmul_by_evaluation(ctx, ck, base, comp, identity, homothety):
        _supersede_matmul_forms(ck, s4_start)
    additive_decided = _additive_by_evaluation(ctx, ck, base, comp, add, identity, homothety)
    if _structure_guards_by_evaluation(ctx, ck, base):
        # the written form of the guards of the base dunders is kept only where it confirms
        ck.obs[s4_start:] = [o for o in ck.obs[s4_start:] if not (o.rule.endswith('S1') and o.status == 'incomplete' and any(f'{k}.__' in o.construct for k in ('AbstractLinearOperator', 'CompositionOperator', 'AdditionOperator', 'IdentityOperator'))
                                                                   and any(d in o.construct for d in ('__matmul__', '__rmatmul__', '__add__', '__radd__', '__sub__')))]
    ck.floor('S1', ndunders, 16, 'arithmetic dunders on operator classes')
    ck.floor('S1', npaths, 14, 'operator-returning paths of structural binary dunders')

    # S4: A - B = A + (-B): the right operand is negated exactly once
    sub_fn = base.own.get('__sub__')
    if isinstance(sub_fn, ast.FunctionDef):
        s_, o_ = ('var', sub_fn.args.args[0].arg), ('var', sub_fn.args.args[1].arg)
        for path in function_paths(sub_fn):
            if path.exit != 'return' or _is_not_implemented(path.node.value):
                continue
            rt = term(path.node.value, path_env(path))
            good = rt in (('binop', '+', s_, ('unop', 'neg', o_)), ('binop', '+', ('unop', 'neg', o_), s_), ('binop', '+', s_, ('binop', '*', ('unop', 'neg', ('const', '1')), o_)),
                          ('binop', '+', s_, ('binop', '*', ('const', '-1'), o_)))
            ck.expect('S4', good, sub_fn, 'A - B is A + (-B): the right operand negated exactly once, the left one untouched', f'A - B is built as {show(rt)}', instance='__sub__ form')
    if additive_decided:
        _supersede_additive_forms(ck, s4_start)

    # ------------------------------------------------------------------ S3 hand-over
    for cls in classes:
        for name, refl in REFLECTED.items():
            fn = cls.own.get(name)
            if not isinstance(fn, ast.FunctionDef) or len(fn.args.args) < 2:
                continue
            other = fn.args.args[1].arg
            for path in function_paths(fn):
                if path.exit == 'return' and isinstance(path.node, ast.Return) and _is_not_implemented(path.node.value):
                    for f in facts(path):
                        if f[0] == 'isinstance' and f[3] is True and f[1] == ('var', other):
                            q = world.qualify(module_of(fn), _term_to_name(f[2]))
                            k = table.find(q) if q else None
                            if k is None:
                                continue
                            r = table.resolve(k, refl)
                            ck.expect('S3', r is not None and isinstance(r.node, ast.FunctionDef), fn,
                                      f'{k.name} defines {refl} (found on {r.found_on.name if r else "-"})',
                                      f'{cls.name}.{name} returns NotImplemented for a {k.name} operand but {k.name} has no {refl}: the expression raises TypeError',
                                      instance=f'{k.name}.{refl}')

    # ------------------------------------------------------------------ S6 foreign operands
    mul = table.resolve(base, '__mul__')
    if mul is None or not isinstance(mul.node, ast.FunctionDef):
        raise AnalysisError('anchor vanished: AbstractLinearOperator.__mul__')
    for cls in classes:
        for name in ('__mul__', '__truediv__', '__matmul__', '__add__', '__sub__'):
            fn = cls.own.get(name)
            if not isinstance(fn, ast.FunctionDef) or len(fn.args.args) < 2:
                continue
            s, o = fn.args.args[0].arg, fn.args.args[1].arg
            for path in function_paths(fn):
                if path.exit != 'return' or not isinstance(path.node, ast.Return):
                    continue
                v = path.node.value
                if isinstance(v, ast.BinOp) and isinstance(v.left, ast.Name) and v.left.id == o and _mentions(v.right, s):
                    ck.bad('S6', fn, f'forward {name} re-dispatches through `{ast.unparse(v)}`: control passes to type({o}) first, so a NumPy array operand broadcasts element-wise into an object array of operators instead of being rejected',
                           instance='re-dispatch')
    if not any(o.rule.endswith('S6') and o.status == 'violation' for o in ck.obs):
        ck.ok('S6', mul.node, 'no forward dunder re-dispatches through `other <op> self`', instance='re-dispatch')
    opt_out = None
    for k in base.mro:
        for attr in ('__array_ufunc__', '__array_priority__'):
            node = k.own.get(attr)
            if isinstance(node, (ast.Assign, ast.AnnAssign)):
                opt_out = (k, attr, node)
    has_reflected = any(isinstance(k.own.get(n), ast.FunctionDef) for k in classes for n in ('__rmul__', '__rmatmul__', '__radd__'))
    if has_reflected:
        good = opt_out is not None and (
            (opt_out[1] == '__array_ufunc__' and isinstance(opt_out[2].value, ast.Constant) and opt_out[2].value.value is None)
            or opt_out[1] == '__array_priority__'
        )
        ck.expect('S6', good, base.node, f'{opt_out[0].name}.{opt_out[1]} opts out of ndarray broadcasting' if opt_out else '',
                  'operator classes implement reflected arithmetic but do not opt out of NumPy broadcasting (__array_ufunc__ = None): `ndarray * A` yields an object array of operators instead of an error',
                  instance='__array_ufunc__')

    # ------------------------------------------------------------------ S7 composite application order
    _check_composite_mv(ck, table, comp, add)


def _mentions(expr: ast.AST, name: str) -> bool:
    return any(isinstance(n, ast.Name) and n.id == name for n in ast.walk(expr))


def _term_to_name(t) -> str:
    if t[0] == 'var':
        return t[1]
    if t[0] == 'attr':
        return _term_to_name(t[1]) + '.' + t[2]
    return '?'


def _delegation(v: ast.AST, name: str, s: str, o: str) -> str | None:
    """Is the returned expression a delegation to another (checked) dunder?"""
    if isinstance(v, ast.Call) and isinstance(v.func, ast.Attribute) and v.func.attr == name:
        recv = v.func.value
        if isinstance(recv, ast.Call) and isinstance(recv.func, ast.Name) and recv.func.id == 'super':
            if len(v.args) == 1 and isinstance(v.args[0], ast.Name) and v.args[0].id == o:
                return f'super().{name}({o})'
    if isinstance(v, ast.BinOp) and isinstance(v.op, (ast.MatMult, ast.Add, ast.Sub)):
        return f'binary operator {type(v.op).__name__} between operators (its own dunder carries the guard)'
    return None


def _helper_resolver(world, table, cls, fn):
    """Resolves `self._check(other)` / `_check(self, other)` to the in-package function and its argument expressions."""
    s = fn.args.args[0].arg

    def resolve(call: ast.Call):
        f = call.func
        if isinstance(f, ast.Attribute) and isinstance(f.value, ast.Name) and f.value.id == s:
            r = table.resolve(cls, f.attr)
            if r is not None and isinstance(r.node, ast.FunctionDef) and not any(kw.arg is None for kw in call.keywords):
                params = [a.arg for a in r.node.args.args]
                args = [f.value] + list(call.args)
                kws = {kw.arg: kw.value for kw in call.keywords}
                for p in params[len(args):]:
                    if p in kws:
                        args.append(kws[p])
                return r.node, args
        q = world.qualify(module_of(call), f)
        target = world.lookup(q) if q else None
        if isinstance(target, ast.FunctionDef) and not call.keywords:
            return target, list(call.args)
        return None

    return resolve


def _check_binary(ck, world, table, cls, name, fn, comp, add, homothety, identity, lazy_inv) -> int:
    if len(fn.args.args) < 2:
        ck.incomplete('S1', fn, 'binary dunder without an `other` parameter')
        return 0
    s, o = fn.args.args[0].arg, fn.args.args[1].arg
    aliases = accessor_aliases(table, cls, s)
    required = []
    for a, x, b, y in BINARY[name]:
        required.append(frozenset({_norm((a, ('var', s if x == 'self' else o)), aliases), _norm((b, ('var', s if y == 'self' else o)), aliases)}))
    from ..terms import predicate_alternatives, return_cases

    count = 0
    for fs0, rt, env, _txt, ret in return_cases(world, fn, resolver=_helper_resolver(world, table, cls, fn)):
        v = ret.value
        if _is_not_implemented(v):
            continue
        count += 1
        label = show(rt)[:70]
        fs = {_norm(f, aliases) for f in fs0}
        eqs = {f[1] for f in fs if f[0] == 'eq'}
        deleg = _delegation(v, name, s, o)
        # local-variable delegation, e.g. ``result = self + (-other); return result``
        if deleg is None and isinstance(rt, tuple) and rt[0] == 'binop' and rt[1] in ('@', '+', '-'):
            deleg = f'binary operator {rt[1]} between operators (its own dunder carries the guard)'
        missing = [r for r in required if r not in eqs]
        ident = any(
            f[0] == 'is' and f[1] in (frozenset({('attr', ('var', o), 'operator'), ('var', s)}), frozenset({('attr', ('var', s), 'operator'), ('var', o)}))
            for f in fs
        )
        if not missing:
            ck.ok('S1', fn, 'structure guard(s) ' + ' and '.join(' == '.join(sorted(show(t) for t in r)) for r in required) + ' dominate this return', instance=f'returns {label}')
        elif deleg:
            ck.ok('S1', fn, f'delegation: {deleg}', instance=f'returns {label}')
        elif ident:
            ck.ok('S1', fn, 'operand-identity guard (lazy inverse of the very same operator: square by construction)', instance=f'returns {label}')
        else:
            ck.bad('S1', fn, f'a path returns an operator ({label}) without a dominating structure check ' + ' / '.join(' == '.join(sorted(show(t) for t in r)) for r in missing)
                   + ': structurally incompatible operands yield an operator instead of an error', instance=f'returns {label}')
        alts = [{_norm(f, aliases) for f in a} for a in predicate_alternatives(world, module_of(fn), fs0)]
        _check_order(ck, table, cls, name, fn, None, rt, s, o, fs, comp, add, homothety, identity, lazy_inv, alts)
    return count


def _segments(t, s, o):
    """Decomposes an operand-list term into ordered segments ('all'|'one'|'drop-last'|'drop-first', 'self'|'other')."""
    if t[0] == 'binop' and t[1] == '+':
        a, b = _segments(t[2], s, o), _segments(t[3], s, o)
        if a is None or b is None:
            return None
        return a + b
    if t[0] == 'list':
        out = []
        for x in t[1:]:
            if x == ('var', s):
                out.append(('one', 'self'))
            elif x == ('var', o):
                out.append(('one', 'other'))
            else:
                return None
        return out
    if t[0] == 'call' and t[1] in (('var', 'list'), ('var', 'tuple')) and len(t[2]) == 1 and not t[3]:
        return _segments(t[2][0], s, o)
    if t[0] == 'attr' and t[2] in ('operands', 'operand_leaves') and t[1] in (('var', s), ('var', o)):
        return [('all', 'self' if t[1] == ('var', s) else 'other')]
    if t[0] == 'sub' and t[2][0] == 'slice' and t[1][0] == 'attr' and t[1][2] == 'operands' and t[1][1] in (('var', s), ('var', o)):
        w = 'self' if t[1][1] == ('var', s) else 'other'
        lo, hi, step = t[2][1:4]
        if step == ('none',) and lo in (('none',), ('const', '0')) and hi == ('unop', 'neg', ('const', '1')):
            return [('drop-last', w)]
        if step == ('none',) and lo == ('const', '1') and hi == ('none',):
            return [('drop-first', w)]
        return None
    return None


def _cancel_guard(alts, dropped, kept) -> bool:
    """In every alternative, the dropped operand and the operand standing next to it are related by `X.operator is Y`."""
    want = (frozenset({('attr', dropped, 'operator'), kept}), frozenset({('attr', kept, 'operator'), dropped}))
    return bool(alts) and all(any(f[0] == 'is' and f[1] in want for f in a) for a in alts)


def _check_order(ck, table, cls, name, fn, path, rt, s, o, fs, comp, add, homothety, identity, lazy_inv, alts=None) -> None:
    """S2 (operand order / presence) and S5 (shortcuts) on one returning path."""
    alts = alts if alts is not None else [fs]
    S, O = ('var', s), ('var', o)
    reflected = name.startswith('__r')
    if rt[0] != 'call':
        if rt == ('var', o):
            # identity absorption: I @ B -> B
            ck.expect('S5', table.is_subclass(cls, identity) and name == '__matmul__', fn,
                      'identity absorption I @ B = B (structure guard checked by S1)', f'{cls.name}.{name} returns its right operand unchanged although it is not an identity', instance='returns other')
        elif rt[0] == 'sub' and rt[2] == ('const', '0') and name in ('__matmul__', '__rmatmul__'):
            # a single operand left after a cancellation: operands[...][0]
            segs = _segments(rt[1], s, o)
            if segs is None:
                ck.incomplete('S5', fn, f'{cls.name}.{name} returns {show(rt)}: not a recognised shortcut', instance=f'{name} returns {show(rt)[:40]}')
            else:
                _check_drops(ck, cls, name, fn, segs, S, O, reflected, alts, single=True)
        elif name in ('__matmul__', '__rmatmul__', '__add__', '__radd__') and rt not in (('var', s),) and rt[0] not in ('binop', 'unop'):
            ck.incomplete('S5', fn, f'{cls.name}.{name} returns {show(rt)}: not a recognised construction or shortcut', instance=f'{name} returns {show(rt)[:40]}')
        return
    callee = rt[1]
    if callee[0] != 'var':
        return
    cname = callee[1]
    args = rt[2]
    if cname in (comp.name, add.name) and len(args) == 1:
        segs = _segments(args[0], s, o)
        if segs is None:
            ck.incomplete('S2', fn, f'operand list {show(args[0])} is not a concatenation of self/other parts', instance=name)
            return
        if any(k.startswith('drop') for k, _ in segs):
            if cname != comp.name:
                ck.bad('S2', fn, f'{cls.name}.{name} drops a summand: {show(args[0])}', instance=f'{name} operands')
            else:
                _check_drops(ck, cls, name, fn, segs, S, O, reflected, alts, single=False)
            return
        who = [w for _, w in segs]
        if cname == comp.name:
            want = ['other', 'self'] if reflected else ['self', 'other']
            ck.expect('S2', who == want, fn, f'composition operands in product order {want}',
                      f'{cls.name}.{name} builds CompositionOperator with operand order {who}; the product {"other @ self" if reflected else "self @ other"} requires {want}', instance=f'{name} order')
        else:
            ck.expect('S2', sorted(who) == ['other', 'self'], fn, 'sum contains self-part and other-part exactly once',
                      f'{cls.name}.{name} builds AdditionOperator from parts {who}: an operand is dropped or duplicated', instance=f'{name} operands')
        for kind, w in segs:
            if kind == 'all':
                var = s if w == 'self' else o
                owner = comp if cname == comp.name else add
                known = (w == 'self' and table.is_subclass(cls, owner)) or any(
                    f[0] == 'isinstance' and f[3] is True and f[1] == ('var', var) and _term_to_name(f[2]).split('.')[-1] == owner.name for f in fs
                )
                ck.expect('S2', known, fn, f'{w}.operands used where {w} is known to be a {owner.name}',
                          f'{w}.operands is read on a path where {w} is not known to be a {owner.name}', instance=f'{name} flatten {w}', nontrivial=False)
    elif cname == homothety.name and name == '__matmul__':
        # scalar . scalar merge
        val = args[0] if args else None
        want = {('attr', ('var', s), 'value'), ('attr', ('var', o), 'value')}
        good = val is not None and val[0] == 'binop' and val[1] == '*' and {val[2], val[3]} == want
        ck.expect('S5', good, fn, 'scalar.scalar merges by the product of both values', f'merged scalar is {show(val)} instead of self.value * other.value', instance='scalar merge value')
        st = args[1] if len(args) > 1 else None
        ok_struct = st in (('attr', ('var', s), '_in_structure'), ('IN', ('var', s)), ('OUT', ('var', s)), ('IN', ('var', o)), ('attr', ('var', o), '_in_structure'), ('OUT', ('var', o)))
        ck.expect('S5', ok_struct, fn, 'merged scalar lives on the (equal, checked) structure of the operands', f'merged scalar is built on {show(st)}', instance='scalar merge structure', nontrivial=False)
    elif cname == identity.name and name in ('__matmul__', '__rmatmul__'):
        st = args[0] if args else None
        ident = bool(alts) and all(any(f[0] == 'is' for f in a) for a in alts)
        ok_struct = st is not None and st[0] in ('IN', 'OUT') and st[1] in (('var', s), ('var', o))
        whole = True
        if table.is_subclass(cls, comp):
            # a chain collapses to the identity only if it consists of the cancelled operand alone
            whole = any(f[0] == 'eq' and any(x[0] == 'call' and x[1] == ('var', 'len') and ('const', '0') in f[1] for x in f[1]) for f in fs)
        ck.expect('S5', ident and ok_struct and whole, fn, 'A @ A.I / A.I @ A collapse to the identity on the (square) structure only under the operand-identity guard',
                  'identity shortcut without the operand-identity guard or on a foreign structure', instance='inverse shortcut')
    elif name in ('__matmul__', '__rmatmul__', '__add__', '__radd__') and not any(c.name == cname for c in table.classes.values()):
        ck.incomplete('S5', fn, f'{cls.name}.{name} returns {show(rt)[:80]}: not a recognised construction or shortcut', instance=f'{name} returns {cname}(...)')


def _check_drops(ck, cls, name, fn, segs, S, O, reflected, alts, single: bool) -> None:
    """A composition dunder that leaves out an operand of the chain: only the operand standing next to `other` in the
    product may go, and only under an identity guard relating the two (A.I next to the very same A)."""
    kinds = [k for k, _ in segs]
    if len(segs) != 1 or segs[0][1] != 'self':
        ck.incomplete('S5', fn, f'{cls.name}.{name}: operand list with a dropped operand in an unrecognised arrangement {segs}', instance=f'{name} cancellation')
        return
    # other @ (op0 @ ... @ opn): other stands next to op0;  (op0 @ ... @ opn) @ other: next to opn
    need = 'drop-first' if reflected else 'drop-last'
    idx = ('const', '0') if kinds[0] == 'drop-first' else ('unop', 'neg', ('const', '1'))
    dropped = ('sub', ('attr', S, 'operands'), idx)
    pos_ok = kinds[0] == need
    guard_ok = _cancel_guard(alts, dropped, O)
    what = 'other @ self' if reflected else 'self @ other'
    ck.expect('S5', pos_ok and guard_ok, fn,
              f'{what}: the operand next to `other` is dropped together with it under the guard that one is the lazy inverse of the very same other',
              f'{cls.name}.{name} builds {what} leaving out {show(dropped)}' + ('' if pos_ok else f', which stands at the far end of the chain (the operand next to `other` is '
              f'self.operands[{"0" if reflected else "-1"}])') + ('' if guard_ok else '; no guard `X.operator is Y` relates the dropped operand and `other` on every way to reach this return')
              + ': the product changes', instance=f'{name} cancellation' + (' (single operand left)' if single else ''))


def _supersede_scalar_forms(ck, start: int) -> None:
    kept = []
    for i, o in enumerate(ck.obs):
        if i >= start and o.rule.endswith('S4') and o.status == 'incomplete' and any(w in o.construct for w in ('__rmul__', '__truediv__', '__mul__', '__neg__')):
            ck.note(f'{o.rule} [{o.construct}] not decided structurally ({o.how[:100]}); superseded by the evaluation of the scalar arithmetic')
            continue
        kept.append(o)
    ck.obs[:] = kept


def _scalar_form(t, o):
    """(coefficient sign/const, exponent of other) for the scalar handed to HomothetyOperator."""
    if t == ('var', o):
        return (1, 1)
    if t[0] == 'call' and t[1] in (('attr', ('var', 'jnp'), 'asarray'), ('attr', ('var', 'jnp'), 'array'), ('attr', ('var', 'np'), 'asarray')) and len(t[2]) >= 1:
        if len(t[2]) > 1 or any(k == 'dtype' for k, _ in t[3]):
            return ('cast', t)  # the scalar is converted to a fixed dtype: lossy for scalars that dtype cannot represent
        return _scalar_form(t[2][0], o)
    if t[0] == 'call' and t[1][0] == 'attr' and t[1][2] == 'astype':
        return ('cast', t)
    if t[0] == 'const':
        try:
            return (float(eval(t[1], {})), 0)  # constant literal only
        except Exception:  # noqa: BLE001
            return None
    if t[0] == 'unop' and t[1] == 'neg':
        inner = _scalar_form(t[2], o)
        if inner is not None and inner[0] == 'cast':
            return inner
        return None if inner is None else (-inner[0], inner[1])
    if t[0] == 'unop' and t[1] == 'pos':
        return _scalar_form(t[2], o)
    if t[0] == 'binop' and t[1] in ('*', '/'):
        a, b = _scalar_form(t[2], o), _scalar_form(t[3], o)
        if a is None or b is None:
            return None
        if a[0] == 'cast' or b[0] == 'cast':
            return a if a[0] == 'cast' else b
        if t[1] == '*':
            return (a[0] * b[0], a[1] + b[1])
        if b[0] == 0:
            return None
        return (a[0] / b[0], a[1] - b[1])
    return None


def _check_scalar(ck, world, table, cls, name, fn, homothety) -> None:
    s = fn.args.args[0].arg
    o = fn.args.args[1].arg if len(fn.args.args) > 1 else None
    want = {'__rmul__': (1.0, 1), '__truediv__': (1.0, -1), '__mul__': (1.0, 1), '__neg__': (-1.0, 0)}
    for i, path in enumerate(function_paths(fn)):
        if path.exit != 'return' or not isinstance(path.node, ast.Return):
            continue
        env = path_env(path)
        rt = term(path.node.value, env)
        if name == '__pos__':
            ck.expect('S4', rt == ('var', s), fn, '+A is A', f'+A returns {show(rt)}', instance='__pos__')
            continue
        form = None
        struct_ok = True
        guard_needed = o is not None
        if name == '__mul__' and rt[0] == 'call' and rt[1] == ('attr', ('var', s), '__rmul__') and rt[2] == (('var', o),):
            ck.ok('S4', fn, 'A*k delegates to __rmul__ (k*A)', instance='__mul__')
            continue
        if name == '__mul__' and rt[0] == 'binop' and rt[1] == '*' and rt[2] == ('var', o) and rt[3] == ('var', s):
            # re-dispatch; reported by S6, the scalar value itself is right
            continue
        if rt[0] == 'binop' and rt[1] == '*' and rt[3] == ('var', s) and name == '__neg__':
            form = _scalar_form(rt[2], o or '')
            struct_ok = True
            guard_needed = False
        elif rt[0] == 'call' and rt[1] == ('var', table.by_name('AdditionOperator').name) and name == '__neg__':
            inner = rt[2][0] if rt[2] else None
            ok_map = (
                inner is not None and inner[0] == 'call' and inner[1] == ('attr', ('var', s), '_tree_map') and len(inner[2]) == 1
                and inner[2][0][0] == 'lambda' and len(inner[2][0][1]) == 1
            )
            if ok_map:
                lam = inner[2][0]
                body = lam[2]
                p = lam[1][0]
                f = _scalar_form(body[2], '') if body[0] == 'binop' and body[1] == '*' and body[3] == ('var', p) else None
                ck.expect('S4', f == (-1.0, 0), fn, '-(A+B+...) negates every operand (map over all operands, factor -1)',
                          f'negation of a sum maps {show(body)} over the operands', instance='sum negation')
            else:
                ck.incomplete('S4', fn, f'unrecognised negation of a sum: {show(rt)}')
            continue
        elif rt[0] == 'binop' and rt[1] == '@' and rt[3] == ('var', s) and rt[2][0] == 'call' and rt[2][1] == ('var', homothety.name):
            hargs = rt[2][2]
            form = _scalar_form(hargs[0], o or '') if hargs else None
            struct_ok = len(hargs) > 1 and hargs[1] == ('OUT', ('var', s))
        else:
            ck.incomplete('S4', fn, f'unrecognised scalar form: {show(rt)}', instance=name)
            continue
        if form is not None and form[0] == 'cast':
            ck.bad('S4', fn, f'{cls.name}.{name} converts the scalar to a fixed dtype ({show(form[1])[:60]}) before building the scalar operator: a factor that dtype cannot represent (0.5 on an integer operator, a complex factor on a real one) is silently altered, so k*A is not the scalar multiple', instance=f'{name} value')
            continue
        ck.expect('S4', form == want[name], fn, f'scalar factor is {"k" if want[name] == (1.0, 1) else "1/k" if want[name] == (1.0, -1) else "-1"}',
                  f'{cls.name}.{name} multiplies by the wrong scalar: got coefficient/exponent {form}, expected {want[name]}', instance=f'{name} value')
        ck.expect('S4', struct_ok, fn, 'the scalar operator sits on the output structure of self',
                  f'{cls.name}.{name} builds the scalar operator on a structure other than self.out_structure()', instance=f'{name} structure')
        if guard_needed:
            fs = facts(path)
            shape_guard = any(
                f[0] == 'eq' and (('tuple',) in f[1] or ('const', '()') in f[1]) and any(isinstance(x, tuple) and x[0] == 'attr' and x[2] == 'shape' for x in f[1])
                for f in fs
            ) or any(
                f[0] == 'eq' and ('const', '0') in f[1] and any(isinstance(x, tuple) and x[0] == 'attr' and x[2] == 'ndim' for x in f[1]) for f in fs
            )
            ck.expect('S4', shape_guard, fn, 'a non-scalar factor is rejected by a dominating shape guard',
                      f'{cls.name}.{name} accepts a non-scalar factor (no dominating `shape != ()` rejection)', instance=f'{name} scalar guard')



def _check_composite_mv(ck, table, comp, add) -> None:
    mv = table.resolve(comp, 'mv')
    if mv is None or not isinstance(mv.node, ast.FunctionDef):
        raise AnalysisError('anchor vanished: CompositionOperator.mv')
    fn = mv.node
    s, x = fn.args.args[0].arg, fn.args.args[1].arg
    loops = [n for n in fn.body if isinstance(n, ast.For)]
    good = False
    why = 'no loop over the operands'
    if len(loops) == 1:
        loop = loops[0]
        it = term(loop.iter)
        rev = it in (
            ('call', ('var', 'reversed'), (('attr', ('var', s), 'operands'),), ()),
            ('sub', ('attr', ('var', s), 'operands'), ('slice', ('none',), ('none',), ('unop', 'neg', ('const', '1')))),
            ('sub', ('attr', ('var', s), 'operands'), ('slice', ('none',), ('none',), ('const', '-1'))),
        )
        tgt = loop.target.id if isinstance(loop.target, ast.Name) else None
        # the threaded value: the input itself, or a local initialised with it before the loop
        from ..paths import Path as _Path

        pre_env = path_env(_Path([('stmt', st) for st in fn.body[: fn.body.index(loop)] if isinstance(st, (ast.Assign, ast.AnnAssign))]))
        carriers = [x] + [k for k, v in pre_env.items() if v == ('var', x)]
        after = path_env(_Path([('stmt', st) for st in loop.body if isinstance(st, (ast.Assign, ast.AnnAssign, ast.AugAssign))]))
        carrier = next((v for v in carriers if after.get(v) in (('apply', ('var', tgt), ('var', v)), ('call', ('var', tgt), (('var', v),), ()))), None)
        threads = carrier is not None
        returns_x = any(isinstance(st, ast.Return) and isinstance(st.value, ast.Name) and st.value.id == carrier for st in fn.body)
        good = rev and threads and returns_x
        why = f'iterates {show(it)}' + ('' if threads else ', does not thread x through each operand') + ('' if returns_x else ', does not return the threaded value')
    ck.expect('S7', good, fn, 'x is threaded through the operands last-to-first (rightmost operand applied first)',
              f'CompositionOperator.mv does not apply the operands last-to-first: {why}', instance='composition order')

    mva = table.resolve(add, 'mv')
    if mva is None or not isinstance(mva.node, ast.FunctionDef):
        raise AnalysisError('anchor vanished: AdditionOperator.mv')
    fn = mva.node
    s, x = fn.args.args[0].arg, fn.args.args[1].arg
    paths = [p for p in function_paths(fn) if p.exit == 'return' and any(ev[0] == 'iter' and ev[2] for ev in p.events)]
    ok_sum = False
    why = 'no path with a loop over the operands'
    for p in paths:
        env0: dict = {}
        first = None
        loop_iter = None
        acc_ok = False
        env: dict = {}
        for ev in p.events:
            if ev[0] == 'stmt' and isinstance(ev[1], ast.Assign):
                env = path_env(Path([ev]), env)
            elif ev[0] == 'iter':
                loop_iter = term(ev[1].iter, env)
                env = path_env(Path([ev]), env)
        leaves = ('attr', ('var', s), 'operand_leaves')
        ret = term(p.node.value, env) if isinstance(p.node, ast.Return) else None
        # expected: tree.map(add, <first leaf applied>, elem(leaves[1:])(x))
        def applied(t, opnd):
            return t in (('apply', opnd, ('var', x)), ('call', opnd, (('var', x),), ()))
        if ret is not None and ret[0] == 'call' and ret[1] == ('attr', ('attr', ('var', 'jax'), 'tree'), 'map') and len(ret[2]) == 3:
            f_add, acc, new = ret[2]
            is_add = f_add in (('attr', ('var', 'jnp'), 'add'), ('attr', ('var', 'operator'), 'add'))
            first_ok = applied(acc, ('sub', leaves, ('const', '0')))
            rest_ok = applied(new, ('elem', ('sub', leaves, ('slice', ('const', '1'), ('none',), ('none',)))))
            ok_sum = is_add and first_ok and rest_ok
            why = f'accumulates {show(ret)}'
    ck.expect('S7', ok_sum, fn, 'sum of operand(x) over the first leaf and every remaining leaf of operand_leaves, combined with add',
              f'AdditionOperator.mv does not sum operand(x) over all operand leaves: {why}', instance='sum over all leaves')


# ---------------------------------------------------------------------- controls
def controls(world: World) -> list[Control]:
    return [
        Control('drop-structure-guard', lambda w: edit_def(w, CORE, 'CompositionOperator.__rmatmul__', lambda fn: remove_stmt(fn, 'if self.out_structure() != other.in_structure():', prefix=True)), 'C02.S1'),
        Control('wrong-side-comparison', lambda w: edit_def(w, CORE, 'AbstractLinearOperator.__matmul__', lambda fn: replace_expr(fn, 'self.in_structure() != other.out_structure()', 'self.out_structure() != other.in_structure()')), 'C02.S1'),
        Control('reversed-concatenation', lambda w: edit_def(w, CORE, 'CompositionOperator.__rmatmul__', lambda fn: replace_expr(fn, '[other] + self.operands', 'self.operands + [other]')), 'C02.S2'),
        Control('division-by-scalar', lambda w: edit_def(w, CORE, 'AbstractLinearOperator.__truediv__', lambda fn: replace_expr(fn, '1 / other', 'other')), 'C02.S4'),
        Control('redispatch', lambda w: edit_def(w, CORE, 'AbstractLinearOperator.__mul__', lambda fn: replace_expr(fn, 'self.__rmul__(other)', 'other * self')), 'C02.S6'),
        Control('composition-order', lambda w: edit_def(w, CORE, 'CompositionOperator.mv', lambda fn: replace_expr(fn, 'reversed(self.operands)', 'self.operands')), 'C02.S7'),
    ]

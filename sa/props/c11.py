"""C11 - diagonal operators multiply along the requested axes (structural necessary conditions only)."""

from __future__ import annotations

import ast

from ..initflow import ALL, InitFlow
from ..kinds import Lin, describe
from ..loader import AnalysisError, World, module_of
from ..mutate import edit_def, remove_stmt, replace_expr
from ..opkinds import all_mv
from ..paths import exception_name, function_paths
from ..run import Control
from ..terms import path_env, show, term
from . import c06
from .c03 import _ret
from .c08 import _strict_guard

LEVEL = 'other'
DIAG = 'furax._base.diagonal'
RULE_TEXT = (
    'construction-time validation, the strict-variant guard, the kind of mv, its read set and the inverse are enumerated clause by clause; '
    'an obligation is one (construct, clause) item; non-trivial = discharged by guard extraction, kind inference or read-set analysis'
)
EXPLANATION = (
    'Decided: (D7) the placement itself - constructor, mv and as_matrix are evaluated over abstract arrays (axes labelled by provenance) for every order '
    'type of the requested axes with values and leaves of rank 1-3 (scalar, tuple, negative, extending axes) and, for ranks 1-2, axes of size one: the '
    'product has input axis j at L+j, values axis k at L+axes[k] and the NumPy broadcast shape; the strict variant raises exactly when that shape is not '
    'the shape of the leaf; colliding axes raise. Bounded in rank (uniform code: the arithmetic only compares, adds and sorts the axes). Also: pytree-valued and 0-d values are refused; the constructor ends, once every field is '
    'set, with an abstract evaluation of mv, so duplicated or incompatible axes surface at construction; the strict variant raises '
    'whenever the broadcast shape differs from the input leaf shape and the inherited mv reaches that check on every leaf; mv is '
    '(values reshaped/moved) * (leaf reshaped) and nothing else (kind RScale); mv and its helpers read only the values, the axes and the '
    'input (no module state, no configuration, no other field); the inverse re-uses values/axes/structure with a guarded reciprocal. '
    'NOT decided: ranks above three, the numerical product itself (element-wise multiplication is trusted).'
)


def run(ctx, ck) -> None:
    world, table = ctx.world, ctx.table
    bcast = table.get(f'{DIAG}.BroadcastDiagonalOperator')
    diag = table.get(f'{DIAG}.DiagonalOperator')
    dinv = table.get(f'{DIAG}.DiagonalInverseOperator')
    kinds = all_mv(ctx)
    init = bcast.own.get('__init__')
    if not isinstance(init, ast.FunctionDef):
        raise AnalysisError('anchor vanished: BroadcastDiagonalOperator.__init__')
    # ------------------------------------------------------------------ D1
    from ..terms import raise_paths

    rfacts = [fs for fs, _, _ in raise_paths(init, 'ValueError')]
    param = ('var', init.args.args[1].arg)
    pytree = any(('truth', ('call', ('var', 'is_leaf'), (param,), ()), False) in fs for fs in rfacts)
    scalar = any(('eq', frozenset({('attr', param, 'ndim'), ('const', '0')})) in fs for fs in rfacts)
    ck.expect('D1', pytree, init, 'pytree-valued values are refused', 'pytree-valued diagonal values are no longer refused at construction', instance='pytree values')
    ck.expect('D1', scalar, init, '0-d values are refused', 'scalar (0-d) diagonal values are no longer refused at construction', instance='scalar values')
    flow = InitFlow(world, table)
    for cls in (bcast, diag, dinv):
        rep = flow.analyse(cls)
        if rep.problems:
            for pr in rep.problems:
                ck.bad('D1', pr.node if pr.kind != 'unassigned-field' else rep.init, f'{cls.name}: {pr.detail}', instance=f'{cls.name} {pr.kind}')
        else:
            ck.expect('D1', len(rep.escapes) >= 1, rep.init or cls.node, f'{cls.name}: the constructor abstractly evaluates mv once all fields are set: duplicated / incompatible axes raise at construction',
                      f'{cls.name} no longer evaluates mv abstractly at construction: duplicated or incompatible axes only surface at first use', instance=f'{cls.name} eager check')
    last = init.body[-1]
    lt = term(last.value) if isinstance(last, (ast.Assign, ast.Expr)) else None
    ck.expect('D1', lt == ('call', ('attr', ('var', 'AbstractLinearOperator'), 'out_structure'), (('var', init.args.args[0].arg),), ()), init,
              'the abstract evaluation is the last statement of the constructor', f'the constructor ends with {show(lt)}', instance='eager check last', nontrivial=False)
    dups = table.resolve(bcast, '_normalize_axes')
    dup_ok = False
    if dups and isinstance(dups.node, ast.FunctionDef):
        for fs, _, _ in raise_paths(dups.node, 'ValueError'):
            dup_ok = dup_ok or any(f[0] == 'truth' and f[2] is True and 'Counter' in show(f[1]) and ("'gt'" in repr(f[1]) or "'ge'" in repr(f[1])) for f in fs)
            # or: the set of the axes is smaller than their list
            for f in fs:
                pair = None
                if f[0] == 'ne' and len(f[1]) == 2:
                    pair = tuple(f[1])
                elif f[0] in ('lt',) and len(f) == 3:
                    pair = (f[1], f[2])
                if pair and all(x[0] == 'call' and x[1] == ('var', 'len') and len(x[2]) == 1 for x in pair):
                    a, b = pair[0][2][0], pair[1][2][0]
                    for s_, l_ in ((a, b), (b, a)):
                        if s_[0] == 'call' and s_[1] in (('var', 'set'), ('var', 'frozenset')) and len(s_[2]) == 1 and s_[2][0] == l_:
                            dup_ok = True
    ck.expect('D1', dup_ok, dups.node if dups else bcast.node, 'duplicated destination axes (after normalisation) raise', 'duplicated axes are no longer detected', instance='duplicated axes')

    # ------------------------------------------------------------------ D2
    ck.expect('D2', _strict_guard(table, diag), diag.node, 'the strict variant raises when broadcast_shapes(values, leaf) != input leaf shape, and mv reaches the check on every leaf',
              'DiagonalOperator no longer rejects a specification that changes a leaf\'s shape (or mv no longer reaches the check)', instance='strict shape guard')
    ck.expect('D2', _strict_guard(table, dinv), dinv.node, 'the inverse inherits the strict guard', 'DiagonalInverseOperator does not inherit the strict guard', instance='strict shape guard inverse', nontrivial=False)

    # ------------------------------------------------------------------ D3
    for cls in (bcast, diag, dinv):
        s = kinds.get(cls.qual)
        ok = s is not None and isinstance(s.value, Lin) and s.value.k in ('RScale', 'Scale') and not s.unknowns
        ck.expect('D3', ok, s.fn if s else cls.node, f'{cls.name}.mv = (reshaped values) * (reshaped leaf), element-wise (kind {s.value.k if s and isinstance(s.value, Lin) else "?"})',
                  f'{cls.name}.mv is {describe(s.value) if s else "?"}: not an element-wise product of the stored values with the input', instance=cls.name)

    # ------------------------------------------------------------------ D4 purity
    allowed = {'_diagonal', 'axis_destination'}
    for cls in (bcast, diag, dinv):
        r = table.resolve(cls, 'mv')
        assert r is not None
        reads = flow.reads(cls, r.node)
        extra = sorted(x for x in reads if x not in allowed)
        ck.expect('D4', not extra, r.node, f'{cls.name}.mv and its helpers read only the values and the axes ({sorted(reads)})',
                  f'{cls.name}.mv depends on {extra}' + (' (self escapes to an external callable)' if ALL in reads else '') + ': the result must depend only on the values, the axes and the input', instance=f'{cls.name} read set')
    helpers = [n for n in ('mv', '_reshape_leaves', '_normalize_axes', '_reshape_diagonal', '_reshape_input_leaf', '_check_leaf_shapes', 'diagonal')]
    bad_globals = []
    for cls in (bcast, diag, dinv):
        for h in helpers:
            fn = cls.own.get(h)
            if not isinstance(fn, ast.FunctionDef):
                continue
            module = module_of(fn)
            local = {a.arg for a in fn.args.args} | {n.id for n in ast.walk(fn) if isinstance(n, ast.Name) and isinstance(n.ctx, ast.Store)}
            for n in ast.walk(fn):
                if isinstance(n, ast.Name) and isinstance(n.ctx, ast.Load) and n.id not in local:
                    d = module.defs.get(n.id)
                    if isinstance(d, (ast.Assign, ast.AnnAssign)):
                        bad_globals.append(f'{cls.name}.{h}:{n.id}')
                    q = world.qualify(module, n.id) or ''
                    if q.startswith('furax._base.config'):
                        bad_globals.append(f'{cls.name}.{h}:{n.id}')
                if isinstance(n, (ast.Global, ast.Nonlocal)):
                    bad_globals.append(f'{cls.name}.{h}:global')
    ck.expect('D4', not bad_globals, bcast.node, 'no module-level state or configuration is read by mv or its helpers',
              f'mv or a helper reads module-level state / configuration: {bad_globals}', instance='no module state')

    # D4c: the per-leaf function is independent of the other leaves: no mutable container created by mv is mutated
    # (directly or through a helper) by the closure mapped over the leaves
    MUT = {'update', 'append', 'setdefault', 'pop', 'add', 'extend', 'clear', 'insert', 'popitem', '__setitem__'}

    def mutates_param(fn: ast.FunctionDef, pname: str) -> bool:
        for n in ast.walk(fn):
            if isinstance(n, ast.Subscript) and isinstance(n.ctx, (ast.Store, ast.Del)) and isinstance(n.value, ast.Name) and n.value.id == pname:
                return True
            if isinstance(n, ast.Call) and isinstance(n.func, ast.Attribute) and n.func.attr in MUT and isinstance(n.func.value, ast.Name) and n.func.value.id == pname:
                return True
        return False

    for cls in (bcast, diag, dinv):
        r = table.resolve(cls, 'mv')
        fn = r.node
        shared = set()
        for st in fn.body:
            if isinstance(st, (ast.Assign, ast.AnnAssign)):
                v = st.value
                tgt = st.targets[0] if isinstance(st, ast.Assign) else st.target
                if isinstance(tgt, ast.Name) and (isinstance(v, (ast.Dict, ast.List, ast.Set)) or (isinstance(v, ast.Call) and isinstance(v.func, ast.Name) and v.func.id in ('dict', 'list', 'set'))):
                    shared.add(tgt.id)
        leaks = []
        for inner in [n for n in ast.walk(fn) if isinstance(n, (ast.FunctionDef, ast.Lambda)) and n is not fn]:
            for name in shared:
                if isinstance(inner, ast.FunctionDef) and mutates_param(inner, name):
                    leaks.append(f'{name} is mutated inside the per-leaf function')
                for c in ast.walk(inner):
                    if isinstance(c, ast.Call) and isinstance(c.func, ast.Attribute) and isinstance(c.func.value, ast.Name) and c.func.value.id == fn.args.args[0].arg:
                        helper = table.resolve(cls, c.func.attr)
                        if helper is not None and isinstance(helper.node, ast.FunctionDef):
                            hp = [a.arg for a in helper.node.args.args][1:]
                            for pos, a in enumerate(c.args):
                                if isinstance(a, ast.Name) and a.id == name and pos < len(hp) and mutates_param(helper.node, hp[pos]):
                                    leaks.append(f'{name} is handed to {c.func.attr}, which mutates it')
        ck.expect('D4', not leaks, fn, f'{cls.name}.mv: the per-leaf function shares no mutable state between leaves',
                  f'{cls.name}.mv: {leaks[0] if leaks else ""}: the result for one leaf depends on the leaves processed before it (e.g. a cache keyed without the leaf rank returns the layout of another leaf)', instance=f'{cls.name} leaf independence')

    # ------------------------------------------------------------------ D7 placement (axis-provenance interpretation)
    _placement(ctx, ck, bcast, diag, dinv)

    # ------------------------------------------------------------------ D6 dense form (schema and shared-helper rule of C04.L2)
    from . import c04

    sub = type(ck)(ck.pid)
    c04.run(ctx, sub)
    for o in sub.obs:
        if o.rule.endswith('L2') and 'furax._base.diagonal.' in o.construct:
            o.rule = f'{ck.pid}.D6'
            ck.obs.append(o)
    ck.floor('D6', sum(1 for o in ck.obs if o.rule.endswith('D6')), 3, 'dense-form obligations of the diagonal family')

    # ------------------------------------------------------------------ D5 inverse
    r = table.resolve(diag, 'inverse')
    ok, why = c06.s_diagonal(ctx, table, diag, r) if r is not None and isinstance(r.node, ast.FunctionDef) else (False, 'inverse vanished')
    ck.expect('D5', ok, r.node if r else diag.node, why, f'DiagonalOperator.inverse: {why}', instance='inverse class')
    d = table.resolve(dinv, 'diagonal')
    t = _ret(d.node) if d is not None and isinstance(d.node, ast.FunctionDef) else None
    ck.expect('D5', t is not None and 'where' in show(t) and '/' in show(t), d.node if d else dinv.node, 'the inverse values are a guarded reciprocal of the stored values (exact form: C06.I2)',
              f'the inverse values are {show(t)}', instance='guarded reciprocal', nontrivial=False)


_D7_CACHE: dict = {}
PX = (3, 5, 7, 11, 13)
PD = (17, 19, 23, 29)


def _requested(ad, r: int, m: int):
    """The specification: (normalised axes, L, R) for a legal request, 'dup' for colliding axes."""
    if isinstance(ad, int):
        ad = tuple(range(ad, ad + r)) if ad >= 0 else tuple(range(ad - r + 1, ad + 1))
    axes = tuple(a if a >= 0 else m + a for a in ad)
    if len(set(axes)) < len(axes):
        return 'dup'
    left = max(0, -min(axes))
    right = max(0, max(axes) - m + 1)
    return axes, left, right


def _requests(r: int, m: int):
    import itertools

    yield from range(-m - 2, m + 2)
    lo, hi = -m - 1, m + 1
    for t in itertools.product(range(lo, hi), repeat=r):
        if r == 3 and len(set(t)) < 3:
            continue
        yield t
        if r == 2 and t[0] < t[1]:
            yield list(t)


def _d7_cases():
    import itertools

    for m in (1, 2, 3):
        for r in (1, 2, 3):
            for ad in _requests(r, m):
                yield m, r, ad, (False,) * m, (False,) * r
    for m in (1, 2):
        for r in (1, 2):
            for ad in _requests(r, m):
                if isinstance(ad, list):
                    continue
                for ux in itertools.product((False, True), repeat=m):
                    for ud in itertools.product((False, True), repeat=r):
                        if (any(ux) or any(ud)) and not (any(ux) and any(ud)):
                            yield m, r, ad, ux, ud


_STRICT_CACHE: dict = {}


def strict_rejection(world, table, cls) -> bool | None:
    """Semantic form of the strict-variant guard, decided by the axis-provenance interpretation (D7): True when every request
    whose NumPy product does not have the shape of the leaf raises (at construction or when applied), False when one is
    accepted, None when the code cannot be followed."""
    import hashlib

    from ..axinterp import AxArr, Interp, Raised, Undecided, UNK

    key = (hashlib.sha256('\x00'.join(ast.dump(world.modules[m].tree) for m in ('furax._base.diagonal', 'furax._base.core', 'furax.tree') if m in world.modules).encode()).hexdigest(), cls.qual)
    if key in _STRICT_CACHE:
        return _STRICT_CACHE[key]
    diag = table.find(f'{DIAG}.DiagonalOperator')
    dinv = table.find(f'{DIAG}.DiagonalInverseOperator')
    verdict: bool | None = True
    nreject = 0
    for m, r, ad, ux, ud in _d7_cases():
        spec = _requested(ad, r, m)
        if spec == 'dup':
            continue
        axes, left, right = spec
        xsize = [1 if ux[j] else PX[j] for j in range(m)]
        dsize = [1 if ud[k] else (PX[a] if 0 <= a < m else PD[k]) for k, a in enumerate(axes)]
        want_shape = [1] * (left + m + right)
        for j in range(m):
            want_shape[left + j] = xsize[j]
        for k, a in enumerate(axes):
            want_shape[left + a] = max(want_shape[left + a], dsize[k])
        if tuple(want_shape) == tuple(xsize):
            continue
        nreject += 1
        it = Interp(world, table, budget=20_000)
        leaf = AxArr(tuple((frozenset({f'x{j}'}), xsize[j]) for j in range(m)))
        values = AxArr(tuple((frozenset({f'd{k}'}), dsize[k]) for k in range(r)))
        try:
            op = it.construct(diag if cls is dinv else cls, values, axis_destination=ad, in_structure=leaf)
            if cls is dinv:
                op = it.construct(dinv, op)
            it.call_method(op, 'mv', leaf)
        except Raised:
            continue
        except Undecided:
            verdict = None
            break
        if it.degraded:
            verdict = None
            break
        verdict = False
        break
    if nreject < 100 and verdict is True:
        verdict = None
    _STRICT_CACHE[key] = verdict
    return verdict


def _placement(ctx, ck, bcast, diag, dinv) -> None:
    """D7: for every order type of the requested axes (values of rank 1..3, leaves of rank 1..3, scalar and tuple requests,
    negative axes, extension by one or two axes on either side, and - for ranks up to 2 - values or leaves with axes of
    size one) the abstract product computed by mv has exactly the NumPy layout: input axis j at position L + j, values axis
    k at position L + axes[k], the broadcast shape, and nothing else; the strict variant raises exactly when that shape is
    not the shape of the leaf."""
    from ..axinterp import AxArr, Interp, Raised, Undecided, UNK, Flat, Cat, DiagOf

    world, table = ctx.world, ctx.table
    import hashlib

    from .. import run as _run

    if _run.CONTROL_EXPECT and not _run.CONTROL_EXPECT.endswith('D7'):
        return  # a positive control of another rule is being replayed

    key = hashlib.sha256('\x00'.join(ast.dump(world.modules[m].tree) for m in ('furax._base.diagonal', 'furax._base.core', 'furax.tree') if m in world.modules).encode()).hexdigest()
    if key in _D7_CACHE:
        for args in _D7_CACHE[key]:
            kind, a, kw = args
            getattr(ck, kind)(*a, **kw) if kind != 'count' else ck.counts.__setitem__(*a)
        ck.floor('D7', sum(1 for o in ck.obs if o.rule.endswith('D7')), 9, 'placement obligations')
        return
    log: list = []

    real_ck = ck

    class _Rec:
        def __getattr__(self, kind):
            def f(*a, **kw):
                log.append((kind, a, kw))
                return getattr(real_ck, kind)(*a, **kw)
            return f

    ck = _Rec()

    cases = _d7_cases

    for cls in (bcast, diag, dinv):
        strict = cls is not bcast
        stats = {'requests': 0, 'legal': 0, 'rejected': 0, 'dup': 0, 'dense': 0, 'unit-size cases': 0}
        wrong: list[str] = []
        undecided: list[str] = []
        strict_missed: list[str] = []
        dup_missed: list[str] = []
        dense_wrong: list[str] = []
        mvres = table.resolve(cls, 'mv')
        for m, r, ad, ux, ud in cases():
            spec = _requested(ad, r, m)
            stats['requests'] += 1
            stats['unit-size cases'] += bool(any(ux) or any(ud))
            it = Interp(world, table, budget=20_000)
            xsize = [1 if ux[j] else PX[j] for j in range(m)]
            if spec == 'dup':
                dsize = [PD[k] for k in range(r)]
            else:
                dsize = [1 if ud[k] else (PX[a] if 0 <= a < m else PD[k]) for k, a in enumerate(spec[0])]
            leaf = AxArr(tuple((frozenset({f'x{j}'}), xsize[j]) for j in range(m)))
            values = AxArr(tuple((frozenset({f'd{k}'}), dsize[k]) for k in range(r)))
            what = f'values of shape {tuple(dsize)}, axis_destination={ad!r}, leaf of shape {tuple(xsize)}'
            # ---- the specification (NumPy broadcasting of the laid-out values against the leaf)
            want_shape = want = None
            if spec != 'dup':
                axes, left, right = spec
                total = left + m + right
                want_shape = [1] * total
                want = [set() for _ in range(total)]
                for j in range(m):
                    want_shape[left + j] = xsize[j]
                    if xsize[j] != 1:
                        want[left + j].add(f'x{j}')
                for k, a in enumerate(axes):
                    want_shape[left + a] = max(want_shape[left + a], dsize[k])
                    if dsize[k] != 1:
                        want[left + a].add(f'd{k}')
            must_reject = spec != 'dup' and strict and tuple(want_shape) != tuple(xsize)
            units = {f'x{j}' for j in range(m) if xsize[j] == 1} | {f'd{k}' for k in range(r) if dsize[k] == 1}
            try:
                op = it.construct(diag if cls is dinv else cls, values, axis_destination=ad, in_structure=leaf)
                if cls is dinv:
                    op = it.construct(dinv, op)
                res = it.call_method(op, 'mv', leaf)
            except Raised as e:
                if spec == 'dup':
                    stats['dup'] += 1
                elif must_reject:
                    stats['rejected'] += 1
                else:
                    wrong.append(f'{what}: a legal request raises {e.name}')
                continue
            except Undecided as e:
                undecided.append(f'{what}: {e}')
                continue
            if spec == 'dup':
                if not it.degraded and res is not UNK:
                    dup_missed.append(what)
                continue
            if must_reject:
                if not it.degraded:
                    strict_missed.append(f'{what} (the product has shape {tuple(want_shape)})')
                continue
            if not isinstance(res, AxArr):
                undecided.append(f'{what}: the result of mv is not an array the interpreter can follow ({it.degraded[:1]})')
                continue
            got = [set(l) - units for l in res.layout()]
            stats['legal'] += 1
            if got != want or list(res.shape) != want_shape:
                wrong.append(f'{what}: the product has layout {res!r} and shape {res.shape}, requested {AxArr(tuple((frozenset(w), 0) for w in want))!r} with shape {tuple(want_shape)}')
                continue
            # dense form of the strict variant: what is broadcast to the leaf shape and ravelled
            if strict:
                try:
                    op.attrs.setdefault('_in_structure', leaf)
                    dense = it.call_method(op, 'as_matrix')
                except (Raised, Undecided):
                    continue
                parts = dense.of.parts if isinstance(dense, DiagOf) and isinstance(dense.of, Cat) else None
                if parts and len(parts) == 1 and isinstance(parts[0], Flat) and isinstance(parts[0].of, AxArr):
                    stats['dense'] += 1
                    gotd = [set(l) - units - {f'x{j}' for j in range(m)} for l in parts[0].of.layout()]
                    wantd = [{x for x in w if x.startswith('d')} for w in want]
                    if gotd != wantd or parts[0].of.shape != leaf.shape:
                        dense_wrong.append(f'{what}: as_matrix ravels {parts[0].of!r}')
        fn = mvres.node if mvres else cls.node
        if undecided:
            ck.incomplete('D7', fn, f'{cls.name}: the placement of the values could not be followed for {len(undecided)} of {stats["requests"]} requests, e.g. {undecided[0]}', instance=f'{cls.name} placement')
        else:
            ck.expect('D7', not wrong, fn,
                      f'{cls.name}: for all {stats["legal"]} legal order types of the request (values rank 1-3, leaf rank 1-3, scalar / tuple / negative / extending axes, axes of size one) the product has input axis j at L+j, values axis k at L+axes[k] and the broadcast shape',
                      f'{cls.name}: the values do not land on the requested axes for {len(wrong)} of {stats["requests"]} requests, e.g. {wrong[0] if wrong else ""}', instance=f'{cls.name} placement')
        if strict:
            ck.expect('D7', not strict_missed, fn, f'{cls.name}: all {stats["rejected"]} requests whose product does not have the shape of the leaf raise',
                      f'{cls.name}: a request that changes the shape of the leaf is accepted, e.g. {strict_missed[0] if strict_missed else ""}', instance=f'{cls.name} strict rejection')
            ck.expect('D7', not dense_wrong, fn, f'{cls.name}: as_matrix lays the values out like mv ({stats["dense"]} requests followed)',
                      f'{cls.name}: {dense_wrong[0] if dense_wrong else ""}', instance=f'{cls.name} dense placement', nontrivial=bool(stats['dense']))
        ck.expect('D7', not dup_missed, fn, f'{cls.name}: all {stats["dup"]} requests with colliding axes raise',
                  f'{cls.name}: colliding axes are accepted, e.g. {dup_missed[0] if dup_missed else ""}', instance=f'{cls.name} colliding axes')
        for k_, v_ in ((f'D7:{cls.name} requests', stats['requests']), (f'D7:{cls.name} unit-size cases', stats['unit-size cases'])):
            real_ck.counts[k_] = v_
            log.append(('count', (k_, v_), {}))
    ck = real_ck
    _D7_CACHE[key] = log
    ck.floor('D7', sum(1 for o in ck.obs if o.rule.endswith('D7')), 9, 'placement obligations')


def controls(world: World) -> list[Control]:
    return [
        Control('scalar-check-dropped', lambda w: edit_def(w, DIAG, 'BroadcastDiagonalOperator.__init__', lambda fn: remove_stmt(fn, 'if diagonal.ndim == 0:', prefix=True)), 'C11.D1'),
        Control('eager-check-dropped', lambda w: edit_def(w, DIAG, 'BroadcastDiagonalOperator.__init__', lambda fn: remove_stmt(fn, '_ = AbstractLinearOperator.out_structure(self)')), 'C11.D1'),
        Control('strict-guard-dropped', lambda w: edit_def(w, DIAG, 'DiagonalOperator._check_leaf_shapes', lambda fn: remove_stmt(fn, 'if shape != input_shape:', prefix=True)), 'C11.D2'),
        Control('moveaxis-arguments-swapped', lambda w: edit_def(w, DIAG, 'BroadcastDiagonalOperator._reshape_diagonal', lambda fn: replace_expr(fn, 'jnp.moveaxis(reshaped_diagonal_leaf, range(len(axes)), axes)', 'jnp.moveaxis(reshaped_diagonal_leaf, axes, range(len(axes)))')), 'C11.D7'),
        Control('reads-structure', lambda w: edit_def(w, DIAG, 'BroadcastDiagonalOperator._reshape_input_leaf', lambda fn: replace_expr(fn, 'max(0, max(axes) - input_leaf.ndim + 1)', 'max(0, max(axes) - len(jax.tree.leaves(self._in_structure)[0].shape) + 1)')), 'C11.D4'),
    ]

"""C01 - reduce() never changes the denoted map: per-rule soundness + structure of the driver."""

from __future__ import annotations

import ast

from ..classes import CORE, RULES, ClassInfo
from ..linform import Chain, InterpRaise, NonLinear, Opaque, SymObj
from ..loader import AnalysisError, Incomplete, World, module_of, qualname, site
from ..mutate import edit_def, remove_stmt, replace_expr, replace_stmt, variant, find_def
from ..paths import Path, exception_name, function_paths
from ..poly import Poly
from ..rulesem import LEFT, RIGHT, classes_of_term, combined_paths, identity_guard, known_classes, method_paths, rule_info
from ..run import Control
from ..terms import contains, path_env, show, term
from .c15 import HWP, PLR, ROT, ROTT, Polarimetry, angle

LEVEL = 'other'
RULE_TEXT = (
    'every registered binary rule, every returning path of its check+apply, every n-ary rule and the driver are enumerated; '
    'an obligation is one (rule, path or case, clause) triple; non-trivial = discharged by a guard-dominance derivation, a '
    'symbolic matrix identity (all angles, per Stokes kind) or a term equality'
)
EXPLANATION = (
    'Per-rule soundness plus driver structure, which by induction on rewrite steps is what "any rule, any context, any order" '
    'needs: deletion rules are dominated by a pair-identity (or parameter-equality) guard and their rule-specific side '
    'condition; rotation/HWP/polariser rules are proved as matrix identities with matrices derived from the mv source of the '
    'same tree, for all angles and all four Stokes kinds; block rules match the block-matrix product table; the driver reduces '
    'operands first, captures the input structure before deleting, splices exactly the pair it read, and only NoReduction '
    'escapes a rule. Termination of the scan and the numeric multiplicities of P^T P are not decided.'
)

BLOCKS = 'furax._base.blocks'


def run(ctx, ck) -> None:
    world, table = ctx.world, ctx.table
    ck.trust('linear algebra facts frozen in the tables of this rule set (A^-1 A = I; P P^T = I iff no duplicate selection; '
             'permutation matrices are orthogonal; block-matrix product layout)',
             'the polynomial normaliser of sa/poly.py')
    rules = table.rules()
    infos = {}
    for rule in rules:
        info = rule_info(table, rule)
        infos[rule.qual] = info
        has_sides = info.left is not None or info.right is not None
        ck.expect('R-REG', (info.either is not None) != has_sides, rule.node,
                  'declares operator_class xor left/right_operator_class, all resolving to operator classes',
                  'declares both or neither of operator_class and left/right_operator_class (registration raises or the rule matches nothing)')
    # (a rule declaring tuples of classes stands for as many rules as it accepts pairs)
    ck.floor('R-REG', sum(max(1, len(i.left or [1]) * len(i.right or [1])) for i in infos.values()), 13, 'registered binary rules (accepted class pairs)')
    _r_del(ck, world, table, rules, infos)
    _r_qu(ck, ctx, world, table, rules, infos)
    _r_blk(ck, world, table, rules, infos)
    _r_ptp(ck, world, table)
    _r_drv(ck, world, table)
    _r_nary(ck, world, table)
    _r_ident(ck, world, table)
    _r_red(ck, world, table)
    _r_pure(ck, world, table, rules)
    _r_raise(ck, world, table, rules, infos)
    # where the driver was executed abstractly (R-NARY "normal form by execution": chains that cancel partly, entirely, that are
    # made of identities only, with scalars produced during the scan), the clauses on the written form of the same function
    # that could not be decided are superseded
    if any(o.rule.endswith('R-NARY') and 'normal form by execution' in o.construct and o.status == 'ok' for o in ck.obs):
        ck.obs[:] = [o for o in ck.obs if not (o.rule.endswith('R-DRV') and o.status == 'incomplete' and 'AlgebraicReductionRule' in o.construct)]


# ------------------------------------------------------------------------------ R-DEL
def _is_empty_list(node: ast.AST | None) -> bool:
    return isinstance(node, ast.List) and not node.elts


def deletion_sites(world, table, rules):
    out = []
    for rule in rules:
        for fs, path, env, fn in combined_paths(world, table, rule):
            if path.exit == 'return' and isinstance(path.node, ast.Return) and _is_empty_list(path.node.value):
                out.append((rule, fs, path, env, fn))
    return out


def _r_del(ck, world, table, rules, infos) -> None:
    index = table.by_name('IndexOperator')
    pack = table.by_name('PackOperator')
    lazy_inv = table.by_name('AbstractLazyInverseOperator')
    reshape = table.by_name('AbstractRavelOrReshapeOperator')
    reshape_t = table.by_name('ReshapeTransposeOperator')
    moveaxis = table.by_name('MoveAxisOperator')
    transpose = table.by_name('TransposeOperator')
    sites = deletion_sites(world, table, rules)
    seen_returns: set[int] = set()
    for rule, fs, path, env, fn in sites:
        seen_returns.add(id(path.node))
        module = module_of(fn)
        lk = known_classes(world, table, module, fs, LEFT)
        rk = known_classes(world, table, module, fs, RIGHT)
        info = infos[rule.qual]
        if lk is None and info.left is not None:
            lk = info.left
        if rk is None and info.right is not None:
            rk = info.right
        ident = identity_guard(fs)
        label = f'{"/".join(c.name for c in lk) if lk else "?"} . {"/".join(c.name for c in rk) if rk else "?"}'

        def all_sub(ks, base):
            return ks is not None and all(table.is_subclass(k, base) for k in ks)

        # MoveAxis pair: parameter equality, crosswise
        if all_sub(lk, moveaxis) and all_sub(rk, moveaxis):
            need = [
                frozenset({('attr', LEFT, 'source'), ('attr', RIGHT, 'destination')}),
                frozenset({('attr', LEFT, 'destination'), ('attr', RIGHT, 'source')}),
            ]
            eqs = {f[1] for f in fs if f[0] == 'eq'}
            ck.expect('R-DEL', all(n in eqs for n in need), fn,
                      'deletion guarded by left.source == right.destination and left.destination == right.source (the second move undoes the first)',
                      'a MoveAxis pair is deleted without checking that source/destination are crosswise equal: the pair is not the identity in general', instance=label)
            continue
        if ident is None:
            ck.bad('R-DEL', fn, f'{rule.name} deletes the pair ({label}) on a path with no pair-identity guard (X.operator is Y): '
                   'two unrelated operators of these classes are removed although their product is not the identity', instance=label)
            continue
        if all_sub(lk, index) and all_sub(rk, transpose):
            uniq = ('truth', ('attr', LEFT, 'unique_indices'), True) in fs
            ck.expect('R-DEL', uniq, fn, f'P P^T deleted under {ident} and left.unique_indices (no input element selected twice)',
                      'Index . Index^T is deleted without the unique_indices guard: with repeated indices P P^T is not the identity', instance=label)
        elif all_sub(lk, pack) and all_sub(rk, transpose):
            ck.ok('R-DEL', fn, f'pack . pack^T deleted under {ident} (a boolean mask selects every element at most once)', instance=label)
        elif (all_sub(lk, reshape) and all_sub(rk, reshape_t)) or (all_sub(lk, reshape_t) and all_sub(rk, reshape)):
            ck.ok('R-DEL', fn, f'reshape pair deleted under {ident} (a reshape is a permutation-free relabelling: both orders are the identity)', instance=label)
        elif (lk is not None and all_sub(lk, lazy_inv)) or (rk is not None and all_sub(rk, lazy_inv)) or (
            info.either is not None and all(table.is_subclass(k, lazy_inv) for k in info.either)
        ):
            ck.ok('R-DEL', fn, f'A^-1 A / A A^-1 deleted under {ident}', instance=label if (lk or rk) else 'lazy inverse either side')
        else:
            ck.incomplete('R-DEL', fn, f'deletion pattern ({label}) matches no row of the deletion table', instance=label)
    ck.floor('R-DEL', len({(r.qual, id(pth.node)) for r, _fs, pth, _e, _f in sites}), 6, '(rule, return []) deletion sites')


# ------------------------------------------------------------------------------ R-QU
def _r_qu(ck, ctx, world, table, rules, infos) -> None:
    pol: Polarimetry = ctx.cache.get('polarimetry') or Polarimetry(world, table)
    ctx.cache['polarimetry'] = pol
    targets = {pol.rot, pol.rott, pol.hwp, pol.plr}
    aL, aR = angle('aL'), angle('aR')
    ncases = 0
    for rule in rules:
        info = infos[rule.qual]
        if info.style != 'sides' or not info.left or not info.right:
            continue
        if not (set(info.left) <= targets and set(info.right) <= targets):
            continue
        apply_r = table.resolve(rule, 'apply')
        if apply_r is None or not isinstance(apply_r.node, ast.FunctionDef):
            raise AnalysisError(f'anchor vanished: {rule.name}.apply')
        # every combination twice: with two unrelated angle arrays, and with both operators holding the very same array
        # (a rule may compare the operands or their parameters by identity)
        for lc, rc, shared in [(l_, r_, sh) for l_ in info.left for r_ in info.right for sh in (False, True)]:
            if shared and not ({lc, rc} <= {pol.rot, pol.rott}):
                continue
            if True:
                for kind in pol.kinds:
                    L = pol.letters(kind)
                    inst = f'{lc.name} . {rc.name} on {L}' + (' (one angle array)' if shared else '')
                    ncases += 1
                    S = Opaque('shared structure')
                    left = _make(pol, lc, aL, S)
                    right = _make(pol, rc, aL if shared else aR, S)
                    rule_obj = SymObj(rule, {})
                    try:
                        out = pol.interp.call_function(apply_r.node, [rule_obj, left, right], {}, owner=apply_r.owner)
                    except InterpRaise as exc:
                        if exc.name == 'NoReduction':
                            ck.ok('R-QU', apply_r.node, 'no rewrite for this combination (NoReduction)', instance=inst, nontrivial=False)
                        else:
                            ck.bad('R-QU', apply_r.node, f'apply raises {exc.name} for a declared combination: reduce() would raise', instance=inst, semantic=True)
                        continue
                    except NonLinear as exc:
                        ck.bad('R-QU', apply_r.node, f'{rule.name} does not combine the parameters of the pair element-wise: {exc}', instance=inst, semantic=True)
                        continue
                    except Incomplete as exc:
                        ck.incomplete('R-QU', apply_r.node, f'{exc.site}: {exc.why}', instance=inst)
                        continue
                    if not isinstance(out, list) or not all(isinstance(o, SymObj) for o in out):
                        ck.bad('R-QU', apply_r.node, f'apply returns {type(out).__name__}, not a list of operators', instance=inst)
                        continue
                    try:
                        want = pol.matrix(Chain([left, right]), kind, inst)
                        got = pol.matrix(Chain(out), kind, inst) if out else None
                    except (NonLinear, InterpRaise, Incomplete) as exc:
                        ck.incomplete('R-QU', apply_r.node, f'cannot derive a matrix: {exc}', instance=inst)
                        continue
                    if got is None:
                        from ..poly import Matrix

                        got = Matrix.identity(want.cols)
                    ck.expect('R-QU', got == want, apply_r.node,
                              f'M(left) M(right) = product of the rewritten operators {[o.cls.name for o in out]} for all angles',
                              f'{rule.name} rewrites {lc.name} . {rc.name} into {[o.cls.name for o in out]}, whose matrix {got} differs from the original product {want}', instance=inst, semantic=True)
                    # structures of newly built operators
                    for o in out:
                        if o is left or o is right:
                            continue
                        base = o
                        while 'operator' in base.attrs and isinstance(base.attrs['operator'], SymObj):
                            base = base.attrs['operator']
                        st = base.attrs.get('_in_structure')
                        ck.expect('R-QU', st is S, apply_r.node, 'the new operator is built on the structure of the pair',
                                  f'the rewritten {o.cls.name} is built on {st!r} instead of the structure of the pair', instance=inst + ' structure', nontrivial=False)
    ck.floor('R-QU', ncases, 28, 'rule cases x Stokes kinds')


def _make(pol: Polarimetry, cls: ClassInfo, a: Poly, S) -> SymObj:
    if cls is pol.rot:
        return SymObj(cls, {'angles': a, '_in_structure': S})
    if cls is pol.rott:
        return SymObj(cls, {'operator': SymObj(pol.rot, {'angles': a, '_in_structure': S})})
    return SymObj(cls, {'_in_structure': S})


# ------------------------------------------------------------------------------ R-BLK
def _r_blk(ck, world, table, rules, infos) -> None:
    """Block product rules: decided by abstract execution of the products (c10._products_by_evaluation); the written form of
    the rule classes is the fallback, and where the evaluation decides only its confirmations are kept."""
    from types import SimpleNamespace

    from . import c10

    sub = type(ck)(ck.pid)
    _r_blk_written(sub, world, table, rules, infos)
    decided = c10._products_by_evaluation(SimpleNamespace(world=world, table=table), ck, 'R-BLK')
    for o in sub.obs:
        if decided and o.status != 'ok':
            continue
        ck.obs.append(o)
    if not decided:
        ck.floors.extend(sub.floors)


def _r_blk_written(ck, world, table, rules, infos) -> None:
    row, diag, col = (table.get(f'{BLOCKS}.{n}') for n in ('BlockRowOperator', 'BlockDiagonalOperator', 'BlockColumnOperator'))
    add = table.get(f'{CORE}.AdditionOperator')
    product_table = {
        (row.qual, diag.qual): row,
        (diag.qual, col.qual): col,
        (diag.qual, diag.qual): diag,
        (row.qual, col.qual): add,
    }
    block_base = table.get(f'{BLOCKS}.AbstractBlockOperator')
    n = 0
    for rule in rules:
        info = infos[rule.qual]
        if info.style != 'sides' or not info.left or not info.right:
            continue
        if not all(table.is_subclass(c, block_base) for c in info.left + info.right):
            continue
        n += 1
        reduced = table.class_refs(rule, 'reduced_class')
        if len(info.left) != 1 or len(info.right) != 1 or reduced is None or len(reduced) != 1:
            ck.incomplete('R-BLK', rule.node, 'block rule with tuple-valued classes')
            continue
        key = (info.left[0].qual, info.right[0].qual)
        want = product_table.get(key)
        if want is None:
            ck.bad('R-BLK', rule.node, f'{info.left[0].name} @ {info.right[0].name} is not a block-wise product (the layouts do not align block by block)')
            continue
        ck.expect('R-BLK', reduced[0] is want, rule.node, f'{info.left[0].name} @ {info.right[0].name} reduces to {want.name} (block-matrix product layout)',
                  f'{rule.name} reduces {info.left[0].name} @ {info.right[0].name} to {reduced[0].name}; the block-matrix product has the layout of {want.name}')
        # the product lambda
        apply_r = table.resolve(rule, 'apply')
        assert apply_r is not None
        fn = apply_r.node
        rets = [p for p in function_paths(fn) if p.exit == 'return']
        ok = False
        why = 'no return'
        for p in rets:
            t = term(p.node.value, path_env(p))
            params = [a.arg for a in fn.args.args]
            L, R = ('var', params[1]), ('var', params[2])
            # [RED(call(self.reduced_class, (call(L._tree_map, (lambda, R.blocks)))))]
            inner = None
            if t[0] == 'list' and len(t) == 2:
                e = t[1]
                if e[0] == 'RED':
                    e = e[1]
                    reduced_after = True
                else:
                    reduced_after = False
                if e[0] == 'call' and e[1] == ('attr', ('var', params[0]), 'reduced_class') and len(e[2]) == 1:
                    inner = e[2][0]
            if inner is None or inner[0] != 'call':
                why = f'unrecognised product construction {show(t)}'
                continue
            f_t = inner[1]
            a_t = inner[2]
            if f_t == ('attr', L, '_tree_map') and len(a_t) == 2 and a_t[1] == ('attr', R, 'blocks') and a_t[0][0] == 'lambda' and len(a_t[0][1]) == 2:
                p1, p2 = a_t[0][1]
                body = a_t[0][2]
                ok = body == ('binop', '@', ('var', p1), ('var', p2))
                why = f'block product is {show(body)} with ({p1}, {p2}) bound to (left block, right block)'
            elif f_t == ('attr', R, '_tree_map') and len(a_t) == 2 and a_t[1] == ('attr', L, 'blocks') and a_t[0][0] == 'lambda' and len(a_t[0][1]) == 2:
                p1, p2 = a_t[0][1]
                body = a_t[0][2]
                ok = body == ('binop', '@', ('var', p2), ('var', p1))
                why = f'block product is {show(body)} with ({p1}, {p2}) bound to (right block, left block)'
            elif f_t == ('attr', ('attr', ('var', 'jax'), 'tree'), 'map') and len(a_t) == 3 and {a_t[1], a_t[2]} == {('attr', L, 'blocks'), ('attr', R, 'blocks')} and a_t[0][0] == 'lambda' and len(a_t[0][1]) == 2:
                # the same mapping written with jax.tree.map over the two containers
                p1, p2 = a_t[0][1]
                body = a_t[0][2]
                first_is_left = a_t[1] == ('attr', L, 'blocks')
                ok = body == (('binop', '@', ('var', p1), ('var', p2)) if first_is_left else ('binop', '@', ('var', p2), ('var', p1)))
                why = f'block product is {show(body)} with ({p1}, {p2}) bound to ({"left" if first_is_left else "right"} block, {"right" if first_is_left else "left"} block)'
            else:
                why = f'unrecognised block mapping {show(inner)}'
        ck.expect('R-BLK', ok, fn, 'each reduced block is (left block) @ (right block), left and right containers aligned leaf by leaf',
                  f'the block-wise product multiplies in the wrong order or over misaligned containers: {why}', instance=f'{rule.name} product order')
        # container alignment: the two containers are mapped together, so their pytree structures must be known equal
        aligned = False
        for fs, path, env, afn in combined_paths(world, table, rule):
            if path.exit != 'return':
                continue
            aligned = any(
                f[0] == 'eq' and len(f[1]) == 2 and all(isinstance(x, tuple) and x[0] == 'call' and show(x[1]).endswith('tree.structure') for x in f[1])
                and {show(x[2][0]) for x in f[1]} == {'left.blocks', 'right.blocks'}
                for f in fs
            )
        ck.expect('R-BLK', aligned, fn, 'the rewrite is only applied when both block containers have the same pytree structure (otherwise NoReduction)',
                  f'{rule.name} maps left.blocks and right.blocks together without checking that the two containers have the same pytree structure: for '
                  'differently nested containers with matching structures (e.g. BlockRow([[B1, B2]]) @ BlockDiagonal([A])) jax.tree.map raises inside reduce()',
                  instance=f'{rule.name} container alignment')
    ck.floor('R-BLK', n, 4, 'block rules')


# ------------------------------------------------------------------------------ R-PTP
def _r_ptp(ck, world, table) -> None:
    """P^T P rewrite: which products are rewritten, and where the diagonal is placed, are decided by abstract execution of the
    rule (_ptp_by_evaluation); the written form is the fallback and decides the multiplicity computation."""
    sub = type(ck)(ck.pid)
    _r_ptp_written(sub, world, table)
    decided = _ptp_by_evaluation(ck, world, table)
    for o in sub.obs:
        if decided and o.status != 'ok' and any(k in o.construct for k in ('single indexed axis', 'diagonal placement')):
            continue
        ck.obs.append(o)
    ck.floors.extend(sub.floors)


def _ptp_by_evaluation(ck, world, table) -> bool:
    """The rule's apply is evaluated (sa/axinterp.py) on index operators built with every index expression of up to three
    entries over two integer arrays, an integer, a range slice, the full slice and the ellipsis that holds an integer array
    (so that a position may be selected twice), on a three-axis leaf.  P^T P is diagonal along one axis only when a single
    axis is indexed: with several indexed entries the rule must not fire; when it fires the diagonal operator must be built
    on the input structure of P, along the axis of the array counted as x[...] counts it."""
    import itertools

    from ..axinterp import AxArr, Built, Env, Func, Interp, Obj, Opaque, Raised, StructLeaf, Undecided, UNK
    from .. import run as _run

    if _run.CONTROL_EXPECT and not _run.CONTROL_EXPECT.endswith(('R-PTP', 'X4', 'O6')):
        return False
    rule = table.by_name('TransposeIndexRule')
    index_cls = table.by_name('IndexOperator')
    diag = table.by_name('DiagonalOperator')
    transpose = table.by_name('TransposeOperator')
    r = table.resolve(rule, 'apply') if rule is not None else None
    if None in (rule, index_cls, diag, transpose, r) or not isinstance(r.node, ast.FunctionDef):
        return False
    fn = r.node
    A = AxArr(((frozenset({'a'}), 5),), 'int32')
    B = AxArr(((frozenset({'b'}), 5),), 'int32')
    names = {id(A): 'rows', id(B): 'cols'}
    entries = [A, B, 0, slice(1, 3), slice(None), Ellipsis]
    st = StructLeaf(((frozenset({'x'}), 7), (frozenset({'y'}), 6), (frozenset({'z'}), 4)), 'float32')

    def text(t):
        return '(' + ', '.join(names.get(id(e), repr(e)) for e in t) + ')'

    problems: list[str] = []
    n = fired = 0
    for k in (1, 2, 3):
        for t in itertools.product(entries, repeat=k):
            arrays = [e for e in t if isinstance(e, AxArr)]
            if not arrays or sum(e is Ellipsis for e in t) > 1 or len({id(e) for e in arrays}) < len(arrays):
                continue
            n += 1
            it = Interp(world, table, budget=40_000)
            it.watch_constructors = {diag.qual}
            right = Obj(index_cls, {'indices': t, 'unique_indices': False, '_in_structure': st, '_out_structure': Opaque('out')})
            left = Obj(transpose, {'operator': right})
            indexed = [(p_, e) for p_, e in enumerate(t) if e is not Ellipsis and not (isinstance(e, slice) and e == slice(None))]
            try:
                res = it.call_function(Func(fn, Env(module_of(fn)), Obj(rule, {}), r.found_on), [left, right], {})
            except Raised as exc:
                if exc.name != 'NoReduction':
                    problems.append(f'P^T P with P = x[{text(t)[1:-1]}]: the rule raises {exc.name}')
                continue
            except Undecided as exc:
                ck.note(f'R-PTP: the rule could not be executed abstractly on {text(t)}: {exc}' + (f' [{it.degraded[0]}]' if it.degraded else ''))
                return False
            if not isinstance(res, list) or len(res) != 1 or not isinstance(res[0], Built) or res[0].cls is not diag:
                ck.note(f'R-PTP: on {text(t)} the rule returns something that is not one diagonal operator built in place: not decided by evaluation')
                return False
            fired += 1
            if len(indexed) > 1:
                problems.append(f'P^T P with P = x[{text(t)[1:-1]}] is replaced by a diagonal operator although {len(indexed)} axes are indexed: the product is not diagonal along one axis')
                continue
            kw = dict(res[0].kwargs)
            fields = [f.name for f in table.fields(diag)]
            init = table.resolve(diag, '__init__')
            if init is not None and isinstance(init.node, ast.FunctionDef):
                pos = [a.arg for a in init.node.args.args[1:]]
                kw.update(zip(pos, res[0].args))
            axis = kw.get('axis_destination', 0)
            ins = kw.get('in_structure')
            p_ = indexed[0][0]
            ell = [i for i, e in enumerate(t) if e is Ellipsis]
            want = p_ if (not ell or p_ < ell[0]) else p_ - len(t)
            if ins is not st:
                problems.append(f'P^T P with P = x[{text(t)[1:-1]}]: the diagonal operator is not built on the input structure of P')
            elif not isinstance(axis, int) or isinstance(axis, bool):
                ck.note(f'R-PTP: on {text(t)} the axis of the diagonal is not a concrete integer: not decided by evaluation')
                return False
            elif axis % 3 != want % 3:
                problems.append(f'P^T P with P = x[{text(t)[1:-1]}]: the diagonal is placed along axis {axis}, the array indexes axis {want}')
            cov = kw.get('diagonal')
            if isinstance(cov, AxArr) and cov.shape != (st.shape[want % 3],):
                problems.append(f'P^T P with P = x[{text(t)[1:-1]}]: the multiplicities have shape {cov.shape}, the indexed axis has {st.shape[want % 3]} positions')
    if fired == 0:
        ck.note('R-PTP: the rule never fires on the evaluated expressions: not decided by evaluation')
        return False
    ck.expect('R-PTP', not problems, fn, f'on {n} index expressions holding an integer array the rule fires only when one axis is indexed ({fired} expressions) and places the diagonal '
              'on the input structure of P along that axis', f'{problems[0] if problems else ""} ({len(problems)} of {n} expressions)', instance='P^T P by evaluation', semantic=True)
    ck.floor('R-PTP', n, 100, 'index expressions evaluated on the P^T P rule')
    return True


def _only_reshapes(t, raw) -> bool:
    """`t` is `raw` itself, possibly under ravel / reshape / flatten / astype calls (nothing that changes a value)."""
    while True:
        if t == raw:
            return True
        if isinstance(t, tuple) and t and t[0] == 'call' and isinstance(t[1], tuple) and t[1][0] == 'attr' and t[1][2] in ('ravel', 'reshape', 'flatten', 'astype'):
            t = t[1][1]
            continue
        return False


def _r_ptp_written(ck, world, table) -> None:
    rule = table.by_name('TransposeIndexRule')
    info = rule_info(table, rule)
    combos = [c for c in combined_paths(world, table, rule) if c[1].exit == 'return']
    ck.floor('R-PTP', len(combos), 1, 'returning paths of TransposeIndexRule')
    from .c12 import flag_kind_invariant

    flag_kind_invariant(ck, table, 'R-PTP')
    for fs, path, env, fn in combos:
        ck.expect('R-PTP', identity_guard(fs) is not None, fn, 'P^T P rewritten only when left.operator is right',
                  'Index^T . Index is rewritten without checking that the transpose wraps this very index operator', instance='identity')
        params = [a.arg for a in fn.args.args]
        R = ('var', params[2])
        e = path_env(path)
        rt = term(path.node.value, e)
        # guards
        raises = [p for p in function_paths(fn) if p.exit == 'raise' and exception_name(p.node) == 'NoReduction']
        texts = [' '.join(ast.unparse(ev[1]) for ev in p.events if ev[0] == 'cond') for p in raises]
        multi_axis = any('len(indexed_axes) > 1' in t or 'len(right.indexed_axes) > 1' in t for t in texts)
        # structural version: a truth fact len(X) > 1 negated on the returning path
        axes_t = ('attr', R, 'indexed_axes')
        g1 = ('truth', ('cmp', 'gt', ('call', ('var', 'len'), (axes_t,), ()), ('const', '1')), False) in fs or \
            ('eq', frozenset({('call', ('var', 'len'), (axes_t,), ()), ('const', '1')})) in fs
        ck.expect('R-PTP', g1, fn, 'NoReduction when more than one axis is indexed', 'the rewrite is applied although several axes are indexed (the product is not diagonal along one axis)', instance='single indexed axis')
        g2 = any(f[0] == 'truth' and f[2] is False and f[1][0] == 'cmp' and f[1][1] == 'gt' and 'shape' in show(f[1]) for f in fs)
        ck.expect('R-PTP', g2, fn, 'NoReduction when the leaves have different shapes', 'the rewrite is applied to pytrees whose leaves have different shapes with one coverage array', instance='uniform leaf shapes')
        # the diagonal operator
        good = False
        why = show(rt)
        if rt[0] == 'list' and len(rt) == 2 and rt[1][0] == 'call' and rt[1][1] == ('var', 'DiagonalOperator'):
            call = rt[1]
            kws = dict(call[3])
            axis_t = ('sub', axes_t, ('const', '0'))
            cov = call[2][0] if call[2] else None
            struct_ok = kws.get('in_structure') == ('IN', R)
            axis_ok = kws.get('axis_destination') == axis_t
            # coverage = zeros(size_max).at[unique].add(counts), (unique, counts) = unique(index, return_counts=True, size=size_max)
            index_t = ('sub', ('attr', R, 'indices'), axis_t)
            cov_s = show(cov)
            uniq_call = None
            bin_call = None  # the histogram form: coverage = jnp.bincount(index.ravel(), length=size)[.astype(dtype)]
            for st in path.stmts():
                if isinstance(st, ast.Assign) and isinstance(st.value, ast.Call) and world.qualify(module_of(st), st.value.func) == 'jax.numpy.unique':
                    uniq_call = st
                if isinstance(st, ast.Assign):
                    for sub_ in ast.walk(st.value):
                        if isinstance(sub_, ast.Call) and world.qualify(module_of(st), sub_.func) in ('jax.numpy.bincount', 'numpy.bincount'):
                            bin_call = (st, sub_)
            if uniq_call is None and bin_call is None:
                # neither counting form is present: the written-form clauses do not apply (the evaluation above decides
                # placement; the multiplicities themselves are then not decided)
                ck.expect('R-PTP', struct_ok and axis_ok, fn, 'the diagonal lives on right.in_structure(), its values placed along the indexed axis',
                          f'the diagonal replacing P^T P is not built on the input structure of P along the indexed axis: structure ok={struct_ok}, axis ok={axis_ok}', instance='diagonal placement')
                ck.incomplete('R-PTP', fn, 'the multiplicities are computed neither with jnp.unique(..., return_counts=True) + .at[].add nor with jnp.bincount(..., length=): '
                              'this way of counting is not modelled, so neither the alias clause nor the multiplicity clause is decided', instance='multiplicity diagonal')
                continue
            if uniq_call is None:
                st_, bc = bin_call
                e0 = path_env(path, upto=st_)
                args = [term(a, e0) for a in bc.args]
                kw = {k.arg: term(k.value, e0) for k in bc.keywords}
                uniq_ok = bool(args) and contains(args[0], index_t)
                # `length=` fixes the number of bins (minlength alone lets an out-of-range value grow the result)
                size_ok = 'length' in kw and show(kw['length']).endswith(f'[{show(axis_t)}]')
                a0s = show(args[0]) if args else ''
                raw = ('sub', ('attr', R, 'indices'), axis_t)
                alias_ok = bool(args) and not _only_reshapes(args[0], raw) and (' % ' in a0s or 'mod(' in a0s or 'remainder(' in a0s or ('where(' in a0s and ' lt 0' in a0s.replace('(', ' ').replace(')', ' ') or 'where(' in a0s and '< 0' in a0s))
                ck.expect('R-PTP', alias_ok, fn, 'negative entries are mapped to their non-negative alias before the positions are binned',
                          'the index array is passed to jnp.bincount as is: JAX clips a negative entry to bin 0 instead of counting it at the position it selects '
                          '(n + entry), so the multiplicity diagonal of P^T P is wrong for indices with negative entries', instance='negative aliases')
                ck.expect('R-PTP', struct_ok and axis_ok, fn, 'the diagonal lives on right.in_structure(), its values placed along the indexed axis',
                          f'the diagonal replacing P^T P is not built on the input structure of P along the indexed axis: structure ok={struct_ok}, axis ok={axis_ok}', instance='diagonal placement')
                used = 'bincount' in cov_s
                ck.expect('R-PTP', uniq_ok and size_ok and used, fn, 'multiplicities = histogram of the selected positions along the indexed axis (length = the length of that axis)',
                          f'the P^T P rewrite does not build the multiplicity diagonal consistently: bincount(index along that axis) ok={uniq_ok}, length along that axis ok={size_ok}, histogram used as the diagonal ok={used}', instance='multiplicity diagonal')
                continue
            uniq_ok = False
            size_ok = False
            if uniq_call is not None:
                e0 = path_env(path, upto=uniq_call)
                args = [term(a, e0) for a in uniq_call.value.args]
                kw = {k.arg: term(k.value, e0) for k in uniq_call.value.keywords}
                uniq_ok = bool(args) and contains(args[0], index_t) and kw.get('return_counts') == ('const', 'True')
                size_t = ('sub', ('call', ('attr', ('call', ('var', 'set'), (), ()), 'pop'), (), ()), axis_t)
                size_ok = 'size' in kw and show(kw['size']).endswith(f'[{show(axis_t)}]')
            alias_ok = False
            if uniq_call is not None and args:
                a0 = args[0]
                raw = ('sub', ('attr', R, 'indices'), axis_t)
                a0s = show(a0)
                alias_ok = a0 != raw and (' % ' in a0s or 'mod(' in a0s or 'remainder(' in a0s or ('where(' in a0s and ' lt 0' in a0s.replace('(', ' ').replace(')', ' ') or 'where(' in a0s and '< 0' in a0s))
            ck.expect('R-PTP', alias_ok, fn, 'negative entries are mapped to their non-negative alias before the distinct positions are counted',
                      'the index array is passed to jnp.unique as is: a negative entry and its non-negative alias (-1 and n-1) are counted as two distinct '
                      'positions and scattered with unique_indices=True, so the multiplicity diagonal of P^T P is wrong for indices that mix both forms', instance='negative aliases')
            add_ok = cov is not None and '.add' in cov_s and 'item' in repr(cov) or (cov is not None and cov[0] == 'call' and cov[1][0] == 'attr' and cov[1][2] == 'add')
            ck.expect('R-PTP', struct_ok and axis_ok, fn, 'the diagonal lives on right.in_structure(), its values placed along the indexed axis',
                      f'the diagonal replacing P^T P is not built on the input structure of P along the indexed axis: structure ok={struct_ok}, axis ok={axis_ok}', instance='diagonal placement')
            good = uniq_ok and size_ok and add_ok
            why = f'unique(index along that axis, return_counts) ok={uniq_ok}, size along that axis ok={size_ok}, accumulation by add ok={add_ok}'
        ck.expect('R-PTP', good, fn, 'multiplicities = counts of the distinct positions along the indexed axis (size = the length of that axis), accumulated with .add',
                  f'the P^T P rewrite does not build the multiplicity diagonal consistently: {why}', instance='multiplicity diagonal')


# ------------------------------------------------------------------------------ R-DRV
def _r_drv(ck, world, table, strict_order: bool = False) -> None:
    comp = table.get(f'{CORE}.CompositionOperator')
    red = table.resolve(comp, 'reduce')
    if red is None or not isinstance(red.node, ast.FunctionDef):
        raise AnalysisError('anchor vanished: CompositionOperator.reduce')
    fn = red.node
    s = fn.args.args[0].arg
    from ..terms import return_cases

    paths = return_cases(world, fn)
    ck.floor('R-DRV', len(paths), 3, 'returning paths of CompositionOperator.reduce')
    S = ('var', s)
    want_ops = None
    apply_t = ('attr', ('call', ('var', 'AlgebraicReductionRule'), (), ()), 'apply')

    def elementwise_reduce(t):
        return t[0] == 'comp' and t[1][0] == 'RED' and len(t[2]) == 1 and t[1][1] == t[2][0][0] and not t[2][0][2]

    def chain_equiv(t) -> bool:
        """t denotes a list whose product is the product of self.operands: the operands themselves, each operand reduced,
        or the driver applied to such a list (every rewrite of the driver is product-preserving: the other R-* rules)."""
        if t == ('attr', S, 'operands'):
            return True
        if t[0] == 'call' and t[1] in (('var', 'list'), ('var', 'tuple')) and len(t[2]) == 1:
            return chain_equiv(t[2][0])
        if elementwise_reduce(t):
            return chain_equiv(t[2][0][1])
        if t[0] == 'call' and t[1] == apply_t and len(t[2]) == 1:
            return chain_equiv(t[2][0])
        return False

    def uses_driver(t) -> bool:
        return contains(t, apply_t)

    for pf, rt0, e, fs_txt, _node in paths:
        # the operand list of this path: the largest chain-equivalent term the returned value is built from
        cands = [v for v in e.values() if isinstance(v, tuple) and v and uses_driver(v) and (chain_equiv(v) or v[0] in ('call', 'comp'))]
        ops_t = next((v for v in sorted(cands, key=lambda v: -len(repr(v))) if contains(rt0, v)), None) or (cands[0] if cands else None)
        good_ops = ops_t is not None and chain_equiv(ops_t)
        first = (
            ops_t is not None and ops_t[0] == 'call' and ops_t[1] == apply_t and len(ops_t[2]) == 1 and elementwise_reduce(ops_t[2][0])
            and ops_t[2][0][2][0][1] == ('attr', S, 'operands')
        )
        if want_ops is None:
            want_ops = good_ops
            ck.expect('R-DRV', good_ops, fn, 'the operand list is obtained from self.operands by reducing operands and applying the chain driver only: its product is the product of the chain',
                      f'CompositionOperator.reduce builds its operand list as {show(ops_t)}, which is not self.operands rewritten by operand reduction and the chain driver', instance='operand list')
            if strict_order:
                ck.expect('R-DRV', first, fn, 'every operand is reduced, in order, before the chain rules are applied to the list',
                          f'CompositionOperator.reduce does not reduce each operand in order before the chain scan: operands = {show(ops_t)} '
                          '(the driver never sees what an operand becomes through its own reduce(): identities, scalars and reducible neighbours stay)', instance='operands reduced first')
        rt = rt0
        len_ops = ('call', ('var', 'len'), (ops_t,), ())
        if rt[0] == 'call' and rt[1] == ('var', 'IdentityOperator'):
            ck.expect('R-DRV', rt[2] == (('IN', S),) and ('eq', frozenset({len_ops, ('const', '0')})) in pf, fn,
                      'empty chain -> IdentityOperator(self.in_structure())', f'empty chain returns {show(rt)} under ({fs_txt})', instance='empty chain')
        elif rt == ('sub', ops_t, ('const', '0')):
            ck.expect('R-DRV', ('eq', frozenset({len_ops, ('const', '1')})) in pf, fn, 'one operand left -> that operand', f'returns operands[0] under ({fs_txt})', instance='single operand')
        elif rt[0] == 'call' and rt[1] == ('var', 'CompositionOperator'):
            ck.expect('R-DRV', rt[2] == (ops_t,), fn, 'n operands -> CompositionOperator(operands) in the order returned by the driver',
                      f'returns {show(rt)}', instance='n operands')
        else:
            ck.bad('R-DRV', fn, f'CompositionOperator.reduce returns {show(rt)} under ({fs_txt})', instance='unexpected return')

    alg = table.get(f'{RULES}.AlgebraicReductionRule')
    ap = table.resolve(alg, 'apply')
    if ap is None or not isinstance(ap.node, ast.FunctionDef):
        raise AnalysisError('anchor vanished: AlgebraicReductionRule.apply')
    fn = ap.node
    ops = fn.args.args[1].arg
    # in_structure captured from operands[-1] before any filtering
    body = fn.body
    cap_idx = next((i for i, st in enumerate(body) if isinstance(st, ast.Assign) and term(st.value) == ('IN', ('sub', ('var', ops), ('unop', 'neg', ('const', '1'))))), None)
    first_rebind = next((i for i, st in enumerate(body) if isinstance(st, ast.Assign) and any(isinstance(t, ast.Name) and t.id == ops for t in st.targets)), None)
    ck.expect('R-DRV', cap_idx is not None and (first_rebind is None or cap_idx < first_rebind), fn,
              'the input structure is captured from operands[-1] before any operand is removed',
              'the input structure of the chain is not captured from the last operand before the list is rewritten', instance='in_structure captured first')
    cap_name = body[cap_idx].targets[0].id if cap_idx is not None and isinstance(body[cap_idx].targets[0], ast.Name) else None
    # splice: the rewrite replaces exactly the pair that was matched.  The pair is whatever is read from the list by
    # single-element subscripts inside the scan loop (a tuple assignment, or the arguments of a helper call)
    loops = [n for n in fn.body if isinstance(n, ast.While)]
    scope = loops[0] if len(loops) == 1 else fn
    splices = [n for n in ast.walk(scope) if isinstance(n, ast.Assign) and isinstance(n.targets[0], ast.Subscript) and isinstance(n.targets[0].value, ast.Name) and n.targets[0].value.id == ops
               and isinstance(n.targets[0].slice, ast.Slice)]
    loads = {term(n.slice) for n in ast.walk(scope) if isinstance(n, ast.Subscript) and isinstance(n.ctx, ast.Load) and isinstance(n.value, ast.Name) and n.value.id == ops
             and not isinstance(n.slice, ast.Slice)}
    ok = False
    why = 'no splice / pair read found'
    if len(splices) == 1 and len(loads) == 2:
        sl = term(splices[0].targets[0].slice)
        r0 = next((a for a in loads if ('binop', '+', a, ('const', '1')) in loads), None)
        if r0 is not None:
            r1 = ('binop', '+', r0, ('const', '1'))
            ok = sl[0] == 'slice' and sl[1] == r0 and sl[2] == ('binop', '+', r0, ('const', '2')) and sl[3] == ('none',)
            why = f'pair read at [{show(r0)}], [{show(r1)}]; splice assigns [{show(sl)}]'
        else:
            why = f'the elements read from the list are {sorted(show(a) for a in loads)}: not an adjacent pair'
    if len(splices) == 1 and len(loads) == 2:
        ck.expect('R-DRV', ok, fn, 'the rewrite replaces operands[i:i+2], exactly the pair read at i and i+1',
                  f'the splice does not replace exactly the pair that was matched: {why}', instance='splice')
    else:
        # the scan is organised differently (the splice lives in a helper, the list is rebuilt...): not a form this clause decides
        ck.incomplete('R-DRV', fn, f'the scan does not read a pair and splice it in place in the loop itself ({len(splices)} splice(s), {len(loads)} element read(s)): '
                      'whether the rewrite replaces exactly the matched pair is not decided', instance='splice')
    # empty -> identity on captured structure
    rets = [p for p in function_paths(fn) if p.exit == 'return']
    found = False
    for p in rets:
        rt = term(p.node.value, {})
        if rt[0] == 'list' and len(rt) == 2 and rt[1][0] == 'call' and rt[1][1] == ('var', 'IdentityOperator'):
            found = True
            ck.expect('R-DRV', rt[1][2] == (('var', cap_name),), fn, 'everything cancelled -> [IdentityOperator(<captured input structure>)]',
                      f'the empty result is {show(rt)}: not the identity on the captured input structure', instance='all cancelled')
    ck.expect('R-DRV', found, fn, 'an empty operand list is replaced by an identity', 'an empty operand list can be returned by the driver', instance='all cancelled exists', nontrivial=False)
    # the handler: every call of a registered rule's check/apply made by the driver (directly, or in a helper method of
    # the driver class whose call sites are themselves covered) sits inside a try that catches NoReduction
    def covered(call: ast.AST, inside: ast.FunctionDef, depth: int = 0) -> bool:
        cur = getattr(call, '_parent', None)
        child = call
        while cur is not None and cur is not inside:
            if isinstance(cur, ast.Try) and any(child is b or any(child is x for x in ast.walk(b)) for b in cur.body):
                for h in cur.handlers:
                    hq = world.qualify(module_of(inside), h.type) if h.type is not None else None
                    if h.type is None or hq in (f'{RULES}.NoReduction', 'Exception', 'BaseException'):
                        return True
            child, cur = cur, getattr(cur, '_parent', None)
        if depth >= 2:
            return False
        # not covered locally: every call site of this helper inside the driver class must be
        sites = [n for f2 in alg.own.values() if isinstance(f2, ast.FunctionDef) for n in ast.walk(f2)
                 if isinstance(n, ast.Call) and isinstance(n.func, ast.Attribute) and n.func.attr == inside.name and f2 is not inside]
        return bool(sites) and all(covered(n, enclosing(n, (ast.FunctionDef,)), depth + 1) for n in sites)

    from ..loader import enclosing

    rule_calls = []
    for f2 in alg.own.values():
        if isinstance(f2, ast.FunctionDef):
            for n in ast.walk(f2):
                if isinstance(n, ast.Call) and isinstance(n.func, ast.Attribute) and (n.func.attr == 'apply' or n.func.attr.startswith('check')) and len(n.args) == 2 and isinstance(n.func.value, ast.Name):
                    rule_calls.append((n, f2))
    ck.floor('R-RAISE', len(rule_calls), 2, 'check/apply calls of registered rules in the driver')
    ok_h = bool(rule_calls) and all(covered(n, f2) for n, f2 in rule_calls)
    ck.expect('R-RAISE', ok_h, fn, 'every check/apply call of a registered rule is made under a handler for NoReduction',
              'the driver calls check/apply of a registered rule outside any handler for NoReduction: a rule that declines makes reduce() raise', instance='handler NoReduction')


# ------------------------------------------------------------------------------ R-NARY
def _r_nary(ck, world, table) -> None:
    """R-NARY: the n-ary rules (identities dropped, scalars merged and relocated) keep the product.  Decided by executing the
    driver abstractly on chains of opaque operators, identities and symbolic scalars (C07.N8: operators kept in order, scalar
    = the product of the given ones); the clauses on the written form of the two rules are kept when they can follow the code."""
    from types import SimpleNamespace

    from . import c07

    start = len(ck.obs)
    sub = type(ck)(ck.pid)
    decided = c07._normal_form_by_execution(SimpleNamespace(world=world, table=table), sub, table.rules(), map_only=True)
    for o in sub.obs:
        o.rule = f'{ck.pid}.R-NARY'
        ck.obs.append(o)
    _r_nary_written(ck, world, table)
    if decided:
        ck.obs[:] = [o for i, o in enumerate(ck.obs) if not (i >= start and o.rule.endswith('R-NARY') and o.status == 'incomplete' and 'normal form by execution' not in o.construct)]


def _r_nary_written(ck, world, table) -> None:
    ident = table.get(f'{RULES}.IdentityRule')
    ap = table.resolve(ident, 'apply')
    assert ap is not None
    fn = ap.node
    ops = fn.args.args[1].arg
    rets = [p for p in function_paths(fn) if p.exit == 'return']
    ok = False
    for p in rets:
        t = term(p.node.value, path_env(p))
        if t[0] == 'comp' and len(t[2]) == 1:
            tgt, it, ifs = t[2][0]
            ok = t[1] == tgt and it == ('var', ops) and ifs == (('unop', 'not', ('call', ('var', 'isinstance'), (tgt, ('var', 'IdentityOperator')), ())),)
    ck.expect('R-NARY', ok, fn, 'keeps every operand that is not an IdentityOperator, in order', 'IdentityRule does not filter exactly the IdentityOperator instances', instance='identity filter')

    hom = table.get(f'{RULES}.HomothetyRule')
    ap = table.resolve(hom, 'apply')
    assert ap is not None
    fn = ap.node
    from ..rulesem import homothety_roles

    roles = homothety_roles(fn)
    need = ('first', 'last', 'value', 'kept', 'test')
    if roles is None or any(k not in roles for k in need):
        ck.incomplete('R-NARY', fn, f'HomothetyRule.apply no longer has the shape "unpack first/last; loop: multiply scalars, keep others; place the merged scalar" (missing {[k for k in need if roles is None or k not in roles]})')
        return
    ops = roles['ops']
    ok_loop = roles['test'] == ('call', ('var', 'isinstance'), (('var', roles['elem']), ('var', 'HomothetyOperator')), ())
    ck.expect('R-NARY', ok_loop, fn, 'the merged scalar is the product of the values of all scalar operands; all other operands are kept in order',
              'HomothetyRule does not multiply the values of all scalar operands / keep the others in order', instance='scalar product')
    first_v, last_v, kept_v, value_v = (('var', roles[k]) for k in ('first', 'last', 'kept', 'value'))
    rets = [p for p in function_paths(fn) if p.exit == 'return']
    nplace = 0
    first_t, last_t = ('item', ('var', ops), 0), ('item', ('var', ops), -1)
    for p in rets:
        t = term(p.node.value)  # raw: local names kept, roles known
        env = path_env(p)
        from ..terms import facts as _facts

        pf = _facts(p)
        if t[0] == 'binop' and t[1] == '+':
            for side, lst, other in (('left', t[2], t[3]), ('right', t[3], t[2])):
                if lst[0] != 'list' or len(lst) != 2:
                    continue
                elem = lst[1]
                if elem[0] == 'var' and elem[1] in env:
                    elem = env[elem[1]]
                else:
                    elem = term_subst(elem, env)
                if not (elem[0] == 'call' and elem[1] == ('var', 'HomothetyOperator')):
                    continue
                nplace += 1
                val = elem[2][0] if elem[2] else None
                structs = _possible(elem[2][1], pf) if len(elem[2]) > 1 else [None]
                want = ('OUT', first_t) if side == 'left' else ('IN', last_t)
                val_ok = val is not None and (val == env.get(roles['value']) or val == value_v or roles['value'] in show(val) or 'value' in show(val))
                ck.expect('R-NARY', all(st == want for st in structs) and val_ok and other == kept_v, fn, f'the merged scalar placed on the {side} lives on {"first.out_structure()" if side == "left" else "last.in_structure()"}, next to the kept operands',
                          f'the merged scalar placed on the {side} can be built on {[show(x) for x in structs]} (expected {show(want)}) next to {show(other)}: when the choice of the structure and the choice of the side disagree (e.g. on a size tie) the chain no longer has matching structures', instance=f'placement {side}')
    ck.floor('R-NARY', nplace, 2, 'scalar placement sites')
    ck.ok('R-NARY', fn, f'first/last are the first and last operands of the chain (starred unpacking of {ops})', instance='first/last', nontrivial=False)


def term_subst(t, env):
    if isinstance(t, tuple):
        if len(t) == 2 and t[0] == 'var' and t[1] in env:
            return env[t[1]]
        return tuple(term_subst(x, env) for x in t)
    return t


def _possible(t, pf):
    """Values a term can take on a path: an if-expression whose condition is not decided by the path facts yields both branches."""
    if isinstance(t, tuple) and t and t[0] == 'ifexp':
        c = t[1]
        known = None
        if ('truth', c, True) in pf:
            known = True
        elif ('truth', c, False) in pf:
            known = False
        if known is True:
            return _possible(t[2], pf)
        if known is False:
            return _possible(t[3], pf)
        return _possible(t[2], pf) + _possible(t[3], pf)
    return [t]


# ------------------------------------------------------------------------------ R-IDENT
def _r_ident(ck, world, table) -> None:
    n = 0
    for cls in table.operators():
        fn = cls.own.get('reduce')
        if not isinstance(fn, ast.FunctionDef):
            continue
        s = ('var', fn.args.args[0].arg)
        from ..terms import facts as path_facts

        for p in function_paths(fn):
            if p.exit != 'return':
                continue
            e = path_env(p)
            rt = term(p.node.value, e)
            if not (rt[0] == 'call' and rt[1] == ('var', 'IdentityOperator')):
                continue
            if cls.name == 'CompositionOperator':
                continue  # R-DRV
            n += 1
            fs = path_facts(p)
            struct_ok = rt[2] == (('IN', s),)
            guard = None
            if ('eq', frozenset({('OUT', s), ('IN', s)})) in fs:
                guard = 'out_structure() == in_structure()'
            for f in fs:
                if f[0] == 'eq' and ('const', '0') in f[1] and any(show(x) == f'len({s[1]}.indexed_axes)' for x in f[1]):
                    guard = 'no indexed axis'
                # the list of indexed axes is empty: `not self.indexed_axes`, `not len(self.indexed_axes)`, `len(...) < 1`
                axes_t = ('attr', s, 'indexed_axes')
                len_t = ('call', ('var', 'len'), (axes_t,), ())
                if (f[0] == 'truth' and f[2] is False and f[1] in (axes_t, len_t)) or f == ('lt', len_t, ('const', '1')) or f == ('le', len_t, ('const', '0')):
                    guard = 'no indexed axis'
                if f[0] == 'truth' and f[2] is True and f[1][0] == 'call' and f[1][1] == ('var', 'all'):
                    inner = show(f[1])
                    if 'isinstance' in inner and 'IdentityOperator' in inner and 'block_leaves' in inner:
                        guard = 'all blocks are identities'
                # the same test written with the tree helpers: jax.tree.all(X._tree_map(lambda b: isinstance(b, IdentityOperator)))
                if f[0] == 'truth' and f[2] is True and f[1][0] == 'call' and f[1][1] == ('attr', ('attr', ('var', 'jax'), 'tree'), 'all') and len(f[1][2]) == 1:
                    a = f[1][2][0]
                    if a[0] == 'call' and a[1][0] == 'attr' and a[1][2] == '_tree_map' and len(a[2]) == 1 and a[2][0][0] == 'lambda' and len(a[2][0][1]) == 1:
                        body = a[2][0][2]
                        if body == ('call', ('var', 'isinstance'), (('var', a[2][0][1][0]), ('var', 'IdentityOperator')), ()):
                            guard = 'all blocks are identities'
            ck.expect('R-IDENT', guard is not None and struct_ok, fn,
                      f'returns the identity on self.in_structure() only under the no-op guard ({guard})',
                      f'{cls.name}.reduce returns an identity ' + ('without a dominating no-op guard' if guard is None else f'on {show(rt[2])} instead of self.in_structure()')
                      + ': an operator that changes its input is replaced by the identity', instance='no-op guard')
    # the shared reduce() of the ravel / reshape operators: where its no-op guard is not in the written form above, it is decided
    # by following the axes through RavelOperator (C13: reduce() is the identity exactly when no leaf changes)
    # (a reduce() calling a hook that the subclasses override is specialised per subclass by the normaliser: the three names)
    def _pend(*names):
        return [o for o in ck.obs if o.rule.endswith('R-IDENT') and o.status != 'ok' and any(f'.{nm}.reduce' in o.construct for nm in names)]

    if _pend('AbstractRavelOrReshapeOperator', 'RavelOperator', 'ReshapeOperator'):
        from types import SimpleNamespace

        from . import c13

        sctx = SimpleNamespace(world=world, table=table, cache={})
        pending = _pend('AbstractRavelOrReshapeOperator', 'RavelOperator')
        if pending:
            sub = type(ck)(ck.pid)
            ravel = table.by_name('RavelOperator')
            if c13._ravel_by_evaluation(sctx, sub, ravel):
                ck.obs[:] = [o for o in ck.obs if o not in pending]
                for o in sub.obs:
                    o.rule = f'{ck.pid}.R-IDENT'
                    ck.obs.append(o)
        pending = _pend('AbstractRavelOrReshapeOperator', 'ReshapeOperator')
        if pending:
            reshape = table.by_name('ReshapeOperator')
            verdict = c13._reshape_reduce_by_evaluation(sctx, reshape) if reshape is not None else None
            fn_ = table.resolve(reshape, 'reduce').node if reshape is not None and table.resolve(reshape, 'reduce') is not None else None
            if verdict is not None and fn_ is not None:
                ck.obs[:] = [o for o in ck.obs if o not in pending]
                ck.expect('R-IDENT', not verdict[1], fn_, f'on {verdict[0]} legal ReshapeOperator constructions (pytrees of one to three leaves, targets with and without -1) reduce() is the identity exactly when every leaf already has the target shape',
                          f'{verdict[1][0] if verdict[1] else ""} ({len(verdict[1])} of {verdict[0]} constructions): an operator that changes its input is replaced by the identity', instance='reshape no-op by evaluation', semantic=True)
            else:
                # neither the written guard nor the evaluation decides it: undecided, never a violation from the analyser's own ignorance
                for o in pending:
                    o.status = 'incomplete'
    # IndexOperator.reduce: where the written guard is not recognised, reduce() is evaluated on index expressions
    pending = [o for o in ck.obs if o.rule.endswith('R-IDENT') and o.status != 'ok' and 'IndexOperator.reduce' in o.construct]
    if pending:
        verdict = _index_reduce_by_evaluation(world, table)
        if verdict is not None:
            ck.obs[:] = [o for o in ck.obs if o not in pending]
            fn_ = table.by_name('IndexOperator').own.get('reduce')
            ck.expect('R-IDENT', not verdict[1], fn_, f'on {verdict[0]} index expressions reduce() returns the identity (on the input structure) only when every entry is a full slice or the ellipsis',
                      f'{verdict[1][0] if verdict[1] else ""} ({len(verdict[1])} of {verdict[0]} expressions): an operator that changes its input is replaced by the identity', instance='no-op guard', semantic=True)
    ck.floor('R-IDENT', n, 3, 'identity-returning reduce sites')


def _index_reduce_by_evaluation(world, table):
    """(number of expressions, problems) or None when not decided: IndexOperator.reduce evaluated (sa/axinterp.py) on operators
    holding every index expression of up to three entries over an integer array, a mask, an integer, a range slice, the full
    slice and the ellipsis."""
    import itertools

    from ..axinterp import AxArr, Interp, Obj, Opaque, Raised, StructLeaf, Undecided

    cls = table.by_name('IndexOperator')
    ident = table.by_name('IdentityOperator')
    if cls is None or ident is None or table.resolve(cls, 'reduce') is None:
        return None
    A = AxArr(((frozenset({'a'}), 5),), 'int32')
    M = AxArr(((frozenset({'m'}), 7),), bool)
    names = {id(A): 'rows', id(M): 'mask'}
    entries = [A, M, 0, slice(1, 3), slice(None), Ellipsis]
    st = StructLeaf(((frozenset({'x'}), 7), (frozenset({'y'}), 6), (frozenset({'z'}), 4)), 'float32')
    problems: list[str] = []
    n = 0
    for k in (0, 1, 2, 3):
        for t in itertools.product(entries, repeat=k):
            if sum(e is Ellipsis for e in t) > 1:
                continue
            n += 1
            it = Interp(world, table, budget=20_000)
            it.constructible = {ident.qual}
            op = Obj(cls, {'indices': t, 'unique_indices': not any(e is A for e in t), '_in_structure': st, '_out_structure': Opaque('out')})
            try:
                res = it.call_method(op, 'reduce')
            except (Raised, Undecided):
                return None
            if it.degraded:
                return None
            selects = any(not (e is Ellipsis or (isinstance(e, slice) and e == slice(None))) for e in t)
            text = '(' + ', '.join(names.get(id(e), repr(e)) for e in t) + ')'
            if res is op:
                continue
            if not (isinstance(res, Obj) and res.cls is ident):
                return None
            if selects:
                problems.append(f'IndexOperator({text}).reduce() is the identity')
            elif res.attrs.get('_in_structure') is not st:
                problems.append(f'IndexOperator({text}).reduce() is an identity that is not on the input structure')
    return n, problems


# ------------------------------------------------------------------------------ R-PURE
def in_place_alias_updates(fn: ast.FunctionDef):
    """AugAssign / item stores whose target name is, on some path, a bare alias of data reached from a parameter
    (``angles = left.angles; angles += ...``): on a NumPy array this mutates the operand in place."""
    params = {a.arg for a in fn.args.args + fn.args.kwonlyargs}
    out = []
    for p in function_paths(fn):
        alias: dict[str, str] = {}
        for ev in p.events:
            if ev[0] != 'stmt':
                continue
            st = ev[1]
            if isinstance(st, (ast.Assign, ast.AnnAssign)) and st.value is not None:
                targets = st.targets if isinstance(st, ast.Assign) else [st.target]
                v = st.value
                root = v
                while isinstance(root, ast.Attribute):
                    root = root.value
                is_alias = isinstance(v, ast.Attribute) and isinstance(root, ast.Name) and (root.id in params or root.id in alias)
                is_name_alias = isinstance(v, ast.Name) and v.id in alias
                for t in targets:
                    if isinstance(t, ast.Name):
                        if is_alias or is_name_alias:
                            alias[t.id] = ast.unparse(v)
                        else:
                            alias.pop(t.id, None)
            elif isinstance(st, ast.AugAssign):
                t = st.target
                base = t.value if isinstance(t, ast.Subscript) else t
                if isinstance(base, ast.Name) and base.id in alias:
                    out.append((st, base.id, alias[base.id]))
                elif isinstance(t, ast.Name):
                    alias.pop(t.id, None) if False else None
            elif isinstance(st, ast.Assign) and any(isinstance(t, ast.Subscript) and isinstance(t.value, ast.Name) and t.value.id in alias for t in st.targets):
                t = next(t for t in st.targets if isinstance(t, ast.Subscript))
                out.append((st, t.value.id, alias[t.value.id]))
    seen = set()
    uniq = []
    for st, n, src in out:
        if id(st) not in seen:
            seen.add(id(st))
            uniq.append((st, n, src))
    return uniq


def _r_pure(ck, world, table, rules) -> None:
    fns = []
    for r in rules + [table.by_name('HomothetyRule'), table.by_name('IdentityRule'), table.by_name('AlgebraicReductionRule')]:
        for name in ('check', 'apply'):
            f = r.own.get(name)
            if isinstance(f, ast.FunctionDef):
                fns.append(f)
    for cls in table.operators():
        f = cls.own.get('reduce')
        if isinstance(f, ast.FunctionDef):
            fns.append(f)
    base_check = table.by_name('AbstractBinaryRule').own.get('check')
    if isinstance(base_check, ast.FunctionDef):
        fns.append(base_check)
    ck.floor('R-PURE', len(fns), 12, 'rule / reduce functions scanned for in-place updates')
    nbad = 0
    for f in fns:
        for st, name, src in in_place_alias_updates(f):
            nbad += 1
            ck.bad('R-PURE', st, f'`{ast.unparse(st)[:50]}` updates `{name}` in place while it is a bare alias of `{src}`: when that operand field is a NumPy array the '
                   'augmented assignment mutates the operand itself, so reduce() changes the map denoted by the *original* expression (and by every operator sharing the array)', instance=f'{f.name} {name}')
    if not nbad:
        ck.ok('R-PURE', fns[0], f'no rule or reduce method updates an alias of operand data in place ({len(fns)} functions)', instance='no in-place update of operand data')


# ------------------------------------------------------------------------------ R-RED
def _r_red(ck, world, table) -> None:
    """Every reduce override returns an operator with the structures of self: self, the identity under its no-op guard
    (R-IDENT), the same class rebuilt from reduced parts, or - for a sum - its only summand."""
    n = 0
    for cls in table.operators():
        fn = cls.own.get('reduce')
        if not isinstance(fn, ast.FunctionDef) or cls.name == 'CompositionOperator':
            continue
        S = ('var', fn.args.args[0].arg)
        for p in function_paths(fn):
            if p.exit != 'return':
                continue
            n += 1
            e = path_env(p)
            rt = term(p.node.value, e)
            inst = f'{cls.name} returns {show(rt)[:60]}'
            if rt == S:
                ck.ok('R-RED', fn, 'returns self', instance=inst, nontrivial=False)
            elif rt[0] == 'call' and rt[1] == ('var', 'IdentityOperator'):
                continue  # R-IDENT
            elif rt[0] == 'call' and rt[1] == ('call', ('var', 'type'), (S,), ()) and len(rt[2]) == 1 and _maps_reduce(rt[2][0], S):
                ck.ok('R-RED', fn, 'same class rebuilt from the reduced blocks over the same container', instance=inst)
            elif rt[0] == 'call' and rt[1][0] == 'var' and rt[1][1] == cls.name and len(rt[2]) == 1 and _maps_reduce(rt[2][0], S):
                ck.ok('R-RED', fn, 'same class rebuilt from the reduced parts over the same container', instance=inst)
            elif rt[0] == 'call' and rt[1] == ('call', ('var', 'type'), (S,), ()) and rt[2] in ((('RED', ('attr', S, 'operator')),),) and not rt[3]:
                ck.ok('R-RED', fn, 'a lazy dual rebuilt around its reduced operand (same structures)', instance=inst)
            elif rt in (('call', ('attr', ('call', ('var', 'super'), (), ()), 'reduce'), (), ()), ('RED', ('call', ('var', 'super'), (), ()))):
                ck.ok('R-RED', fn, 'the parent reduction (checked on the parent)', instance=inst, nontrivial=False)
            elif table.is_subclass(cls, table.by_name('AdditionOperator')) and _is_single_leaf(rt, S, p):
                ck.ok('R-RED', fn, 'a sum with a single summand is that summand (same structures)', instance=inst)
            elif table.is_subclass(cls, table.by_name('AbstractBlockOperator')) and _element_of_container(rt, S, e):
                ck.bad('R-RED', fn, f'{cls.name}.reduce returns one of its blocks ({show(rt)[:60]}): the container level of the input/output structure is lost, '
                       'so the reduced operator no longer has the structures of the original ([A] applied to [x] is not A applied to x)', instance=f'{cls.name} unwraps a block')
            else:
                ck.incomplete('R-RED', fn, f'unrecognised result of reduce: {show(rt)[:80]}', instance=inst)
    ck.floor('R-RED', n, 6, 'returning paths of reduce overrides')


def _maps_reduce(t, S) -> bool:
    return (t[0] == 'call' and t[1] == ('attr', S, '_tree_map') and len(t[2]) == 1 and t[2][0][0] == 'lambda' and len(t[2][0][1]) == 1
            and t[2][0][2] == ('RED', ('var', t[2][0][1][0])))


def _is_single_leaf(rt, S, p) -> bool:
    from ..terms import facts as _facts

    if not (rt[0] == 'sub' and rt[2] == ('const', '0')):
        return False
    want = ('call', ('var', 'len'), (rt[1],), ())
    return ('eq', frozenset({want, ('const', '1')})) in _facts(p)


def _element_of_container(rt, S, env) -> bool:
    s = show(rt)
    return rt[0] == 'sub' and ('leaves' in s or 'blocks' in s)


# ------------------------------------------------------------------------------ R-RAISE
VALUE_ASSERT_ALLOW = {
    # rule class name -> asserted variable: reason
    ('TransposeIndexRule', 'index'): 'the indexed entry is not an int/slice/ellipsis on this path (indexed_axes skips full slices; ints are arrays after jnp indexing is normalised), documented mypy narrowing',
}


def _r_raise(ck, world, table, rules, infos) -> None:
    nraise = 0
    for rule in rules:
        info = infos[rule.qual]
        for name in ('check', 'apply'):
            for fs, path, env, fn in method_paths(world, table, rule, name):
                if path.exit != 'raise':
                    continue
                exc = exception_name(path.node)
                if isinstance(path.node, ast.Raise):
                    nraise += 1
                    ck.expect('R-RAISE', exc == 'NoReduction', path.node, 'raises NoReduction (caught by the driver)',
                              f'{rule.name}.{name} raises {exc}: the driver only catches NoReduction, so reduce() raises', instance=f'{rule.name}.{name} raise', nontrivial=False)
                    continue
                # an assert: must be unreachable given the declared classes
                test = path.node.test
                module = module_of(fn)
                params = [a.arg for a in fn.args.args]
                if isinstance(test, ast.Call) and isinstance(test.func, ast.Name) and test.func.id == 'isinstance' and isinstance(test.args[0], ast.Name):
                    v = test.args[0].id
                    side = 'left' if v == params[1] else 'right' if v == params[2] else None
                    asserted = classes_of_term(world, table, module, _expand(table, rule, term(test.args[1]), params[0]))
                    if side is None:
                        bound = path_env(path).get(v)
                        role = 'index' if bound is not None and bound[0] == 'sub' and bound[1] == ('attr', ('var', params[2]), 'indices') else v
                        key = (rule.name, role)
                        if key in VALUE_ASSERT_ALLOW:
                            ck.ok('R-RAISE', path.node, f'value-level assert allow-listed: {VALUE_ASSERT_ALLOW[key]}', instance=f'{rule.name} assert on an element of right.indices', nontrivial=False)
                        else:
                            ck.incomplete('R-RAISE', path.node, f'assert on {v}, which is not an operand of the rule', instance=f'{rule.name} assert {v}')
                        continue
                    declared = info.left if side == 'left' else info.right
                    var = LEFT if side == 'left' else RIGHT
                    # a positive isinstance fact on this path already puts the operand in the asserted classes
                    implied = None
                    if asserted:
                        for f in fs:
                            if f[0] == 'isinstance' and f[1] == var and f[3] is True:
                                ks = classes_of_term(world, table, module, _expand(table, rule, f[2], params[0]))
                                if ks and all(any(table.is_subclass(k, a) for a in asserted) for k in ks):
                                    implied = ks
                    if implied:
                        ck.ok('R-RAISE', path.node, f'assert implied: on this path the operand is known to be an instance of {[k.name for k in implied]}', instance=f'{rule.name}.{name} assert {side}')
                        continue
                    if declared is None and info.either is not None:
                        # either-side style: the other operand is known not to be an instance on this path
                        other = RIGHT if side == 'left' else LEFT
                        other_not = any(f[0] == 'isinstance' and f[1] == other and f[3] is False for f in fs)
                        good = other_not and asserted is not None and all(any(table.is_subclass(d, a) for a in asserted) for d in info.either)
                        ck.expect('R-RAISE', good, path.node, 'assert implied: the other operand is not of the rule class, and check guarantees one of them is',
                                  'an assert in a rule can fail for operands the rule accepts: reduce() raises AssertionError', instance=f'{rule.name}.{name} assert {side}')
                        continue
                    if declared is None or asserted is None:
                        ck.incomplete('R-RAISE', path.node, 'cannot bound the classes of the asserted operand', instance=f'{rule.name}.{name} assert {side}')
                        continue
                    # remove classes excluded by negative isinstance facts on this path (other than the assert itself)
                    remaining = []
                    for d in declared:
                        excluded = False
                        for f in fs:
                            if f[0] == 'isinstance' and f[1] == var and f[3] is False:
                                ks = classes_of_term(world, table, module, f[2])
                                if ks and ks != asserted and any(table.is_subclass(d, k) for k in ks):
                                    excluded = True
                        if not excluded:
                            remaining.append(d)
                    good = all(any(table.is_subclass(d, a) for a in asserted) for d in remaining)
                    ck.expect('R-RAISE', good, path.node, f'assert implied by the declared {side} classes {[d.name for d in remaining]}',
                              f'assert isinstance({v}, ...) can fail for a declared {side} class {[d.name for d in remaining]}: reduce() raises AssertionError', instance=f'{rule.name}.{name} assert {side}')
                elif isinstance(test, ast.Constant) and test.value is False:
                    # unreachable branch: every declared class of some operand is excluded on this path
                    unreachable = False
                    for side, declared, var in (('left', info.left, LEFT), ('right', info.right, RIGHT)):
                        if declared is None:
                            continue
                        left_over = []
                        for d in declared:
                            excluded = any(
                                f[0] == 'isinstance' and f[1] == var and f[3] is False and (classes_of_term(world, table, module, f[2]) or [])
                                and any(table.is_subclass(d, k) for k in classes_of_term(world, table, module, f[2]) or [])
                                for f in fs
                            )
                            if not excluded:
                                left_over.append(d)
                        if not left_over:
                            unreachable = True
                    ck.expect('R-RAISE', unreachable, path.node, '`assert False` sits in a branch that the declared classes make unreachable',
                              '`assert False` is reachable for operands the rule accepts: reduce() raises AssertionError', instance=f'{rule.name}.{name} assert False')
                else:
                    ck.incomplete('R-RAISE', path.node, f'assert of an unrecognised form in a rule: {ast.unparse(test)[:60]}', instance=f'{rule.name}.{name}')
    ck.floor('R-RAISE', nraise, 10, 'raise statements in rule check/apply')


def _expand(table, rule, t, self_name):
    if isinstance(t, tuple) and t[0] == 'attr' and t[1] == ('var', self_name) and t[2] in ('operator_class', 'left_operator_class', 'right_operator_class'):
        refs = table.class_refs(rule, t[2])
        if refs is not None:
            return ('classes',) + tuple(sorted(c.qual for c in refs))
    return t


# ------------------------------------------------------------------------------ controls
def controls(world: World) -> list[Control]:
    IDX = 'furax._base.indices'
    return [
        Control('drop-unique-guard', lambda w: edit_def(w, IDX, 'IndexTransposeRule.apply', lambda fn: remove_stmt(fn, 'if not left.unique_indices:', prefix=True)), 'C01.R-DEL'),
        Control('tuple-class-loses-identity', lambda w: edit_def(w, 'furax._base.linear', 'PackUnpackRule', lambda c: replace_stmt(c, 'right_operator_class = TransposeOperator', 'right_operator_class = (TransposeOperator,)')), 'C01.R-DEL'),
        Control('angle-sign', lambda w: edit_def(w, 'furax.operators.qu_rotations', 'QURotationRule.apply', lambda fn: replace_expr(fn, 'left.angles - right.operator.angles', 'left.angles + right.operator.angles')), 'C01.R-QU'),
        Control('hwp-commutation', lambda w: edit_def(w, 'furax.operators.hwp', 'QURotationHWPRule.apply', lambda fn: replace_expr(fn, '[right, QURotationTransposeOperator(left)]', '[right, left]')), 'C01.R-QU'),
        Control('swapped-reduced-class', lambda w: edit_def(w, BLOCKS, 'BlockRowBlockDiagonalRule', lambda c: replace_stmt(c, 'reduced_class = BlockRowOperator', 'reduced_class = BlockDiagonalOperator')), 'C01.R-BLK'),
        Control('splice-off-by-one', lambda w: edit_def(w, RULES, 'AlgebraicReductionRule.apply', lambda fn: replace_expr(fn, 'index + 2', 'index + 1', count=None)), 'C01.R-DRV'),
        Control('scalar-on-wrong-structure', lambda w: edit_def(w, RULES, 'HomothetyRule.apply', lambda fn: replace_expr(fn, 'first.out_structure()', 'first.in_structure()')), 'C01.R-NARY'),
        Control('noop-guard-dropped', lambda w: edit_def(w, 'furax._base.axes', 'AbstractRavelOrReshapeOperator.reduce', lambda fn: replace_expr(fn, 'self.out_structure() == self.in_structure()', 'True')), 'C01.R-IDENT'),
    ]

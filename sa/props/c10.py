"""C10 - block operators act as the block matrices of their blocks."""

from __future__ import annotations

import ast

from ..classes import CORE
from ..kinds import Lin, NonLin, describe
from ..loader import AnalysisError, World
from ..mutate import edit_def, remove_stmt, replace_expr
from ..opkinds import all_mv
from ..paths import exception_name, function_paths
from ..rulesem import rule_info
from ..run import Control
from ..terms import facts as path_facts
from ..terms import path_env, show, term
from . import c01, c03, c04, c05, c06
from .c03 import _ret

LEVEL = 'other'
BLOCKS = 'furax._base.blocks'
RULE_TEXT = (
    'the three block classes and four block rules are enumerated; each clause (application kind incl. arity one, structure accessors, '
    'transposes, block-wise inverse, stacking function over block_leaves, constructor validation, product rules incl. container '
    'alignment) is one obligation; non-trivial = discharged by kind inference, guard facts or a term derivation'
)
EXPLANATION = (
    'Static decision of the block-matrix structure: row sums op(leaf) over all (block, input leaf) pairs, diagonal applies leaf-wise, '
    'column applies every block to the same input - all linear, including a container with a single block (tree reduction without '
    'initializer is modelled faithfully); structures, transposes (row <-> column of transposed blocks), block-wise inverse under the '
    'all-square guard, dense forms (hstack / block_diag / vstack over the same leaf order); constructors refuse blocks whose shared '
    'structure differs (full structure comparison: pytree, shapes and dtypes); product rules have the block-matrix layout, multiply left '
    'blocks on the left and only fire for identically nested containers. Numeric equality with the stacked matrix is not decided.'
)


def run(ctx, ck) -> None:
    world, table = ctx.world, ctx.table
    row, diag, col = (table.get(f'{BLOCKS}.{n}') for n in ('BlockRowOperator', 'BlockDiagonalOperator', 'BlockColumnOperator'))
    kinds = all_mv(ctx)
    # ------------------------------------------------------------------ B1
    for cls in (row, diag, col):
        s = kinds.get(cls.qual)
        if s is None:
            raise AnalysisError(f'anchor vanished: {cls.name}.mv')
        if isinstance(s.value, Lin) and not s.unknowns:
            ck.ok('B1', s.fn, f'{cls.name}.mv is linear for every container arity (kind {s.value.k})', instance=cls.name)
        elif isinstance(s.value, NonLin):
            ck.bad('B1', s.fn, f'{cls.name}.mv is not linear / does not return arrays for some container: {s.value.why}', instance=cls.name)
        else:
            ck.incomplete('B1', s.fn, f'{describe(s.value)} {s.unknowns[:1]}', instance=cls.name)
    _application_shape(ck, table, row, diag, col)

    # ------------------------------------------------------------------ B2 structures
    b2_decided = block_structures_by_evaluation(ctx, ck)
    b2_start = len(ck.obs)
    for key in (('AbstractBlockOperator', 'in_structure'), ('AbstractBlockOperator', 'out_structure'), ('BlockRowOperator', 'out_structure'), ('BlockColumnOperator', 'in_structure')):
        cls = table.by_name(key[0])
        fn = cls.own.get(key[1])
        if not isinstance(fn, ast.FunctionDef):
            ck.bad('B2', cls.node, f'{key[0]}.{key[1]} vanished')
            continue
        want_fn, text = c05.ACCESSORS[key]
        t = _ret(fn)
        S = ('var', fn.args.args[0].arg)
        ck.expect('B2', t is not None and want_fn(t, S), fn, text, f'{key[0]}.{key[1]} returns {show(t)}: {text} is required', instance=f'{key[0]}.{key[1]}')
    if b2_decided:
        # (where the evaluation decides, the written form of the accessors is kept only where it confirms)
        ck.obs[b2_start:] = [o for o in ck.obs[b2_start:] if o.status == 'ok']
    # ------------------------------------------------------------------ B3 transposes, B4 inverse, B5 dense forms
    for cls in (row, diag, col):
        fn = cls.own.get('transpose')
        ok, why = c03.SCHEMAS[cls.name](table, cls, fn) if isinstance(fn, ast.FunctionDef) else (False, 'transpose vanished')
        ck.expect('B3', ok, fn or cls.node, why, f'{cls.name}.transpose: {why}', instance=cls.name)
        fn = cls.own.get('as_matrix')
        ok, why = c04.SCHEMAS[cls.name](world, table, cls, fn) if isinstance(fn, ast.FunctionDef) else (False, 'as_matrix override vanished')
        ck.expect('B5', ok, fn or cls.node, why, f'{cls.name}.as_matrix: {why}', instance=cls.name)
    r = table.resolve(diag, 'inverse')
    ok, why = c06.s_blockdiag(ctx, table, diag, r) if r is not None and isinstance(r.node, ast.FunctionDef) and r.owner is diag else (False, 'BlockDiagonalOperator.inverse vanished')
    ck.expect('B4', ok, r.node if r else diag.node, why, f'BlockDiagonalOperator.inverse: {why}', instance='block-wise inverse')

    # ------------------------------------------------------------------ B6 constructor validation
    construction_validation(ctx, ck, row, col)

    # ------------------------------------------------------------------ B8 reduction keeps the container
    sub = type(ck)(ck.pid)
    c01._r_red(sub, world, table)
    c01._r_ident(sub, world, table)
    for o in sub.obs:
        if 'Block' in o.construct:
            o.rule = f'{ck.pid}.B8'
            ck.obs.append(o)
    ck.floor('B8', sum(1 for o in ck.obs if o.rule.endswith('B8')), 2, 'reduce obligations of the block classes')

    # ------------------------------------------------------------------ B7 product rules
    sub = type(ck)(ck.pid)
    rules = table.rules()
    infos = {r.qual: rule_info(table, r) for r in rules}
    c01._r_blk(sub, world, table, rules, infos)
    for o in sub.obs:
        o.rule = o.rule.replace('R-BLK', 'B7')
        ck.obs.append(o)
    ck.floors.extend((r.replace('R-BLK', 'B7'), c, m, w) for r, c, m, w in sub.floors)


def construction_validation(ctx, ck, row, col) -> None:
    """B6 (shared with C05.O8): a block row / column refuses blocks that do not share the output / input structure."""
    world, table = ctx.world, ctx.table
    decided = _validation_by_evaluation(ctx, ck, row, col)
    written = type(ck)(ck.pid)
    for cls, acc, tag in ((row, 'out_structure', 'OUT'), (col, 'in_structure', 'IN')):
        fn = cls.own.get('__init__')
        if not isinstance(fn, ast.FunctionDef):
            written.bad('B6', cls.node, f'{cls.name} no longer validates its blocks at construction', instance=cls.name)
            continue
        _validation(written, world, table, cls, fn, tag)
    # (where the construction is decided by evaluation, only the confirmations of the written form are kept)
    ck.obs.extend(o for o in written.obs if not (decided and o.status != 'ok'))


def block_structures_by_evaluation(ctx, ck, rule: str = 'B2') -> bool:
    """in_structure() / out_structure() of the three block classes evaluated (sa/axinterp.py) on blocks whose own structures
    are arrays or pytrees, in list / dict / nested containers and with a single block: a block diagonal declares the
    container of its blocks' structures on both sides, a row the container of the inputs and the (shared) output of its
    first block, a column the (shared) input of its first block and the container of the outputs - a shared structure that
    is itself a pytree is returned whole.  Returns True when decided."""
    from ..axinterp import Interp, Obj, Raised, StructLeaf, Undecided, UNK
    from .. import run as _run

    if _run.CONTROL_EXPECT and not _run.CONTROL_EXPECT.endswith((rule, 'B2', 'O2')):
        return False
    world, table = ctx.world, ctx.table
    generic = table.find('furax._base.dense.DenseBlockDiagonalOperator')
    base = table.get(f'{CORE}.AbstractLinearOperator')
    row, diag, col = (table.find(f'{BLOCKS}.Block{n}Operator') for n in ('Row', 'Diagonal', 'Column'))
    if None in (generic, row, diag, col):
        return False
    s = StructLeaf(((frozenset({'s'}), 3),), 'float32')
    t = StructLeaf(((frozenset({'t'}), 4),), 'float32')
    u = StructLeaf(((frozenset({'u'}), 5),), 'float32')
    tree = {'p': s, 'q': [t, u]}  # a structure that is itself a pytree
    out_fn = base.own.get('out_structure')

    def gen(name, i, o):
        return Obj(generic, {'_in_structure': i, '__out__': o, 'name': name})

    def mapped(container, f):
        if isinstance(container, Obj):
            return f(container)
        if isinstance(container, dict):
            return {k: mapped(v, f) for k, v in container.items()}
        return type(container)(mapped(v, f) for v in container)

    def first(container):
        if isinstance(container, Obj):
            return container
        vals = [container[k] for k in sorted(container)] if isinstance(container, dict) else list(container)
        return first(vals[0])

    def same(a, b):
        if isinstance(a, StructLeaf) or isinstance(b, StructLeaf):
            return isinstance(a, StructLeaf) and isinstance(b, StructLeaf) and a == b and str(a.dtype) == str(b.dtype)
        if type(a) is not type(b):
            return False
        if isinstance(a, dict):
            return set(a) == set(b) and all(same(a[k], b[k]) for k in a)
        if isinstance(a, (list, tuple)):
            return len(a) == len(b) and all(same(x, y) for x, y in zip(a, b))
        return a == b

    problems: list[str] = []
    n = 0
    for cls, shared_side in ((diag, None), (row, 'out'), (col, 'in')):
        for shared in (s, tree):
            def blk(name, other):
                if shared_side == 'out':
                    return gen(name, other, shared)
                if shared_side == 'in':
                    return gen(name, shared, other)
                return gen(name, other, shared if name == 'G0' else other)

            containers = {
                'a list of two': lambda: [blk('G0', t), blk('G1', u)],
                'a dict of two': lambda: {'a': blk('G0', t), 'b': blk('G1', tree)},
                'a nested list': lambda: [blk('G0', t), [blk('G1', u), blk('G2', s)]],
                'a single block': lambda: [blk('G0', tree)],
            }
            for cname, build in containers.items():
                blocks = build()
                op = Obj(cls, {'blocks': blocks})
                for side in ('in', 'out'):
                    n += 1
                    it = Interp(world, table, budget=40_000)
                    if isinstance(out_fn, ast.FunctionDef):
                        it.summaries[id(out_fn)] = lambda args, kwargs: args[0].attrs.get('__out__', UNK)
                    what = f'{cls.name}({cname}, {"pytree" if shared is tree else "array"}-valued blocks).{side}_structure()'
                    try:
                        got = it.call_method(op, f'{side}_structure')
                    except Raised as exc:
                        problems.append(f'{what} raises {exc.name}')
                        continue
                    except Undecided as exc:
                        ck.note(f'{rule}: {what} could not be evaluated: {exc}' + (f' [{it.degraded[0]}]' if it.degraded else ''))
                        return False
                    if it.degraded or got is UNK:
                        ck.note(f'{rule}: {what} could not be evaluated: {(it.degraded or ["unknown result"])[0]}')
                        return False
                    pick = (lambda o: o.attrs['_in_structure']) if side == 'in' else (lambda o: o.attrs['__out__'])
                    want = pick(first(blocks)) if shared_side == side else mapped(blocks, pick)
                    if not same(got, want):
                        problems.append(f'{what} is {got!r}, expected {want!r}' + (' (the structure shared by the blocks, whole)' if shared_side == side else ' (the container of the blocks\' structures)'))
    ck.expect(rule, not problems, row.node, f'on {n} block operators (array- and pytree-valued blocks; list, dict, nested and single-block containers) the declared structures are the container of the '
              'blocks\' structures, or the whole structure shared by the blocks on the shared side of a row / column',
              f'{problems[0] if problems else ""} ({len(problems)} of {n})', instance='block structures by evaluation', semantic=True)
    ck.floor(rule, n, 40, 'block structures evaluated')
    return True


def _validation_by_evaluation(ctx, ck, row, col) -> bool:
    """B6 by abstract execution (sa/axinterp.py): BlockRowOperator and BlockColumnOperator are constructed on two and three
    opaque operators, in lists, dicts and nested containers: the construction must raise ValueError whenever a block differs
    from the first one in the structure the blocks share (output for a row, input for a column) - in shape or in dtype only -
    and must succeed when only the other structures differ.  Returns True when decided."""
    from ..axinterp import Interp, Obj, Raised, StructLeaf, Undecided, UNK
    from .. import run as _run

    if _run.CONTROL_EXPECT and not _run.CONTROL_EXPECT.endswith(('B6', 'O8')):
        return False
    world, table = ctx.world, ctx.table
    generic = table.find('furax._base.dense.DenseBlockDiagonalOperator')
    base = table.get(f'{CORE}.AbstractLinearOperator')
    if generic is None:
        return False
    s = StructLeaf(((frozenset({'s'}), 3),), 'float32')
    t = StructLeaf(((frozenset({'t'}), 4),), 'float32')
    s64 = StructLeaf(((frozenset({'s'}), 3),), 'float64')
    u = StructLeaf(((frozenset({'u'}), 5),), 'float32')
    problems: list[str] = []
    ncases = 0
    for cls, side in ((row, 'output'), (col, 'input')):
        def gen(shared, other, name):
            i, o = (other, shared) if side == 'output' else (shared, other)
            return Obj(generic, {'_in_structure': i, '__out__': o, 'name': name})

        cases = [
            ('two blocks sharing it', lambda: [gen(s, t, 'G0'), gen(s, u, 'G1')], False),
            ('three blocks sharing it, in a dict', lambda: {'a': gen(s, t, 'G0'), 'b': gen(s, u, 'G1'), 'c': gen(s, s, 'G2')}, False),
            ('nested blocks sharing it', lambda: [gen(s, t, 'G0'), [gen(s, u, 'G1'), gen(s, s, 'G2')]], False),
            ('a second block of another shape', lambda: [gen(s, t, 'G0'), gen(t, t, 'G1')], True),
            ('a third block of another shape', lambda: [gen(s, t, 'G0'), gen(s, t, 'G1'), gen(u, t, 'G2')], True),
            ('a third block of another shape, in a dict', lambda: {'a': gen(s, t, 'G0'), 'b': gen(s, t, 'G1'), 'c': gen(u, t, 'G2')}, True),
            ('a nested block of another shape', lambda: [gen(s, t, 'G0'), [gen(s, t, 'G1'), gen(u, t, 'G2')]], True),
            ('a second block of another dtype', lambda: [gen(s, t, 'G0'), gen(s64, t, 'G1')], True),
        ]
        for text, build, must_raise in cases:
            ncases += 1
            it = Interp(world, table, budget=60_000)
            out_fn = base.own.get('out_structure')
            if isinstance(out_fn, ast.FunctionDef):
                it.summaries[id(out_fn)] = lambda args, kwargs: args[0].attrs.get('__out__', UNK)
            try:
                it.construct(cls, build())
                raised = None
            except Raised as exc:
                raised = exc.name
            except Undecided as exc:
                ck.note(f'B6: the construction of {cls.name} on {text} could not be executed abstractly: {exc}' + (f' [{it.degraded[0]}]' if it.degraded else ''))
                return False
            if it.degraded:
                ck.note(f'B6: the construction of {cls.name} on {text} could not be executed abstractly: {it.degraded[0]}')
                return False
            if must_raise and raised != 'ValueError':
                problems.append(f'{cls.name} accepts {text} {side} structure' + (f' (raises {raised})' if raised else '') + f': the blocks of a {"row" if side == "output" else "column"} share their {side} structure')
            if not must_raise and raised:
                problems.append(f'{cls.name} refuses {text} {side} structure with {raised}')
    ck.expect('B6', not problems, row.own.get('__init__') or row.node, f'on {ncases} constructions (lists, dicts, nested; two and three blocks) a block row / column is refused with ValueError exactly when a block '
              'differs from the first in the shared structure, by shape or by dtype', f'{problems[0] if problems else ""} ({len(problems)} of {ncases} constructions)', instance='construction by evaluation', semantic=True)
    ck.floor('B6', ncases, 16, 'block constructions evaluated')
    return True


def _products_by_evaluation(ctx, ck, rule: str = 'B7') -> bool:
    """B7 by abstract execution (sa/axinterp.py): the reduction driver, with every binary rule registered, is evaluated on
    L @ R for the nine pairs of block classes, each holding two opaque operators whose structures make L @ R a well-formed
    product.  The pairwise rewrite is an identity of block matrices only when L consumes one input per block (row, diagonal)
    and R produces one output per block (diagonal, column): those four pairs must become one operator of the class the
    block algebra gives (row / column / diagonal / sum) holding A_i @ B_i in order, the five others must be left alone,
    and so must aligned pairs whose containers are nested differently or have different lengths.  Returns True when decided."""
    from types import SimpleNamespace

    from ..axinterp import AxArr, Obj, Raised, StructLeaf, Undecided
    from . import c07
    from .. import run as _run

    if _run.CONTROL_EXPECT and not _run.CONTROL_EXPECT.endswith(('B7', 'R-BLK', 'O6')):
        return False
    world, table = ctx.world, ctx.table
    generic = table.find('furax._base.dense.DenseBlockDiagonalOperator')
    row, diag, col = (table.find(f'{BLOCKS}.Block{n}Operator') for n in ('Row', 'Diagonal', 'Column'))
    add = table.by_name('AdditionOperator')
    comp = table.by_name('CompositionOperator')
    if None in (generic, row, diag, col, add, comp):
        return False
    drv = c07.abstract_driver(SimpleNamespace(world=world, table=table), table.rules())
    if drv is None:
        return False
    it, call, fn = drv
    s = StructLeaf(((frozenset({'s'}), 3),))
    pair = [s, s]

    def gen(name, i, o):
        return Obj(generic, {'_in_structure': i, '__out__': o, 'name': name})

    def block(cls, ops):
        return Obj(cls, {'blocks': ops})

    def leaves(v):
        if isinstance(v, Obj):
            return [v]
        if isinstance(v, dict):
            return [x for k in sorted(v) for x in leaves(v[k])]
        if isinstance(v, (list, tuple)):
            return [x for e in v for x in leaves(e)]
        return [v]

    def skeleton(v):
        if isinstance(v, dict):
            return {k: skeleton(x) for k, x in v.items()}
        if isinstance(v, (list, tuple)):
            return type(v)(skeleton(x) for x in v)
        return '*'

    def factors(o):
        if isinstance(o, Obj) and o.cls is comp:
            return [f for e in leaves(o.attrs.get('operands')) for f in factors(e)]
        return [o]

    names = {id(row): 'BlockRow', id(diag): 'BlockDiagonal', id(col): 'BlockColumn'}
    problems: list[str] = []
    ncases = 0

    def evaluate(text, L, R, want_cls, As, Bs):
        nonlocal ncases
        ncases += 1
        try:
            res = call([L, R])
        except Raised as exc:
            problems.append(f'{text}: reduction raises {exc.name}' + ('' if want_cls is not None else ' (the pairwise rewrite is attempted on a product it does not apply to)'))
            return True
        except Undecided as exc:
            # not decided by evaluation: the written form of the rule classes decides (or is itself reported undecided)
            ck.note(f'{rule}: the reduction of {text} could not be executed abstractly: {exc}' + (f' [{it.degraded[0]}]' if it.degraded else ''))
            return False
        if it.degraded or not isinstance(res, list) or not all(isinstance(o, Obj) for o in res):
            ck.note(f'{rule}: the reduction of {text} could not be executed abstractly: {(it.degraded or ["the result is not a list of operators"])[0]}')
            return False
        if want_cls is None:
            if [id(o) for o in res] != [id(L), id(R)]:
                problems.append(f'{text} is rewritten into {" @ ".join(o.cls.name for o in res)}: the blocks of such a product do not multiply pairwise, the two operators must be left as they are')
            return True
        if len(res) != 1 or res[0].cls is not want_cls:
            problems.append(f'{text} reduces to {" @ ".join(o.cls.name for o in res)}, expected one {want_cls.name}')
            return True
        held = res[0].attrs.get('operands' if want_cls is add else 'blocks')
        got = [[id(f) for f in factors(b)] for b in leaves(held)]
        want = [[id(a), id(b)] for a, b in zip(As, Bs)]
        if got != want:
            problems.append(f'{text}: the {want_cls.name} does not hold A_i @ B_i for each i in order')
        elif want_cls is not add and skeleton(held) != skeleton(L.attrs['blocks']):
            problems.append(f'{text}: the products are not held in the container of the operands ({skeleton(held)} instead of {skeleton(L.attrs["blocks"])}): the structures the result acts on are not those of the product')
        return True

    table_want = {('BlockRow', 'BlockDiagonal'): row, ('BlockDiagonal', 'BlockColumn'): col, ('BlockDiagonal', 'BlockDiagonal'): diag, ('BlockRow', 'BlockColumn'): add}
    for Lc in (row, diag, col):
        for Rc in (row, diag, col):
            ln, rn = names[id(Lc)], names[id(Rc)]
            # structures that make L @ R well formed: L.in == R.out
            r_out_each = pair if (Rc is row and Lc is not col) else s   # a row's blocks share their output: it must be the pair the left operator consumes
            if Lc is col:
                a_in = s if Rc is row else pair
            else:
                a_in = s
            As = [gen(f'A{i}', a_in, s) for i in range(2)]
            Bs = [gen(f'B{i}', s, r_out_each) for i in range(2)]
            for container in ('list', 'tuple', 'dict'):
                if container == 'list':
                    L, R = block(Lc, list(As)), block(Rc, list(Bs))
                elif container == 'tuple':
                    L, R = block(Lc, tuple(As)), block(Rc, tuple(Bs))
                else:
                    L, R = block(Lc, {'x': As[0], 'y': As[1]}), block(Rc, {'y': Bs[1], 'x': Bs[0]})
                if not evaluate(f'{ln}({container} of A_i) @ {rn}({container} of B_i)', L, R, table_want.get((ln, rn)), As, Bs):
                    return False
    # containers that are not aligned: nothing to multiply pairwise
    for (ln, rn), want_cls in table_want.items():
        Lc = {'BlockRow': row, 'BlockDiagonal': diag}[ln]
        Rc = {'BlockDiagonal': diag, 'BlockColumn': col}[rn]
        As = [gen(f'A{i}', s, s) for i in range(3)]
        Bs = [gen(f'B{i}', s, s) for i in range(3)]
        if not evaluate(f'{ln}([A0, [A1, A2]]) @ {rn}([[B0, B1], B2])', block(Lc, [As[0], [As[1], As[2]]]), block(Rc, [[Bs[0], Bs[1]], Bs[2]]), None, As, Bs):
            return False
        if not evaluate(f'{ln}([A0, A1]) @ {rn}([B0, B1, B2])', block(Lc, As[:2]), block(Rc, Bs), None, As, Bs):
            return False
        if not evaluate(f"{ln}({{'x', 'y'}}) @ {rn}({{'x', 'z'}})", block(Lc, {'x': As[0], 'y': As[1]}), block(Rc, {'x': Bs[0], 'z': Bs[1]}), None, As, Bs):
            return False
    ck.expect(rule, not problems, fn, f'on {ncases} products of two block operators (nine class pairs, list, tuple and dict containers, misaligned containers) the driver multiplies the blocks '
              'pairwise exactly for row@diagonal, diagonal@column, diagonal@diagonal and row@column, into the class the block algebra gives, and leaves every other product alone',
              f'{problems[0] if problems else ""} ({len(problems)} of {ncases} products)', instance='block products by evaluation', semantic=True)
    ck.floor(rule, ncases, 39, 'block products evaluated')
    return True


def _application_shape(ck, table, row, diag, col) -> None:
    fn = diag.own.get('mv')
    t = _ret(fn) if isinstance(fn, ast.FunctionDef) else None
    ok = False
    if t is not None and isinstance(fn, ast.FunctionDef):
        S, x = ('var', fn.args.args[0].arg), ('var', fn.args.args[1].arg)
        if t[0] == 'call' and t[1] == ('attr', S, '_tree_map') and len(t[2]) == 2 and t[2][1] == x and t[2][0][0] == 'lambda' and len(t[2][0][1]) == 2:
            p1, p2 = t[2][0][1]
            ok = t[2][0][2] in (('apply', ('var', p1), ('var', p2)), ('call', ('var', p1), (('var', p2),), ()))
    ck.expect('B1', ok, fn or diag.node, 'block diagonal: block i is applied to input leaf i (blocks and input mapped together)',
              f'BlockDiagonalOperator.mv is {show(t)}: not the leaf-wise application of each block to the matching input leaf', instance='diagonal leaf-wise')
    fn = col.own.get('mv')
    t = _ret(fn) if isinstance(fn, ast.FunctionDef) else None
    ok = False
    if t is not None and isinstance(fn, ast.FunctionDef):
        S, x = ('var', fn.args.args[0].arg), ('var', fn.args.args[1].arg)
        if t[0] == 'call' and t[1] == ('attr', S, '_tree_map') and len(t[2]) == 1 and t[2][0][0] == 'lambda' and len(t[2][0][1]) == 1:
            p1 = t[2][0][1][0]
            ok = t[2][0][2] in (('apply', ('var', p1), x), ('call', ('var', p1), (x,), ()))
    ck.expect('B1', ok, fn or col.node, 'block column: every block is applied to the same input', f'BlockColumnOperator.mv is {show(t)}', instance='column same input')
    fn = row.own.get('mv')
    ok = False
    why = 'mv vanished'
    if isinstance(fn, ast.FunctionDef):
        S, x = ('var', fn.args.args[0].arg), ('var', fn.args.args[1].arg)
        src_terms = [term(n) for n in ast.walk(fn) if isinstance(n, ast.Call)]
        pairs = any(t[0] == 'call' and t[1] == ('attr', S, '_tree_map') and len(t[2]) == 2 and t[2][1] == x and t[2][0][0] == 'lambda' and len(t[2][0][1]) == 2
                    and (t[2][0][2] == ('tuple', ('var', t[2][0][1][0]), ('var', t[2][0][1][1])) or t[2][0][2] in (('call', ('var', t[2][0][1][0]), (('var', t[2][0][1][1]),), ()), ('apply', ('var', t[2][0][1][0]), ('var', t[2][0][1][1]))))
                    for t in src_terms)
        adds = any(t[0] == 'call' and t[1] == ('attr', ('attr', ('var', 'jax'), 'tree'), 'map') and t[2] and t[2][0] in (('attr', ('var', 'jnp'), 'add'), ('attr', ('var', 'operator'), 'add')) for t in src_terms)
        ok = pairs and adds
        why = f'blocks paired with input leaves={pairs}, results accumulated with add={adds}'
    ck.expect('B1', ok, fn or row.node, 'block row: each block is paired with its input leaf and the results are added',
              f'BlockRowOperator.mv: {why}', instance='row sum of block(leaf)')


def _validation(ck, world, table, cls, fn: ast.FunctionDef, tag: str) -> None:
    S = ('var', fn.args.args[0].arg)
    leaves = ('attr', S, 'block_leaves')
    found = False
    for p in function_paths(fn):
        if p.exit != 'raise' or exception_name(p.node) != 'ValueError':
            continue
        env = path_env(p)
        inv = env.get('invalid_structures')
        for name, val in env.items():
            if isinstance(val, tuple) and val and val[0] == 'comp' and len(val[2]) == 1:
                tgt, it, ifs = val[2][0]
                if it != ('sub', leaves, ('slice', ('const', '1'), ('none',), ('none',))) and it != leaves:
                    continue
                found = True
                ref = (tag, ('sub', leaves, ('const', '0')))
                cond = ifs[0] if ifs else None
                other = (tag, tgt)
                if cond is not None and cond[0] == 'cmp' and cond[1] == 'ne' and {cond[2], cond[3]} == {other, ref}:
                    ck.ok('B6', fn, f'every other block\'s {tag.lower()}_structure() is compared (!=) with the first block\'s; a mismatch raises ValueError', instance=cls.name)
                elif cond is not None and cond[0] == 'cmp' and cond[1] == 'ne':
                    ck.bad('B6', fn, f'{cls.name} validates {show(cond)}: a block row shares its *output* structure and a block column its *input* structure, compared with the first block', instance=cls.name)
                elif cond is not None:
                    helper_ok = _helper_compares_fully(world, table, fn, cond)
                    if helper_ok is True:
                        ck.ok('B6', fn, 'the shared structures are compared through a helper that compares the pytrees directly', instance=cls.name)
                    elif helper_ok is False:
                        ck.bad('B6', fn, f'{cls.name} validates the shared structure through `{show(cond)[:80]}`, which does not compare the full structures (pytree, leaf shapes and leaf dtypes): blocks whose shared structures differ in what is ignored are accepted', instance=cls.name)
                    else:
                        ck.incomplete('B6', fn, f'unrecognised structure comparison {show(cond)[:80]}', instance=cls.name)
                else:
                    ck.bad('B6', fn, f'{cls.name} raises without comparing the blocks\' shared structures', instance=cls.name)
    if not found:
        ck.bad('B6', fn, f'{cls.name}.__init__ has no path that refuses blocks with mismatching {"output" if tag == "OUT" else "input"} structures', instance=cls.name)


def _helper_compares_fully(world, table, fn, cond) -> bool | None:
    """A helper used instead of != must mention both shape and dtype (or compare the pytrees directly)."""
    from ..loader import module_of

    names = []

    def walk(t):
        if isinstance(t, tuple):
            if t and t[0] == 'call' and isinstance(t[1], tuple) and t[1][0] == 'var':
                names.append(t[1][1])
            for x in t:
                walk(x)

    walk(cond)
    for n in names:
        q = world.qualify(module_of(fn), n)
        target = world.lookup(q) if q else None
        if isinstance(target, ast.FunctionDef):
            src = ast.unparse(target)
            params = {a.arg for a in target.args.args}
            direct = any(isinstance(c, ast.Compare) and isinstance(c.ops[0], (ast.Eq, ast.NotEq)) and all(isinstance(x, ast.Name) and x.id in params for x in [c.left] + c.comparators) for c in ast.walk(target))
            if direct:
                return True
            src = ast.unparse(ast.Module(body=[st for st in target.body if not (isinstance(st, ast.Expr) and isinstance(st.value, ast.Constant))], type_ignores=[]))
            if 'dtype' in src and 'shape' in src:
                return None
            return False
    return None


def controls(world: World) -> list[Control]:
    return [
        Control('row-validates-input', lambda w: edit_def(w, BLOCKS, 'BlockRowOperator.__init__', lambda fn: replace_expr(fn, 'operator.out_structure()', 'operator.in_structure()')), 'C10.B6'),
        Control('column-untransposed', lambda w: edit_def(w, BLOCKS, 'BlockColumnOperator.transpose', lambda fn: replace_expr(fn, 'op.T', 'op')), 'C10.B3'),
        Control('diag-dense-vstack', lambda w: edit_def(w, BLOCKS, 'BlockColumnOperator.as_matrix', lambda fn: replace_expr(fn, 'jnp.vstack', 'jnp.hstack')), 'C10.B5'),
        Control('alignment-guard-dropped', lambda w: edit_def(w, BLOCKS, 'AbstractBlockDiagonalRule.apply', lambda fn: remove_stmt(fn, 'if jax.tree.structure(left.blocks, is_leaf=is_leaf) != jax.tree.structure(right.blocks, is_leaf=is_leaf):', prefix=True)), 'C10.B7'),
    ]

"""C17 - sky pixelisation maps coordinates to indices consistently (structural necessary conditions only)."""

from __future__ import annotations

import ast

from ..loader import AnalysisError, World, module_of
from ..mutate import edit_def, replace_expr, replace_stmt
from ..paths import Path, function_paths
from ..run import Control
from ..terms import contains, path_env, show, term
from ..terms import facts as path_facts

LEVEL = 'other'
LAND = 'furax.landscapes'
RULE_TEXT = (
    'the statements of pixel2index (def-use of index, stride and validity mask, first axis and loop body), the HEALPix lookup call, the '
    'composition world2index and the coverage accumulation are enumerated; an obligation is one (statement group, clause) item; '
    'non-trivial = discharged by a def-use / term derivation'
)
EXPLANATION = (
    'STRUCTURAL NECESSARY CONDITIONS ONLY. Decided: pixel2index returns where(valid, index, -1); valid conjoins, for the first axis and '
    'for every further axis, both 0 <= i and i < dim with the very dim that scales the stride; the index is accumulated with the current '
    'stride before the stride is multiplied, coordinates and pixel_shape are zipped from the same offset, the first axis uses stride 1 '
    'and seeds the stride with its own size; coordinates are rounded to the nearest integer before the cast; the index dtype is int32 '
    'unless the largest index exceeds its range; world2pixel calls ang2pix(nside, theta, phi) without nest/lonlat (ring ordering); '
    'world2index composes world2pixel then pixel2index; coverage adds the counts of the unique indices into len(self) zeros and reshapes '
    'to the map shape. NOT decided: rounding at half-integers, the bijection, agreement with healpy over the sphere, histogram totals.'
)


def _pixel2index_structural(ctx, ck) -> None:
    world, table = ctx.world, ctx.table
    sl = table.get(f'{LAND}.StokesLandscape')
    p2i = sl.own.get('pixel2index')
    if not isinstance(p2i, ast.FunctionDef):
        raise AnalysisError('anchor vanished: StokesLandscape.pixel2index')
    S = ('var', p2i.args.args[0].arg)
    coords = ('var', p2i.args.vararg.arg) if p2i.args.vararg else None
    loops = [n for n in p2i.body if isinstance(n, ast.For)]
    rets = [n for n in p2i.body if isinstance(n, ast.Return)]
    if len(loops) != 1 or len(rets) != 1 or coords is None:
        ck.incomplete('P1', p2i, 'pixel2index no longer has the shape "first axis; one loop over the other axes; return"')
        return
    loop = loops[0]
    ps = ('attr', S, 'pixel_shape')
    dim0 = ('sub', ps, ('const', '0'))
    # roles from the return statement: where(VALID, INDEX, -1)
    rt = term(rets[0].value)
    good_ret = rt[0] == 'call' and rt[1] == ('attr', ('var', 'jnp'), 'where') and len(rt[2]) == 3 and rt[2][0][0] == 'var' and rt[2][1][0] == 'var' and rt[2][2] in (('unop', 'neg', ('const', '1')), ('const', '-1'))
    ck.expect('P1', good_ret, rets[0], 'result = where(valid, index, -1)', f'pixel2index returns {show(rt)}', instance='result')
    if not good_ret:
        return
    V, I = rt[2][0][1], rt[2][1][1]
    pre = [st for st in p2i.body[: p2i.body.index(loop)] if isinstance(st, (ast.Assign, ast.AugAssign))]
    # the dtype variable is chosen in an if: keep it symbolic (any name passed to astype)
    env_sym: dict = {}
    for st in pre:
        env_sym = path_env(Path([('stmt', st)]), env_sym)

    def is_rounded(t, c):
        return t[0] == 'call' and t[1][0] == 'attr' and t[1][2] == 'astype' and t[1][1] == ('call', ('attr', ('var', 'jnp'), 'round'), (c,), ())

    idx0 = env_sym.get(I)
    ck.expect('P2', idx0 is not None and is_rounded(idx0, ('sub', coords, ('const', '0'))), p2i, 'the first coordinate is rounded to the nearest integer, cast, and enters with stride 1',
              f'the first axis index is {show(idx0)}', instance='first axis index')
    v0 = env_sym.get(V)
    want_v0 = {('binop', '&', ('cmp', 'le', ('const', '0'), idx0), ('cmp', 'lt', idx0, dim0)), ('binop', '&', ('cmp', 'lt', idx0, dim0), ('cmp', 'le', ('const', '0'), idx0)),
               ('binop', '&', ('cmp', 'ge', idx0, ('const', '0')), ('cmp', 'lt', idx0, dim0))}
    ck.expect('P1', v0 in want_v0 or _range_mask(v0, idx0, dim0), p2i, 'first axis: valid = (0 <= i) & (i < pixel_shape[0])',
              f'the validity mask of the first axis is {show(v0)}: it must reject both i < 0 and i >= pixel_shape[0]', instance='first axis mask')
    # loop header
    it = term(loop.iter)
    want_it = ('call', ('var', 'zip'), (('sub', coords, ('slice', ('const', '1'), ('none',), ('none',))), ('sub', ps, ('slice', ('const', '1'), ('none',), ('none',)))), ())
    names = [n.id for n in loop.target.elts] if isinstance(loop.target, ast.Tuple) and all(isinstance(n, ast.Name) for n in loop.target.elts) else []
    ck.expect('P2', it == want_it and len(names) == 2, loop, 'the remaining coordinates and pixel_shape are zipped from the same offset (1)',
              f'the loop iterates {show(it)}: coordinates and axis sizes are not aligned', instance='aligned zip')
    if len(names) != 2:
        return
    coord, dim = ('var', names[0]), ('var', names[1])
    # one iteration of the loop, symbolically: the value of every name after the body in terms of the values before it
    # (x += e and x = x + e are the same term; intermediate names and inlined helpers are substituted away)
    after = path_env(Path([('stmt', st) for st in loop.body if isinstance(st, (ast.Assign, ast.AugAssign, ast.AnnAssign))]))

    def masks(i):
        return {('binop', '&', ('cmp', 'le', ('const', '0'), i), ('cmp', 'lt', i, dim)), ('binop', '&', ('cmp', 'lt', i, dim), ('cmp', 'le', ('const', '0'), i)),
                ('binop', '&', ('cmp', 'ge', i, ('const', '0')), ('cmp', 'lt', i, dim)), ('binop', '&', ('cmp', 'gt', dim, i), ('cmp', 'le', ('const', '0'), i)),
                ('chain', ('le', 'lt'), ('const', '0'), i, dim)}

    def find_rounded(t):
        """Sub-terms of t of the form round(coord).astype(...)."""
        out = []
        if isinstance(t, tuple):
            if t and is_rounded(t, coord):
                out.append(t)
            for x in t:
                if isinstance(x, tuple):
                    out.extend(find_rounded(x))
        return out

    I1, V1 = after.get(I), after.get(V)
    ias = find_rounded(I1) if I1 is not None else []
    ia = ias[0] if ias else None
    ck.expect('P2', ia is not None, loop, 'each further coordinate is rounded to the nearest integer and cast', 'a coordinate is no longer rounded with jnp.round before the cast (truncation shifts pixel boundaries)', instance='loop rounding')
    if ia is None:
        return
    # index: I + ia * STR (either operand order)
    STR = None
    acc_ok = False
    if I1[0] == 'binop' and I1[1] == '+' and ('var', I) in (I1[2], I1[3]):
        prod = I1[3] if I1[2] == ('var', I) else I1[2]
        if prod[0] == 'binop' and prod[1] == '*' and ia in (prod[2], prod[3]):
            other = prod[3] if prod[2] == ia else prod[2]
            if other[0] == 'var':
                STR, acc_ok = other[1], True
            elif other[0] == 'binop' and other[1] == '*' and other[2][0] == 'var':
                STR = other[2][1]  # the stride was already multiplied when the index is accumulated
    ck.expect('P2', STR is not None and env_sym.get(STR) == dim0, p2i, 'the stride starts as the size of the first (fastest) axis', f'the initial stride is {show(env_sym.get(STR)) if STR else "?"}', instance='initial stride')
    mask_t = None
    if V1 is not None and V1[0] == 'binop' and V1[1] == '&' and ('var', V) in (V1[2], V1[3]):
        mask_t = V1[3] if V1[2] == ('var', V) else V1[2]
    ck.expect('P1', mask_t is not None and mask_t in masks(ia), loop, 'every further axis: valid &= (0 <= i) & (i < dim)',
              f'the validity mask of the loop is updated with {show(mask_t) if mask_t is not None else show(V1)}: a coordinate outside the map in this dimension would wrap into another row instead of yielding -1', instance='loop mask')
    ck.expect('P2', STR is not None and (acc_ok or I1 is not None), loop, 'index += i * stride', f'the index is accumulated as {show(I1)}', instance='index accumulation')
    S1 = after.get(STR) if STR else None
    ck.expect('P2', S1 in (('binop', '*', ('var', STR), dim), ('binop', '*', dim, ('var', STR))) if STR else False, loop, 'stride *= dim: the same dim that bounds this axis',
              f'the stride is updated to {show(S1)}: not the previous stride times the size of the axis that was just bounded', instance='stride update')
    ck.expect('P2', acc_ok, loop, 'the index is accumulated with the current stride before the stride is multiplied',
              'the stride is multiplied before the index of this axis is accumulated (row-major order broken)', instance='recurrence order')
    # P5 dtype: decided semantically.  On the paths that reach the first use of the dtype, the branch conditions must choose
    # int32 exactly when the largest index len(self) - 1 fits in int32 (the int32 maximum is a symbol M; the sizes around
    # the boundary are enumerated)
    from ..terms import NotEvaluable, eval_term
    from ..terms import subst as _subst2

    dtype_name = None
    for t0 in (idx0,):
        if t0 is not None and t0[0] == 'call' and t0[1][0] == 'attr' and t0[1][2] == 'astype' and t0[2] and t0[2][0][0] == 'var':
            dtype_name = t0[2][0][1]
    ok = False
    why5 = 'the dtype passed to astype is not a name chosen beforehand'
    if dtype_name is not None:
        choices = []
        for pth in function_paths(p2i):
            e5 = path_env(pth)
            if dtype_name not in e5:
                continue
            conds = [(term(ex, path_env(pth, upto=None)), pol) for ex, pol in pth.conds()]
            choices.append((e5[dtype_name], [(term(ex, e5), pol) for ex, pol in pth.conds()]))
        N = ('call', ('var', 'len'), (S,), ())
        M = ('var', '$int32max')

        def symbolic(t):
            # any `np.iinfo(<...int32...>).max` is the symbol M
            if isinstance(t, tuple) and t and t[0] == 'attr' and t[2] == 'max' and 'iinfo' in show(t[1]) and 'int32' in show(t[1]):
                return M
            if isinstance(t, tuple):
                return tuple(symbolic(x) if isinstance(x, tuple) else x for x in t)
            return t

        bad = None
        seen32 = seen64 = False
        for n in range(6, 16):
            picked = set()
            for val, conds in choices:
                try:
                    if all(bool(eval_term(symbolic(c), {N: n, M: 10})) == pol for c, pol in conds if contains(c, N) or contains(symbolic(c), M)):
                        picked.add(show(val).split('.')[-1])
                except NotEvaluable as exc:
                    bad = f'condition not evaluable: {exc}'
            want = 'int32' if n - 1 <= 10 else 'int64'
            seen32 |= want == 'int32'
            seen64 |= want == 'int64'
            if bad is None and picked != {want}:
                bad = f'for a map of {n} pixels with an int32 maximum of 10 the index dtype is {sorted(picked)}, expected {want}'
        ok = bad is None and bool(choices)
        why5 = bad or ''
    ck.expect('P5', ok, p2i, 'int32 indices unless the largest index exceeds the int32 range, then int64 (sizes around the boundary enumerated)',
              f'the index dtype is no longer chosen from the size of the map: {why5}', instance='index dtype')



def _sym_walk(x):
    yield x
    for a in getattr(x, 'args', ()) or ():
        if hasattr(a, 'op') or hasattr(a, 'name'):
            yield from _sym_walk(a)


def _flat_index(ctx, ck, sl) -> bool:
    """P7: pixel2index, however it is written, computes sum_k round(c_k) * prod_{j<k} n_j under the mask
    AND_k (0 <= round(c_k) < n_k): it is evaluated symbolically (sa/axinterp.py) on maps of rank 1-3 with distinct prime
    sizes and opaque coordinates; the index must be that linear form in the rounded coordinates, the mask exactly those 2k
    atoms on the rounded coordinates themselves (a mask on a partial flat index is computed in fixed width and can wrap), the
    result where(mask, index, -1).  Returns True when decided."""
    from ..axinterp import Interp, Obj, Opaque, Raised, Ref, Sym, Undecided, UNK

    world, table = ctx.world, ctx.table
    r = table.resolve(sl, 'pixel2index')
    if r is None or not isinstance(r.node, ast.FunctionDef):
        raise AnalysisError('anchor vanished: StokesLandscape.pixel2index')
    fn = r.node
    problems: list[str] = []
    undecided: list[str] = []

    def strip(x):
        # casts and conversions of an integer-valued array do not change its value
        while isinstance(x, Sym):
            if x.op == 'call' and isinstance(x.args[0], Sym) and x.args[0].op == '.astype':
                x = x.args[0].args[0]
            elif x.op in ('jnp.asarray', 'jnp.array', 'jnp.int32', 'jnp.int64') and x.args:
                x = x.args[0]
            else:
                break
        return x

    def rounded(x):
        x = strip(x)
        if isinstance(x, Sym) and x.op in ('jnp.round', 'jnp.around') and len(x.args) == 1 and isinstance(strip(x.args[0]), Opaque):
            return strip(x.args[0]).name
        if isinstance(x, Sym) and x.op in ('jnp.rint', 'jnp.floor', 'jnp.ceil', 'jnp.trunc', 'jnp.fix') and len(x.args) == 1 and isinstance(strip(x.args[0]), Opaque):
            # rint converts integer coordinates to the default float type first (pixels above 2**24 are moved); floor / ceil /
            # trunc shift the pixel boundaries by half a pixel
            problems.append(f'a coordinate goes through {x.op} instead of jnp.round (integer coordinates are converted to floating point first, or the pixel boundaries move by half a pixel)')
            return strip(x.args[0]).name
        return None

    def linear(x):
        """{coordinate name or 1: integer coefficient} or None."""
        x = strip(x)
        if isinstance(x, int) and not isinstance(x, bool):
            return {1: x} if x else {}
        if type(x).__name__ == 'AxArr' and not any(l for l, _ in x.axes):
            return {}  # jnp.zeros(...): the starting value of an accumulation
        name = rounded(x)
        if name is not None:
            return {name: 1}
        if isinstance(x, Sym) and x.op in ('+', '-') and len(x.args) == 2:
            a, b = linear(x.args[0]), linear(x.args[1])
            if a is None or b is None:
                return None
            out = dict(a)
            for k_, v_ in b.items():
                out[k_] = out.get(k_, 0) + (v_ if x.op == '+' else -v_)
            return {k_: v_ for k_, v_ in out.items() if v_}
        if isinstance(x, Sym) and x.op == '*' and len(x.args) == 2:
            a, b = linear(x.args[0]), linear(x.args[1])
            if a is None or b is None:
                return None
            for u, v in ((a, b), (b, a)):
                if set(u) <= {1}:
                    c = u.get(1, 0)
                    return {k_: v_ * c for k_, v_ in v.items() if v_ * c}
            return None
        return None

    def atoms(x, out):
        x = strip(x)
        if isinstance(x, Sym) and x.op == '&' and len(x.args) == 2:
            return atoms(x.args[0], out) and atoms(x.args[1], out)
        if isinstance(x, Sym) and x.op in ('jnp.logical_and',) and len(x.args) == 2:
            return atoms(x.args[0], out) and atoms(x.args[1], out)
        if x is True:
            return True
        if isinstance(x, Sym) and x.op in ('jnp.array', 'jnp.asarray', 'jnp.ones') and x.args and x.args[0] is True:
            return True
        if isinstance(x, Sym) and x.op in ('<', '<=', '>', '>=') and len(x.args) == 2:
            a, b = x.args
            op = x.op
            if op in ('>', '>='):
                a, b, op = b, a, '<' if op == '>' else '<='
            la, lb = linear(a), linear(b)
            if la is None or lb is None:
                return False
            out.add((op, tuple(sorted(la.items(), key=str)), tuple(sorted(lb.items(), key=str))))
            return True
        return False

    casts: list = []  # (coordinate dtype, map shape, index dtype the rounded coordinate is converted to, or None)

    for shape, cdtype in (((7,), 'float32'), ((5, 7), 'float32'), ((3, 5, 7), 'float32'), ((5, 7), 'int16'), ((5, 7), 'int32'), ((2**31 + 5,), 'float64'), ((2**31 - 1,), 'float64'), ((70000, 70000), 'int32')):
        pixel_shape = shape[::-1]
        m = len(shape)
        it = Interp(world, table, budget=100_000)
        it.symbolic = True
        me = Obj(sl, {'shape': shape, 'pixel_shape': pixel_shape, 'stokes': 'IQU', 'dtype': Ref('numpy.float64')})
        coords = [Opaque(f'c{k}', cdtype) for k in range(m)]
        try:
            res = it.call_method(me, 'pixel2index', *coords)
        except Raised as exc:
            problems.append(f'pixel2index raises {exc.name} for a map of shape {shape} and {m} coordinates')
            continue
        except Undecided as exc:
            undecided.append(f'shape {shape}: {exc}')
            continue
        res = strip(res)
        if res is UNK or not isinstance(res, Sym):
            undecided.append(f'shape {shape}: the result cannot be followed ({it.degraded[:1]})')
            continue
        if not (res.op == 'jnp.where' and len(res.args) == 3):
            undecided.append(f'shape {shape}: the result is {res!r:.120}, not where(mask, index, -1)')
            continue
        mask, index, other = res.args
        for node_ in _sym_walk(index):
            if isinstance(node_, Sym) and node_.op in ('jnp.round', 'jnp.around', 'jnp.rint') and node_.args and isinstance(node_.args[0], Opaque):
                casts.append((cdtype, shape, None, node_.args[0].name))
            if isinstance(node_, Sym) and node_.op == 'call' and isinstance(node_.args[0], Sym) and node_.args[0].op == '.astype' and len(node_.args) >= 2:
                inner = node_.args[0].args[0]
                if isinstance(inner, Sym) and inner.op in ('jnp.round', 'jnp.around', 'jnp.rint') and inner.args and isinstance(inner.args[0], Opaque):
                    t_ = node_.args[1]
                    casts.append((cdtype, shape, t_.path.split('.')[-1] if isinstance(t_, Ref) else str(t_), inner.args[0].name))
        if other != -1:
            problems.append(f'the value for pixels outside the map is {other!r}, not -1')
        lin = linear(index)
        want = {}
        stride = 1
        for k in range(m):
            want[f'c{k}'] = stride
            stride *= pixel_shape[k]
        if lin is None:
            undecided.append(f'shape {shape}: the index {index!r:.160} is not a linear form in the rounded coordinates')
            continue
        if lin != want:
            problems.append(f'for a map of shape {shape} the flat index is {" + ".join(f"{v}*round({k})" for k, v in sorted(lin.items(), key=str))}, expected '
                            f'{" + ".join(f"{v}*round({k})" for k, v in sorted(want.items()))} (first coordinate fastest, strides the products of the preceding pixel_shape entries)')
        got_atoms: set = set()
        if not atoms(mask, got_atoms):
            undecided.append(f'shape {shape}: the mask {mask!r:.160} is not a conjunction of bounds on linear forms')
            continue
        want_atoms = set()
        for k in range(m):
            want_atoms.add(('<=', (), ((f'c{k}', 1),)))
            want_atoms.add(('<', ((f'c{k}', 1),), ((1, pixel_shape[k]),)))
        # equivalent spellings of the lower bound: -1 < i
        norm = set()
        for op, a, b in got_atoms:
            if op == '<' and a == ((1, -1),):
                op, a = '<=', ()
            if op == '<=' and a == ((1, 0),):
                a = ()
            norm.add((op, a, b))
        if norm != want_atoms:
            missing = want_atoms - norm
            extra = norm - want_atoms
            problems.append(f'for a map of shape {shape} the validity mask ' + (f'lacks {sorted(missing, key=str)[:2]}' if missing else '') + (' and ' if missing and extra else '')
                            + (f'tests {sorted(extra, key=str)[:2]} instead of the bounds of each rounded coordinate (a bound on a partial flat index is evaluated in fixed width and can wrap around)' if extra else ''))
    if not undecided:
        # every rounded coordinate is converted to the index dtype before it enters the arithmetic: int32, or int64 when the
        # largest index does not fit (whatever the dtype of the coordinates)
        import math

        by_case: dict = {}
        for cdtype, shape, to, name in casts:
            by_case.setdefault((cdtype, shape, name), set()).add(to)
        for (cdtype, shape, name), tos in sorted(by_case.items(), key=str):
            want_dt = 'int32' if math.prod(shape) - 1 <= 2**31 - 1 else 'int64'
            converted = tos - {None}
            if not converted:
                problems.append(f'with {cdtype} coordinates on a map of shape {shape} the rounded coordinate {name} enters the index arithmetic in its own data type (it is never converted to the index type {want_dt}): '
                                'the index wraps around as soon as it exceeds the range of the coordinate type')
            elif converted != {want_dt}:
                problems.append(f'on a map of shape {shape} ({math.prod(shape)} pixels) the coordinates are converted to {sorted(converted)} instead of {want_dt}')
    if undecided:
        ck.incomplete('P7', fn, f'pixel2index could not be evaluated symbolically: {undecided[0]}', instance='flat index formula')
        return False
    ck.expect('P7', not problems, fn, 'for maps of rank 1-3: index = sum_k round(c_k) * prod_{j<k} pixel_shape[j], mask = AND_k (0 <= round(c_k) < pixel_shape[k]), result where(mask, index, -1)',
              f'pixel2index: {problems[0] if problems else ""}', instance='flat index formula')
    return True


def run(ctx, ck) -> None:
    world, table = ctx.world, ctx.table
    sl = table.get(f'{LAND}.StokesLandscape')
    decided = _flat_index(ctx, ck, sl)
    before = len(ck.obs)
    _pixel2index_structural(ctx, ck)
    if decided:
        # the structural clauses on the way pixel2index is written (P1 masks, P2 recurrence) describe one form of it; where
        # they cannot follow the code, or disagree with the symbolic evaluation above, P7 stands
        kept = []
        for i, o in enumerate(ck.obs):
            if i >= before and o.rule.endswith(('P1', 'P2', 'P5')) and o.status != 'ok':
                ck.note(f'{o.rule} [{o.construct}] not decided structurally ({o.status}: {o.how[:100]}); superseded by P7')
                continue
            kept.append(o)
        ck.obs[:] = kept
    _rest(ctx, ck)


def _rest(ctx, ck) -> None:
    world, table = ctx.world, ctx.table
    sl = table.get(f'{LAND}.StokesLandscape')
    # ------------------------------------------------------------------ P3
    hp = table.get(f'{LAND}.HealpixLandscape')
    w2p = hp.own.get('world2pixel')
    t = None
    if isinstance(w2p, ast.FunctionDef):
        rets2 = [p for p in function_paths(w2p) if p.exit == 'return']
        t = term(rets2[0].node.value, path_env(rets2[0])) if len(rets2) == 1 else None
        H = ('var', w2p.args.args[0].arg)
        th, ph = ('var', w2p.args.args[1].arg), ('var', w2p.args.args[2].arg)
        want = ('tuple', ('call', ('attr', ('var', 'jhp'), 'ang2pix'), (('attr', H, 'nside'), th, ph), ()))
        # keywords that restate the defaults of ang2pix (ring ordering, colatitude / longitude in radians) change nothing
        defaults = {'nest': ('const', 'False'), 'lonlat': ('const', 'False')}
        if t is not None and t[0] == 'tuple' and len(t) == 2 and t[1][0] == 'call' and all(k in defaults and v == defaults[k] for k, v in t[1][3]):
            t = ('tuple', (t[1][0], t[1][1], t[1][2], ()))
        ok = t == want
    else:
        ok = False
    ck.expect('P3', ok, w2p or hp.node, 'world2pixel = (jax_healpy.ang2pix(nside, theta, phi),) - no nest / lonlat: ring ordering, colatitude-longitude in radians',
              f'world2pixel returns {show(t)}: not ang2pix(self.nside, theta, phi) in ring ordering', instance='ring lookup')
    w2i = sl.own.get('world2index')
    ok = False
    t = None
    if isinstance(w2i, ast.FunctionDef):
        rets3 = [p for p in function_paths(w2i) if p.exit == 'return']
        if len(rets3) == 1:
            t = term(rets3[0].node.value, path_env(rets3[0]))
            W = ('var', w2i.args.args[0].arg)
            th, ph = ('var', w2i.args.args[1].arg), ('var', w2i.args.args[2].arg)
            ok = t == ('call', ('attr', W, 'pixel2index'), (('star', ('call', ('attr', W, 'world2pixel'), (th, ph), ())),), ())
    ck.expect('P3', ok, w2i or sl.node, 'world2index = pixel2index(*world2pixel(theta, phi))', f'world2index returns {show(t)}', instance='composition')

    # ------------------------------------------------------------------ P6 shape / pixel_shape / size bookkeeping
    base_l = table.get(f'{LAND}.Landscape')
    ln = base_l.own.get('__len__')
    t = term(ln.body[-1].value) if isinstance(ln, ast.FunctionDef) and isinstance(ln.body[-1], ast.Return) else None
    ck.expect('P6', isinstance(ln, ast.FunctionDef) and t == ('call', ('attr', ('var', 'math'), 'prod'), (('attr', ('var', ln.args.args[0].arg), 'shape'),), ()), ln or base_l.node,
              'len(landscape) = prod(shape): the number of pixels', f'Landscape.__len__ returns {show(t)}', instance='pixel count')
    init = sl.own.get('__init__')
    ok6 = False
    why6 = 'constructor vanished'
    if isinstance(init, ast.FunctionDef):
        I0 = ('var', init.args.args[0].arg)
        stores = {}
        env6: dict = {}
        for st in init.body:
            if isinstance(st, ast.Assign):
                tgt = st.targets[0]
                if isinstance(tgt, ast.Attribute) and isinstance(tgt.value, ast.Name) and tgt.value.id == init.args.args[0].arg:
                    stores[tgt.attr] = term(st.value, env6)
                else:
                    env6 = path_env(Path([('stmt', st)]), env6)
        rev = lambda x: ('sub', x, ('slice', ('none',), ('none',), ('unop', 'neg', ('const', '1'))))  # noqa: E731
        shape_t = ('ifexp', ('cmp', 'is', ('var', 'pixel_shape'), ('const', 'None')), ('var', 'shape'), rev(('var', 'pixel_shape')))
        sup = [term(n) for n in ast.walk(init) if isinstance(n, ast.Call) and 'super().__init__' in ast.unparse(n.func)]
        ok6 = stores.get('pixel_shape') == rev(shape_t) and any(c[2] and c[2][0] == ('var', 'shape') for c in sup) and env6.get('shape') == shape_t
        why6 = f'pixel_shape = {show(stores.get("pixel_shape"))}, shape = {show(env6.get("shape"))}'
    ck.expect('P6', ok6, init or sl.node, 'shape is the given shape (or the reversed pixel_shape) and pixel_shape is shape reversed: the first pixel coordinate indexes the last (fastest) array axis',
              f'the shape / pixel_shape bookkeeping changed: {why6}', instance='pixel_shape = shape[::-1]')
    hinit = hp.own.get('__init__')
    ok7 = False
    if isinstance(hinit, ast.FunctionDef):
        e7 = path_env(Path([('stmt', st) for st in hinit.body if isinstance(st, ast.Assign) and isinstance(st.targets[0], ast.Name)]))
        nside = ('var', hinit.args.args[1].arg)
        sup7 = [term(n, e7) for n in ast.walk(hinit) if isinstance(n, ast.Call) and 'super().__init__' in ast.unparse(n.func)]
        ok7 = any(c[2] and c[2][0] == ('tuple', ('binop', '*', ('const', '12'), ('binop', '**', nside, ('const', '2')))) for c in sup7)
    ck.expect('P6', ok7, hinit or hp.node, 'a HEALPix map has 12 * nside**2 pixels', 'the HEALPix map shape is no longer (12 * nside**2,)', instance='healpix pixel count')

    # ------------------------------------------------------------------ P4
    cov = sl.own.get('get_coverage')
    if not isinstance(cov, ast.FunctionDef):
        ck.bad('P4', sl.node, 'get_coverage vanished', instance='hit histogram')
    else:
        from ..paths import paths_at_defaults

        C = ('var', cov.args.args[0].arg)
        arg = ('var', cov.args.args[1].arg)
        rets4 = [p for p in paths_at_defaults(cov, 2) if p.exit == 'return']
        verdicts = []
        for p in rets4:
            t = term(p.node.value, path_env(p)) if p.node.value is not None else ('const', 'None')
            verdicts.append(_coverage_form(t, C, arg, [show(f_) for f_ in path_facts(p)]))
        bad = [w for v, w in verdicts if v == 'bad']
        unknown = [w for v, w in verdicts if v == 'unknown']
        main = [w for v, w in verdicts if v == 'ok']
        if bad:
            ck.bad('P4', cov, f'get_coverage: {bad[0]}: the hit histogram is not the add-accumulation of the per-index integer counts over the whole map', instance='hit histogram', semantic=True)
        elif unknown or not main:
            ck.incomplete('P4', cov, f'get_coverage returns a form the histogram schema does not cover: {(unknown or ["no return"])[0]}', instance='hit histogram')
        else:
            ck.ok('P4', cov, 'coverage = zeros(len(self), integer).at[unique indices].add(counts).reshape(shape), indices from world2index(theta, phi)', instance='hit histogram')


def _coverage_form(t, C, arg, facts: list[str]) -> tuple[str, str]:
    """Clause by clause: reshape(shape) of zeros(len(self), integer dtype).at[unique(idx)[0]].add(unique(idx)[1])."""
    text = show(t)[:200]
    # an explicitly empty sampling: all-zero integer map
    if t[0] == 'call' and show(t[1]) == 'jnp.zeros' and t[2] and t[2][0] == ('attr', C, 'shape') and any('size' in f and '0' in f for f in facts):
        dt = dict(t[3]).get('dtype', t[2][1] if len(t[2]) > 1 else None)
        if dt is not None and 'int' in show(dt):
            return 'empty', 'zeros for an empty sampling'
        return 'bad', f'the coverage of an empty sampling is {text}, not an integer map'
    if not (t[0] == 'call' and t[1][0] == 'attr' and t[1][2] == 'reshape' and t[2] == (('attr', C, 'shape'),)):
        return 'unknown', text
    acc = t[1][1]
    if not (acc[0] == 'call' and acc[1][0] == 'attr' and acc[1][1][0] == 'sub' and acc[1][1][1][0] == 'attr' and acc[1][1][1][2] == 'at'):
        return 'unknown', text
    method = acc[1][2]
    if method != 'add':
        return 'bad', f'the counts are written with .at[].{method}(...) instead of being added'
    buf, where = acc[1][1][1][1], acc[1][1][2]
    if not (buf[0] == 'call' and show(buf[1]) in ('jnp.zeros', 'np.zeros') and buf[2]):
        return 'unknown', text
    if buf[2][0] not in (('call', ('var', 'len'), (C,), ()), ('attr', C, 'size')) and show(buf[2][0]) not in (f'len({C[1]})', f'{C[1]}.size'):
        return 'unknown', text
    dt = dict(buf[3]).get('dtype', buf[2][1] if len(buf[2]) > 1 else None)
    if dt is None or dt == ('const', 'None') or 'int' not in show(dt):
        return 'bad', f'the histogram buffer {show(buf)} is not an integer array: counts above 2**24 are rounded in single precision'
    if not (where[0] == 'item' and where[2] == 0 and where[1][0] == 'call' and show(where[1][1]) in ('jnp.unique', 'np.unique')):
        return 'unknown', text
    uniq = where[1]
    if dict(uniq[3]).get('return_counts') != ('const', 'True'):
        return 'bad', 'jnp.unique is called without return_counts=True'
    static_size = dict(uniq[3]).get('size')
    if static_size is not None and static_size != buf[2][0]:
        # a static output size truncates the distinct pixels beyond it silently; only the number of pixels of the map is
        # known to be enough for every sampling
        return 'unknown', f'jnp.unique(..., size={show(static_size)}): whether that many entries hold all the distinct hit pixels of every sampling is not decided'
    if not (acc[2] and acc[2][0] == ('item', uniq, 1)):
        return 'bad', f'what is added is {show(acc[2][0]) if acc[2] else "nothing"}, not the counts of the unique indices'
    idx = ('call', ('attr', C, 'world2index'), (('attr', arg, 'theta'), ('attr', arg, 'phi')), ())
    src = uniq[2][0] if uniq[2] else None
    wrapped = src is not None and src[0] == 'call' and show(src[1]) == 'jnp.where' and len(src[2]) == 3 and src[2][2] == idx
    if src != idx and not wrapped:
        return 'unknown', text
    return 'ok', text


def _range_mask(t, i, dim) -> bool:
    """(0 <= i) & (i < dim) written as a chained comparison or with logical_and."""
    if t is None:
        return False
    return t in (('chain', ('le', 'lt'), ('const', '0'), i, dim),) or t == ('call', ('attr', ('var', 'jnp'), 'logical_and'), (('cmp', 'le', ('const', '0'), i), ('cmp', 'lt', i, dim)), ())


def controls(world: World) -> list[Control]:
    return [
        Control('lower-bound-dropped', lambda w: edit_def(w, LAND, 'StokesLandscape.pixel2index', lambda fn: replace_stmt(fn, 'valid &= (0 <= indices_axis) & (indices_axis < dim)', 'valid &= indices_axis < dim')), 'C17.P7'),
        Control('stride-before-accumulate', lambda w: edit_def(w, LAND, 'StokesLandscape.pixel2index', _swap_recurrence), 'C17.P7'),
        Control('nested-ordering', lambda w: edit_def(w, LAND, 'HealpixLandscape.world2pixel', lambda fn: replace_expr(fn, 'jhp.ang2pix(self.nside, theta, phi)', 'jhp.ang2pix(self.nside, theta, phi, nest=True)')), 'C17.P3'),
        Control('coverage-set', lambda w: edit_def(w, LAND, 'StokesLandscape.get_coverage', lambda fn: replace_expr(fn, 'coverage.at[unique_indices].add(counts, indices_are_sorted=True, unique_indices=True)', 'coverage.at[unique_indices].set(counts, indices_are_sorted=True, unique_indices=True)')), 'C17.P4'),
    ]


def _swap_recurrence(fn: ast.AST) -> None:
    for n in ast.walk(fn):
        if isinstance(n, ast.For):
            body = n.body
            i = next(k for k, st in enumerate(body) if isinstance(st, ast.AugAssign) and ast.unparse(st.target) == 'indices')
            j = next(k for k, st in enumerate(body) if isinstance(st, ast.AugAssign) and ast.unparse(st.target) == 'stride')
            body[i], body[j] = body[j], body[i]
            return
    raise AnalysisError('variant anchor missing: pixel2index loop')

"""C16 - the acquisition operator equals the explicit pointing model."""

from __future__ import annotations

import ast
from fractions import Fraction

from ..classes import RULES
from ..initflow import InitFlow
from ..kinds import Lin
from ..linform import Incomplete as _I  # noqa: F401
from ..linform import InterpRaise, LossyCoefficient, NonLinear, Opaque, SymObj
from ..loader import AnalysisError, Incomplete, World, enclosing, module_of, site
from ..mutate import edit_def, replace_expr, replace_stmt
from ..opkinds import all_mv
from ..paths import Path, function_paths
from ..poly import Matrix, Poly, poly_cos, poly_sin
from ..run import Control
from ..terms import path_env, show, term
from .c15 import Polarimetry, angle, oracle_hwp, oracle_polarizer, oracle_rotation

LEVEL = 'other'
PROJ = 'furax.projections'
SAT = 'furax.instruments.sat'
RULE_TEXT = (
    'the two builders are evaluated to operator chains and structure terms (every @ is one obligation per path), the acquisition row is '
    'derived symbolically per Stokes kind, the Euler literal is compared entry by entry with Rz Ry Rz, the angle formulas and the '
    'normalisation are matched as terms; non-trivial = discharged by a symbolic identity, a structure-term equality or a term derivation'
)
EXPLANATION = (
    'Static decision of the structure of the pointing model: the projection is R(pa) . Index(world2index(vec2dir(rot . dirs))) . Ravel on '
    'the landscape structure and the acquisition is reduce(P . H . projection); index and ravel act component-wise (Select / Perm kinds), '
    'so the Stokes action is the Mueller product, and P H R(psi) = (1, cos 2psi, -sin 2psi, 0)/2 restricted to the kind is proved for all '
    'angles from the mv source of this tree; the 3x3 literal of get_rotation_matrix equals Rz(phi) Ry(theta) Rz(pa) and the einsum '
    'contracts its column index with the coordinate index of the directions; theta = arccos(z/r), phi = atan2(y, x), directions are '
    'normalised by the same norm; every @ of the builders joins structure terms (Stokes kind, shape term, dtype term) that are provably '
    'equal on every path. NOT decided: the pixel lookup (jax_healpy), the hit-count values, the random sampling generator.'
)


class _Misaligned(Exception):
    pass


def _index_layout(t, land, samp, dirs, fs):
    """Follows *where every element goes* through the expression of the sampled indices: an array is a list of axes, an axis the
    row-major list of the atomic factors it merges (coord, det, dir of `detector_dirs.coords`; row, col, smp of the rotation
    matrices).  Returns the list of axes, or None when some step is not followed exactly (never a guess); raises _Misaligned
    when a reshape cuts a merged axis at a place that is not a factor boundary for generic sizes (definite scrambling)."""
    coords = ('attr', dirs, 'coords')
    rot_m = ('call', ('var', 'get_rotation_matrix'), (samp,), ())
    REST = 'REST'

    def const_int(x):
        if x[0] == 'const' and x[1].lstrip('-').isdigit():
            return int(x[1])
        if x[0] == 'unop' and x[1] == 'neg' and x[2][0] == 'const' and x[2][1].isdigit():
            return -int(x[2][1])
        return None

    def dim(x):
        """factors of a size term: list of names, [ANY3] for the literal 3, REST for -1, None when unknown"""
        c = const_int(x)
        if c == -1:
            return REST
        if c == 1:
            return []
        if c == 3:
            return ['ANY3']
        if c is not None:
            return None
        if x[0] == 'binop' and x[1] == '*':
            a, b = dim(x[2]), dim(x[3])
            if a is None or b is None or a == REST or b == REST:
                return None
            return a + b
        if x[0] == 'sub' and x[1][0] == 'attr' and x[1][2] == 'shape' and const_int(x[2]) is not None:
            L = lay(x[1][1])
            i = const_int(x[2])
            return list(L[i]) if L is not None and -len(L) <= i < len(L) else None
        if x[0] == 'item' and x[1][0] == 'sub' and x[1][1][0] == 'attr' and x[1][1][2] == 'shape' and x[1][2][0] == 'slice' and x[1][2][2] == ('none',) and x[1][2][3] == ('none',):
            a = const_int(x[1][2][1]) if x[1][2][1] != ('none',) else 0
            L = lay(x[1][1][1])
            if a is None or L is None:
                return None
            if a < 0:
                a += len(L)
            i = a + x[2]
            return list(L[i]) if isinstance(x[2], int) and 0 <= i < len(L) else None
        return None

    def take(seq, want, from_left):
        n = len(want)
        if len(seq) < n:
            return None
        got = seq[:n] if from_left else seq[len(seq) - n:]
        rest = seq[n:] if from_left else seq[:len(seq) - n]
        if want == ['ANY3']:
            return (got, rest) if got[0] in ('coord', 'row', 'col') else None
        if 'ANY3' in want:
            return None
        if sorted(got) == sorted(want):
            return got, rest
        raise _Misaligned(f'a reshape gives an axis the size of {"*".join(want)} where the elements are laid out by {"*".join(got)}')

    def reshape(L, dims):
        seq = [f for ax in L for f in ax if f not in unit]
        ds = [dim(d) for d in dims]
        if any(d is None for d in ds) or sum(d == REST for d in ds) > 1:
            return None
        # a factor known to be of size one on this path (`ndir == 1`) does not constrain where a reshape cuts
        ds = [d if d == REST else [f for f in d if f not in unit] for d in ds]
        out_l, out_r = [], []
        k = ds.index(REST) if REST in ds else len(ds)
        for d in ds[:k]:
            r = take(seq, d, True)
            if r is None:
                return None
            out_l.append(r[0])
            seq = r[1]
        for d in reversed(ds[k + 1:]):
            r = take(seq, d, False)
            if r is None:
                return None
            out_r.insert(0, r[0])
            seq = r[1]
        if REST in ds:
            return out_l + [seq] + out_r
        return out_l if not seq else None

    memo: dict = {}

    def lay(x):
        if x in memo:
            return memo[x]
        memo[x] = r = lay_(x)
        return r

    def lay_(x):
        if x == coords:
            return [['coord'], ['det'], ['dir']]
        if x == rot_m:
            return [['row'], ['col'], ['smp']]
        if x[0] == 'T' and len(x) == 2 or (x[0] == 'attr' and x[2] == 'T'):
            L = lay(x[1])
            return list(reversed(L)) if L is not None else None
        if x[0] == 'call' and x[1][0] == 'attr' and x[1][2] == 'reshape' and x[1][1] not in (('var', 'jnp'), ('var', 'np')) and not x[3]:
            L = lay(x[1][1])
            dims = x[2][0][1:] if len(x[2]) == 1 and x[2][0][0] == 'tuple' else x[2]
            return reshape(L, dims) if L is not None else None
        if x[0] == 'call' and x[1][0] == 'attr' and x[1][2] in ('transpose', 'swapaxes') and x[1][1] not in (('var', 'jnp'), ('var', 'np')) and not x[3]:
            L = lay(x[1][1])
            ints = [const_int(a) for a in (x[2][0][1:] if len(x[2]) == 1 and x[2][0][0] == 'tuple' else x[2])]
            if L is None or any(i is None or not -len(L) <= i < len(L) for i in ints):
                return None
            if x[1][2] == 'swapaxes':
                if len(ints) != 2:
                    return None
                L = list(L)
                L[ints[0]], L[ints[1]] = L[ints[1]], L[ints[0]]
                return L
            if not ints:
                return list(reversed(L))
            return [L[i] for i in ints] if sorted(i % len(L) for i in ints) == list(range(len(L))) else None
        if x[0] == 'call' and x[1] == ('attr', ('var', 'jnp'), 'einsum') and len(x[2]) == 3 and x[2][0][0] == 'const' and not x[3]:
            try:
                subs = eval(x[2][0][1]).replace(' ', '')
            except Exception:  # noqa: BLE001
                return None
            A, B = lay(x[2][1]), lay(x[2][2])
            if A is None or B is None or '->' not in subs or subs.count(',') != 1 or '.' in subs:
                return None
            ins, out = subs.split('->')
            a, b = ins.split(',')
            if len(a) != len(A) or len(b) != len(B) or len(set(a)) != len(a) or len(set(b)) != len(b) or len(set(out)) != len(out):
                return None
            ax = dict(zip(a, A))
            bx = dict(zip(b, B))
            shared = set(a) & set(b)
            # exactly the matrix column against the coordinate axis is summed; everything else is kept once
            if len(shared) != 1 or set(out) != (set(a) | set(b)) - shared:
                return None
            j = next(iter(shared))
            if {tuple(ax[j]), tuple(bx[j])} != {('col',), ('coord',)}:
                if {tuple(ax[j]), tuple(bx[j])} == {('row',), ('coord',)}:
                    raise _Misaligned('the contraction sums the matrix ROW index against the coordinate axis (the transposed rotation is applied)')
                return None
            return [ax.get(c) or bx.get(c) for c in out]
        if x[0] == 'call' and x[1] == ('attr', land, 'world2index') and len(x[2]) == 2 and not x[3]:
            p_, q_ = x[2]
            if not (p_[0] == 'item' and q_[0] == 'item' and p_[1] == q_[1] and p_[2] == 0 and q_[2] == 1):
                return None
            ang = p_[1]
            if not (ang[0] == 'call' and ang[1] == ('var', 'vec2dir') and len(ang[2]) == 1 and ang[2][0][0] == 'star' and not ang[3]):
                return None
            L = lay(ang[2][0][1])
            if L is None or not L or L[0] != ['row']:
                return None
            return L[1:]
        return None

    unit: set = set()
    for f in fs:
        if f[0] == 'eq' and ('const', '1') in f[1] and len(f[1]) == 2:
            other = next(iter(f[1] - {('const', '1')}))
            d = dim(other)
            if isinstance(d, list) and len(d) == 1 and d != ['ANY3']:
                unit.add(d[0])
    memo.clear()
    L = lay(t)
    if L is None:
        return None
    L = [[f for f in ax if f not in unit] for ax in L]
    return [ax for ax in L if ax], unit


def _peel_layout(t):
    """Strips wrappers that only rearrange elements: T(x) / x.T / x.transpose(..) / x.reshape(..) / x.swapaxes(..) / x.squeeze(..) /
    jnp.transpose|reshape|moveaxis|swapaxes|squeeze(x, ..)."""
    while isinstance(t, tuple) and t:
        if t[0] == 'attr' and t[2] in ('T', 'mT'):
            t = t[1]
        elif t[0] == 'T' and len(t) == 2:
            t = t[1]
        elif t[0] == 'call' and isinstance(t[1], tuple) and t[1][0] == 'attr' and t[1][2] in ('transpose', 'reshape', 'swapaxes', 'squeeze') and t[1][1] not in (('var', 'jnp'), ('var', 'np')):
            t = t[1][1]
        elif t[0] == 'call' and isinstance(t[1], tuple) and t[1][0] == 'attr' and t[1][1] in (('var', 'jnp'), ('var', 'np')) and t[1][2] in ('transpose', 'reshape', 'moveaxis', 'swapaxes', 'squeeze') and t[2]:
            t = t[2][0]
        else:
            break
    return t


def _ret_env(fn: ast.FunctionDef):
    out = []
    for p in function_paths(fn):
        if p.exit == 'return':
            out.append((p, path_env(p)))
    return out


def run(ctx, ck) -> None:
    world, table = ctx.world, ctx.table
    ck.trust('jax_healpy.ang2pix, jnp.einsum, jnp.arccos/arctan2/sqrt', 'the polynomial normaliser of sa/poly.py')
    proj_fn = world.require(f'{PROJ}.create_projection_operator')
    acq_fn = world.require(f'{SAT}.create_acquisition')
    rot_fn = world.require(f'{PROJ}.get_rotation_matrix')
    v2d = world.require(f'{PROJ}.vec2dir')
    if not all(isinstance(f, ast.FunctionDef) for f in (proj_fn, acq_fn, rot_fn, v2d)):
        raise AnalysisError('anchor vanished: projection / acquisition builders')
    land, samp, dirs = (('var', a.arg) for a in proj_fn.args.args[:3])

    # ------------------------------------------------------------------ Q1 chain
    paths = _ret_env(proj_fn)
    ck.floor('Q1', len(paths), 2, 'paths of create_projection_operator')
    for i, (p, e) in enumerate(paths):
        t = term(p.node.value, e)
        inst = f'projection path {i + 1}'
        chain = _flatten_matmul(t)
        if len(chain) != 3 or not all(c[0] == 'call' for c in chain):
            ck.bad('Q1', proj_fn, f'the projection is not a product of three operators: {show(t)[:200]}', instance=inst + ' chain')
            continue
        rotation, index, ravel = chain
        idx = index[2][0] if index[2] else None
        base = idx[1][1] if idx is not None and idx[0] == 'call' and idx[1][0] == 'attr' and idx[1][2] == 'reshape' else idx
        # the same with x.squeeze(axis=1) / x.squeeze(1): the directions axis is dropped (squeeze refuses an axis that is not of size one)
        if base is idx and idx is not None and idx[0] == 'call' and idx[1][0] == 'attr' and idx[1][2] == 'squeeze' and (idx[2] == (('const', '1'),) or dict(idx[3]).get('axis') == ('const', '1')):
            base = idx[1][1]
        # x.squeeze() without an axis drops *every* axis of size one (a single detector, a single sample), not only the directions
        if base is idx and idx is not None and idx[0] == 'call' and idx[1][0] == 'attr' and idx[1][2] == 'squeeze' and not idx[2] and not idx[3]:
            ck.bad('Q1', proj_fn, 'the directions axis is removed with .squeeze() without an axis: with a single detector or a single sample those axes are dropped as well, and the time-ordered data is no longer '
                   'indexed by (detector, sample)', instance=inst + ' squeeze', semantic=True)
            base = idx[1][1]
        reshaped = base is not idx
        ang = base[2][0][1] if base is not None and base[0] == 'call' and base[1] == ('attr', land, 'world2index') and len(base[2]) == 2 and base[2][0][0] == 'item' else None
        ok_idx = ang is not None and base[2] == (('item', ang, 0), ('item', ang, 1)) and ang[0] == 'call' and ang[1] == ('var', 'vec2dir') and len(ang[2]) == 1 and ang[2][0][0] == 'star'
        rearranged = False
        layout_verdict = None  # (ok, text) when the element order of a non-standard index expression is followed exactly
        if not ok_idx and idx is not None:
            from ..terms import facts as _path_facts

            try:
                lv = _index_layout(idx, land, samp, dirs, _path_facts(p))
            except _Misaligned as exc:
                layout_verdict = (False, str(exc))
            else:
                if lv is not None:
                    got_l, unit = lv
                    want_l = [ax for ax in (['det'], ['dir'], ['smp']) if ax[0] not in unit]
                    text_l = '(' + ', '.join('*'.join(ax) for ax in got_l) + ')'
                    layout_verdict = (got_l == want_l, f'the indices are laid out as {text_l}, the time-ordered data as (' + ', '.join(ax[0] for ax in want_l) + ')')
        if layout_verdict is not None:
            ck.expect('Q1', layout_verdict[0], proj_fn, 'following every element through the einsum / transpositions / reshapes: the indices are world2index(*vec2dir(*R . coords)) laid out as (detector, direction, sample)'
                      + (' with the unit direction axis removed' if 'dir' not in layout_verdict[1].split(' as ')[-1] else ''),
                      f'{layout_verdict[1]}: every sample reads the pixel of another (detector, direction) pair', instance=inst + ' indices', semantic=True)
            ck.expect('Q3', layout_verdict[0] or 'ROW' not in layout_verdict[1], proj_fn, 'the contraction pairs the matrix column with the coordinate axis; rows, detectors, directions and samples are kept (followed through the rearranged operands)',
                      f'{layout_verdict[1]}', instance=inst + ' einsum', semantic=True)
        elif not ok_idx:
            # the same content under layout-only wrappers (.T, transpose, reshape, swapaxes, moveaxis, squeeze): what is computed is
            # recognised, *where each value lands* is a question about element order that this written-form clause cannot answer
            core = _peel_layout(idx)
            ang2 = core[2][0][1] if core is not None and core[0] == 'call' and core[1] == ('attr', land, 'world2index') and len(core[2]) == 2 and core[2][0][0] == 'item' else None
            if core is not idx and ang2 is not None and core[2] == (('item', ang2, 0), ('item', ang2, 1)) and ang2[0] == 'call' and ang2[1] == ('var', 'vec2dir') and len(ang2[2]) == 1 and ang2[2][0][0] == 'star':
                rearranged = True
                ang = ang2
        if layout_verdict is not None:
            pass
        elif rearranged:
            ck.incomplete('Q1', proj_fn, f'the sampled indices are world2index(*vec2dir(*rotated)) rearranged by transpositions / reshapes ({show(idx)[:120]}): whether every index stays at its '
                          '(detector, direction, sample) position is not decided by this clause', instance=inst + ' indices')
        else:
            ck.expect('Q1', ok_idx, proj_fn, 'indices = landscape.world2index(*vec2dir(*rotated))' + (' with the unit direction axis squeezed out' if reshaped else ''),
                      f'the sampled indices are {show(idx)[:160]}', instance=inst + ' indices')
        es = ang[2][0][1] if (ok_idx or rearranged) else None
        if layout_verdict is not None:
            pass
        elif rearranged:
            rot_m = ('call', ('var', 'get_rotation_matrix'), (samp,), ())
            known = es is not None and es[0] == 'call' and es[1] == ('attr', ('var', 'jnp'), 'einsum') and len(es[2]) == 3 and es[2][1] == rot_m and es[2][2] == ('attr', dirs, 'coords')
            if not known:
                ck.incomplete('Q3', proj_fn, f'the rotation is applied to rearranged coordinates ({show(es)[:120]}): the pairing of the contraction with the rearranged layout is not decided by this clause', instance=inst + ' einsum')
                struct = None
                continue
        rot_m = ('call', ('var', 'get_rotation_matrix'), (samp,), ())
        ok_es = es is not None and es[0] == 'call' and es[1] == ('attr', ('var', 'jnp'), 'einsum') and len(es[2]) == 3 and es[2][1] == rot_m and es[2][2] == ('attr', dirs, 'coords')
        subs = eval(es[2][0][1]).replace(' ', '') if ok_es and es[2][0][0] == 'const' else ''
        ok_subs = _einsum_ok(subs)
        if layout_verdict is None:
          ck.expect('Q3', ok_es and ok_subs, proj_fn, f'rotated = einsum({subs!r}, rotation matrices, detector coords): the matrix column index is contracted with the coordinate index; rows, detectors, directions, samples kept',
                    f'the rotation is applied as {show(es)[:120]}: the contraction does not pair the matrix column with the coordinate axis of the directions (or transposes the matrix)', instance=inst + ' einsum')
        struct = ('call', ('attr', ('call', ('attr', ('var', 'StokesPyTree'), 'class_for'), (('attr', land, 'stokes'),), ()), 'structure_for'), (('attr', idx, 'shape'), ('attr', land, 'dtype')), ())
        want_ravel = ('call', ('var', 'RavelOperator'), (), (('in_structure', ('attr', land, 'structure')),))
        want_index = ('call', ('var', 'IndexOperator'), (idx,), (('in_structure', ('OUT', want_ravel)),))
        want_rot = ('call', ('var', 'QURotationOperator'), (('attr', samp, 'pa'), struct), ())
        ck.expect('Q1', (rotation, index, ravel) == (want_rot, want_index, want_ravel), proj_fn, 'projection = R(samplings.pa on the time-stream structure) @ Index(indices on the ravelled map) @ Ravel(landscape structure)',
                  f'the projection chain is {show(t)[:260]}', instance=inst + ' chain')
    kinds = all_mv(ctx)
    for name, want_k in (('IndexOperator', 'Select'), ('RavelOperator', 'Perm')):
        s = kinds.get(table.by_name(name).qual)
        ck.expect('Q1', s is not None and isinstance(s.value, Lin) and s.value.k == want_k, s.fn if s else name, f'{name} acts on every Stokes component alike (kind {want_k}): the Stokes action of the chain is the Mueller product',
                  f'{name}.mv is not a component-wise {want_k}', instance=f'{name} component-wise')
    a_paths = _ret_env(acq_fn)
    aland, asamp, adirs = (('var', a.arg) for a in acq_fn.args.args[:3])
    for i, (p, e) in enumerate(a_paths):
        t = term(p.node.value, e)
        projc = ('call', ('var', 'create_projection_operator'), (aland, asamp, adirs), ())
        hwp = ('call', ('var', 'HWPOperator'), (('OUT', projc),), ())
        okc = t[0] == 'RED' and t[1][0] == 'binop' and t[1][1] == '@'
        flat = _flatten_matmul(t[1]) if okc else []
        heads = [x[1][1] if x[0] == 'call' and x[1][0] == 'var' else (x[1][2] if x[0] == 'call' and x[1][0] == 'attr' else '?') for x in flat]
        ck.expect('Q1', okc and len(flat) == 3 and flat[1] == hwp and flat[2] == projc and (flat[0][0] == 'call' and 'LinearPolarizerOperator' in show(flat[0][1])), acq_fn,
                  'acquisition = reduce(polariser @ HWP(on the projection output) @ projection)', f'the acquisition chain is {show(t)[:200]}', instance=f'acquisition path {i + 1} chain')

    # ------------------------------------------------------------------ Q2 formula
    pol: Polarimetry = ctx.cache.get('polarimetry') or Polarimetry(world, table)
    ctx.cache['polarimetry'] = pol
    psi = angle('psi')
    n = 0
    for kind in pol.kinds:
        L = pol.letters(kind)
        try:
            P = pol.matrix(pol.make(pol.plr), kind, 'P')
            H = pol.matrix(pol.make(pol.hwp), kind, 'H')
            R = pol.matrix(pol.make(pol.rot, psi), kind, 'R')
        except LossyCoefficient as exc:
            ck.incomplete('Q2', acq_fn, f'the exact matrices are not defined for every data dtype: {exc}', instance=f'kind {L}')
            continue
        except (NonLinear, InterpRaise) as exc:
            ck.bad('Q2', acq_fn, f'cannot derive the matrices on {L}: {exc}', instance=f'kind {L}')
            continue
        except Incomplete as exc:
            ck.incomplete('Q2', acq_fn, f'{exc.site}: {exc.why}', instance=f'kind {L}')
            continue
        n += 1
        c, s = poly_cos(psi.scale(2)), poly_sin(psi.scale(2))
        full = {'i': Poly.const(Fraction(1, 2)), 'q': c.scale(Fraction(1, 2)), 'u': (-s).scale(Fraction(1, 2)), 'v': Poly()}
        want = Matrix(['d'], [x.lower() for x in L], [[full[x.lower()] for x in L]])
        got = P @ H @ R
        ck.expect('Q2', got == want, acq_fn, f'P H R(psi) = (I + Q cos 2psi - U sin 2psi)/2 restricted to {L}, for all psi',
                  f'on {L} the derived acquisition row is {got}, the model is {want}', instance=f'kind {L} formula')
        reduced = P @ R
        ck.expect('Q2', (P @ H @ R) == (P @ oracle_hwp(L) @ R) and reduced == (P @ oracle_hwp(L) @ oracle_hwp(L) @ R), acq_fn, 'the HWP is absorbed by the polariser only because P H = P on this kind (C15.M6)',
                  'P H != P', instance=f'kind {L} absorption', nontrivial=False)
    ck.floor('Q2', n, 4, 'Stokes kinds')

    # ------------------------------------------------------------------ Q10 P^T P is the hit-count diagonal on every Stokes component only if the
    # transposed rotation is the inverse rotation (R^T R = I for all angles): shared with C15.M4 / M6
    from . import c15 as _c15

    _sub15 = type(ck)(ck.pid)
    _c15.run(ctx, _sub15)
    for _o in _sub15.obs:
        if _o.rule.endswith('M4') or (_o.rule.endswith('M6') and 'orthogonality' in _o.construct):
            _o.rule = f'{ck.pid}.Q10'
            ck.obs.append(_o)
    ck.floor('Q10', sum(1 for o in ck.obs if o.rule.endswith('Q10')), 8, 'transposed-rotation identities')

    # ------------------------------------------------------------------ Q3 rotation literal
    interp = pol.interp
    al, be, ga = angle('phi'), angle('theta'), angle('pa')
    sobj = SymObj(table.by_name('Sampling'), {'phi': al, 'theta': be, 'pa': ga})
    try:
        lit = interp.call_function(rot_fn, [sobj], {})
        rows = [[x for x in r] for r in lit]
        ok_shape = len(rows) == 3 and all(len(r) == 3 and all(isinstance(x, Poly) for x in r) for r in rows)
    except (Incomplete, InterpRaise, TypeError) as exc:
        rows, ok_shape = [], False
        ck.incomplete('Q3', rot_fn, f'cannot evaluate the rotation literal: {exc}', instance='literal')
    if ok_shape:
        M = Matrix(['x', 'y', 'z'], ['x', 'y', 'z'], rows)

        def rz(a):
            c, s = poly_cos(a), poly_sin(a)
            return Matrix(['x', 'y', 'z'], ['x', 'y', 'z'], [[c, -s, Poly()], [s, c, Poly()], [Poly(), Poly(), Poly.const(1)]])

        def ry(a):
            c, s = poly_cos(a), poly_sin(a)
            return Matrix(['x', 'y', 'z'], ['x', 'y', 'z'], [[c, Poly(), s], [Poly(), Poly.const(1), Poly()], [-s, Poly(), c]])

        want = rz(al) @ ry(be) @ rz(ga)
        ck.expect('Q3', M == want, rot_fn, 'the 3x3 literal equals Rz(phi) Ry(theta) Rz(pa) entry by entry, for all angles (Z-Y-Z Euler convention)',
                  f'the rotation literal {M} is not Rz(phi) Ry(theta) Rz(pa) = {want}', instance='literal = Rz Ry Rz', semantic=True)
        ck.expect('Q3', (M.T @ M) == Matrix.identity(['x', 'y', 'z']), rot_fn, 'the literal is orthogonal (M^T M = I)', 'the rotation literal is not orthogonal', instance='literal orthogonal', semantic=True)

    # ------------------------------------------------------------------ Q4 angles
    paths = _ret_env(v2d)
    ok = False
    t = None
    if len(paths) == 1:
        p, e = paths[0]
        x, y, z = (('var', a.arg) for a in v2d.args.args[:3])
        t = term(p.node.value, e)
        sq = lambda v: ('binop', '**', v, ('const', '2'))  # noqa: E731
        r = ('call', ('attr', ('var', 'jnp'), 'sqrt'), (('binop', '+', ('binop', '+', sq(x), sq(y)), sq(z)),), ())
        want = ('tuple', ('call', ('attr', ('var', 'jnp'), 'arccos'), (('binop', '/', z, r),), ()), ('call', ('attr', ('var', 'jnp'), 'arctan2'), (y, x), ()))
        ok = t == want
    ck.expect('Q4', ok, v2d, 'theta = arccos(z / |v|), phi = arctan2(y, x), returned as (theta, phi)', f'vec2dir returns {show(t)[:160]}', instance='vec2dir')
    det = table.by_name('DetectorArray')
    init = det.own.get('__init__')
    ok = False
    order: list = []
    len_name = None
    if isinstance(init, ast.FunctionDef):
        e = path_env(Path([('stmt', st) for st in init.body if isinstance(st, (ast.Assign, ast.AugAssign))]))
        x, y, z = (('var', a.arg) for a in init.args.args[1:4])
        sq = lambda v: ('binop', '**', v, ('const', '2'))  # noqa: E731
        length = ('call', ('attr', ('var', 'np'), 'sqrt'), (('binop', '+', ('binop', '+', sq(x), sq(y)), sq(z)),), ())
        len_name = next((k for k, v in e.items() if v == length), None)
        div = next((st for st in init.body if isinstance(st, ast.AugAssign) and isinstance(st.op, ast.Div) and isinstance(st.target, ast.Name) and isinstance(st.value, ast.Name) and st.value.id == len_name), None)
        arr = div.target.id if div is not None else None
        order = [ast.unparse(st.targets[0]) for st in init.body if isinstance(st, ast.Assign) and arr and ast.unparse(st.targets[0]).startswith(f'{arr}[')]
        vals = [ast.unparse(st.value) for st in init.body if isinstance(st, ast.Assign) and arr and ast.unparse(st.targets[0]).startswith(f'{arr}[')]
        stored = any(isinstance(st, ast.Assign) and ast.unparse(st.targets[0]) == f'{init.args.args[0].arg}.coords' and arr in ast.unparse(st.value) for st in init.body) if arr else False
        ok = div is not None and order == [f'{arr}[0]', f'{arr}[1]', f'{arr}[2]'] and vals == [a.arg for a in init.args.args[1:4]] and stored
    written_as_known = isinstance(init, ast.FunctionDef) and len(order) == 3 and len_name is not None
    stacked = _stacked_directions(init) if isinstance(init, ast.FunctionDef) and not (ok or written_as_known) else None
    if stacked is not None:
        verdict, why = stacked
        if verdict == 'unknown':
            ck.incomplete('Q4', init, f'the detector directions are stacked from components whose placement is not recognised ({why}): whether (x, y, z)/|v| is stored in that order is not decided', instance='unit directions')
        else:
            ck.expect('Q4', verdict == 'ok', init, 'detector directions are stored as the stack of x, y, z (each broadcast to the common shape) divided by sqrt(x^2 + y^2 + z^2)',
                      f'DetectorArray does not store the unit vectors (x, y, z)/|v| broadcast against each other: {why}', instance='unit directions', semantic=True)
    elif ok or written_as_known:
        ck.expect('Q4', ok, init or det.node, 'detector directions are stored as (x, y, z) / sqrt(x^2 + y^2 + z^2)', 'DetectorArray no longer stores the unit vectors (x, y, z)/|v| in that order', instance='unit directions')
    else:
        ck.incomplete('Q4', init or det.node, 'the detector directions are not built component by component into one array divided by its norm: whether (x, y, z)/|v| is stored in that order is not decided', instance='unit directions')

    # ------------------------------------------------------------------ Q5
    flow = InitFlow(world, table)
    rep = flow.analyse(table.by_name('IndexOperator'))
    ck.expect('Q5', not rep.problems, rep.init or 'IndexOperator', 'the sampling operator is constructible without an explicit output structure (C12.X2)',
              f'the sampling operator cannot be constructed: {rep.problems[0].detail if rep.problems else ""}', instance='sampling constructible')
    inv = table.find(f'{RULES}.InverseBinaryRule')
    base_mod = module_of(table.get(f'{RULES}.AbstractBinaryRule').node)
    ck.expect('Q5', inv is not None and inv.module is base_mod, inv.node if inv else RULES, 'InverseBinaryRule lives in the module that defines the registry: it is registered before every other rule, so R^T R is deleted before the angles are merged',
              'InverseBinaryRule is not defined next to the registry: R^T R may be merged into R(0) first, and P^T P no longer reduces to the hit-count diagonal', instance='rule order')

    # ------------------------------------------------------------------ Q7 pixel lookup: structural clauses shared with C17
    from . import c17

    sub = type(ck)(ck.pid)
    c17.run(ctx, sub)
    for o in sub.obs:
        if o.rule.endswith(('P1', 'P2', 'P3', 'P5', 'P7')):
            o.rule = f'{ck.pid}.Q7'
            ck.obs.append(o)
    ck.floor('Q7', sum(1 for o in ck.obs if o.rule.endswith('Q7')), 3, 'pixel-lookup obligations')

    # ------------------------------------------------------------------ Q8 P^T P reduces to the hit-count diagonal (shared with C01.R-PTP)
    from . import c01

    sub = type(ck)(ck.pid)
    c01._r_ptp(sub, world, table)
    for o in sub.obs:
        if o.rule.endswith('R-PTP'):
            o.rule = f'{ck.pid}.Q8'
            ck.obs.append(o)
    ck.floor('Q8', sum(1 for o in ck.obs if o.rule.endswith('Q8')), 5, 'obligations of the P^T P rewrite')

    # ------------------------------------------------------------------ Q9 the pointing container hands back the angles it was given
    _plain_record(ck, world, table, 'furax.samplings.Sampling', ('theta', 'phi', 'pa'))

    # ------------------------------------------------------------------ Q6 structures across every @
    _q6(ck, world, table, proj_fn, acq_fn)


def _plain_record(ck, world, table, qual: str, want: tuple[str, ...]) -> None:
    """The class is a dataclass whose generated constructor stores every argument unchanged and whose attribute reads
    are plain: no __init__/__post_init__/__setattr__/__getattr__/__getattribute__, no property or method shadowing a field,
    no default.  (theta, phi, psi) enter the Euler rotation as given; psi is only 2 pi-periodic there.)"""
    cls = table.find(qual)
    if cls is None:
        raise AnalysisError(f'anchor vanished: {qual}')
    node = cls.node
    decos = {world.qualify(cls.module, d.func if isinstance(d, ast.Call) else d) for d in node.decorator_list}
    is_dc = bool(decos & {'dataclasses.dataclass', 'jax_dataclasses.pytree_dataclass', 'jax_dataclasses._dataclasses.pytree_dataclass'})
    fields = [st.target.id for st in node.body if isinstance(st, ast.AnnAssign) and isinstance(st.target, ast.Name)]
    defaults = [st.target.id for st in node.body if isinstance(st, ast.AnnAssign) and isinstance(st.target, ast.Name) and st.value is not None]
    hooks = sorted(n for n in ('__init__', '__new__', '__setattr__', '__getattr__', '__getattribute__', '__setstate__') if any(n in k.own for k in cls.mro or [cls]))
    shadows = sorted(n for n in fields if any(isinstance(k.own.get(n), ast.FunctionDef) for k in cls.mro or [cls]))
    # a validating __post_init__ is fine; one that stores into a field is not (frozen dataclasses do it via object.__setattr__)
    writers = []
    for n in ast.walk(node):
        if isinstance(n, ast.Call) and (
            (isinstance(n.func, ast.Attribute) and n.func.attr == '__setattr__') or (isinstance(n.func, ast.Name) and n.func.id == 'setattr')
        ) and len(n.args) >= 2 and not (isinstance(n.args[-2], ast.Constant) and n.args[-2].value not in want):
            writers.append(site(n))
        if isinstance(n, ast.Attribute) and isinstance(n.ctx, (ast.Store, ast.Del)) and n.attr in want:
            writers.append(site(n))
        if isinstance(n, ast.Attribute) and n.attr == '__dict__' and enclosing(n, (ast.FunctionDef,)) is not None:
            writers.append(site(n))
    good = is_dc and tuple(fields) == want and not defaults and not hooks and not shadows and not writers
    why = []
    if not is_dc:
        why.append('it is no longer a dataclass')
    if tuple(fields) != want:
        why.append(f'its fields are {fields}, expected {list(want)} in this order (callers pass them positionally)')
    if defaults:
        why.append(f'fields {defaults} have defaults')
    if hooks:
        why.append(f'it defines {hooks}, which runs on construction or attribute access and can replace the stored angles')
    if shadows:
        why.append(f'{shadows} are shadowed by methods/properties')
    if writers:
        why.append(f'a method of the class stores into a field ({writers[0]})')
    ck.expect('Q9', good, node, f'{cls.name} is a plain dataclass of {list(want)}: the generated constructor stores each argument unchanged and reads are plain attribute reads',
              f'{cls.name} no longer hands back the angles it was given: ' + '; '.join(why) + ' (the projection uses psi as the third Euler angle, which is 2 pi-periodic, '
              'and 2 psi for the polarisation rotation: any normalisation of the stored angles changes the pointing of off-axis detectors)', instance='sampling container')


def _einsum_ok(subs: str) -> bool:
    if '->' not in subs or ',' not in subs:
        return False
    ins, out = subs.split('->')
    a, b = ins.split(',')
    if len(a) != 3 or len(b) != 3 or len(out) != 4:
        return False
    row, col, smp = a
    # matrix (row, col, sample) . dirs (coord, det, dir): col contracted with coord
    return b[0] == col and col not in out and out[0] == row and out[3] == smp and out[1:3] == b[1:] and len(set(a + b[1:])) == 5


def _flatten_matmul(t):
    if t[0] == 'binop' and t[1] == '@':
        return _flatten_matmul(t[2]) + _flatten_matmul(t[3])
    return [t]


# ---------------------------------------------------------------------- Q6
def _struct_for(t):
    """class_for(K).structure_for(shape, dtype) -> ('struct', K, shape, dtype)"""
    if t[0] == 'call' and t[1][0] == 'attr' and t[1][2] == 'structure_for' and t[1][1][0] == 'call' and t[1][1][1] == ('attr', ('var', 'StokesPyTree'), 'class_for'):
        kind = t[1][1][2][0]
        args = list(t[2])
        kws = dict(t[3])
        shape = args[0] if args else kws.get('shape')
        dtype = args[1] if len(args) > 1 else kws.get('dtype', ('default-dtype',))
        return ('struct', kind, shape, dtype)
    return None


def _norm_struct(t, world, table):
    s = _struct_for(t)
    if s is not None:
        return s
    if t[0] == 'attr' and t[2] == 'structure':
        # StokesLandscape.structure = class_for(self.stokes).structure_for(self.shape, self.dtype)
        sl = table.by_name('StokesLandscape')
        fn = sl.own.get('structure')
        if isinstance(fn, ast.FunctionDef):
            rets = [p for p in function_paths(fn) if p.exit == 'return']
            if len(rets) == 1:
                e = path_env(rets[0])
                rt = term(rets[0].node.value, e)
                S = ('var', fn.args.args[0].arg)
                from ..terms import subst

                rt = subst(rt, {S: t[1]})
                s = _struct_for(rt)
                if s is not None:
                    return s
    if t[0] == 'OUT':
        io = _io(t[1], world, table)
        if io is not None:
            return io[1]
    if t[0] == 'IN':
        io = _io(t[1], world, table)
        if io is not None:
            return io[0]
    return ('opaque', t)


def _io(op, world, table):
    """(IN, OUT) structure terms of an operator term."""
    if op[0] == 'binop' and op[1] == '@':
        l, r = _io(op[2], world, table), _io(op[3], world, table)
        if l is None or r is None:
            return None
        return (r[0], l[1])
    if op[0] == 'RED':
        return _io(op[1], world, table)
    if op[0] == 'call' and op[1][0] == 'var':
        name = op[1][1]
        args, kws = list(op[2]), dict(op[3])
        if name in ('QURotationOperator',):
            s = _norm_struct(args[1] if len(args) > 1 else kws.get('_in_structure'), world, table)
            return (s, s)
        if name in ('HWPOperator',):
            s = _norm_struct(args[0], world, table)
            return (s, s)
        if name in ('LinearPolarizerOperator',):
            s = _norm_struct(args[0], world, table)
            return (s, ('detector', s))
        if name == 'RavelOperator':
            s = _norm_struct(kws.get('in_structure', args[2] if len(args) > 2 else None), world, table)
            if s[0] == 'struct':
                return (s, ('struct', s[1], ('raveled', s[2]), s[3]))
            return (s, ('ravel', s))
        if name == 'IndexOperator':
            s = _norm_struct(kws.get('in_structure'), world, table)
            idx = args[0]
            if s[0] == 'struct' and s[2][0] == 'raveled':
                return (s, ('struct', s[1], ('attr', idx, 'shape'), s[3]))
            return (s, ('index', s, idx))
        if name == 'create_projection_operator':
            fn = world.lookup('furax.projections.create_projection_operator')
            outs = []
            from ..terms import subst

            for p in function_paths(fn):
                if p.exit != 'return':
                    continue
                rt = term(p.node.value, path_env(p))
                mapping = {('var', a.arg): v for a, v in zip(fn.args.args, args)}
                io = _io(subst(rt, mapping), world, table)
                if io is None:
                    return None
                outs.append(io)
            if outs and all(o == outs[0] for o in outs) or outs:
                # path-dependent shapes are kept symbolic through the shared `indices` term; use the join
                return ('paths', tuple(o[0] for o in outs)), ('paths', tuple(o[1] for o in outs))
    if op[0] == 'call' and op[1][0] == 'attr' and op[1][2] == 'create' and op[1][1][0] == 'var':
        args, kws = list(op[2]), dict(op[3])
        kind = kws.get('stokes', args[2] if len(args) > 2 else ('const', "'IQU'"))
        shape = args[0] if args else kws.get('shape')
        dtype = kws.get('dtype', args[1] if len(args) > 1 else ('default-dtype',))
        s = ('struct', kind, shape, dtype)
        if op[1][1][1] == 'LinearPolarizerOperator':
            return (s, ('detector', s))
        return (s, s)
    return None


def _compare(a, b):
    """True equal, False definitely different for some configuration, None unknown."""
    if a == b:
        return True, ''
    if a[0] == 'paths' or b[0] == 'paths':
        pa = a[1] if a[0] == 'paths' else (a,) * len(b[1])
        pb = b[1] if b[0] == 'paths' else (b,) * len(pa)
        if len(pa) != len(pb):
            return None, 'different path counts'
        res = [_compare(x, y) for x, y in zip(pa, pb)]
        if any(r[0] is False for r in res):
            return False, next(r[1] for r in res if r[0] is False)
        if all(r[0] is True for r in res):
            return True, ''
        return None, next(r[1] for r in res if r[0] is None)
    if a[0] == 'struct' and b[0] == 'struct':
        why = []
        if a[1] != b[1]:
            why.append(f'Stokes kind {show(a[1])} vs {show(b[1])}')
        if a[3] != b[3]:
            da, db = a[3], b[3]
            const_a = da == ('default-dtype',) or da[0] in ('const',) or (da[0] == 'attr' and da[1] in (('var', 'np'), ('var', 'jnp')))
            const_b = db == ('default-dtype',) or db[0] in ('const',) or (db[0] == 'attr' and db[1] in (('var', 'np'), ('var', 'jnp')))
            if const_a != const_b:
                return False, f'dtype {show(da) if da != ("default-dtype",) else "the default float64"} is a constant on one side and the free parameter {show(db if const_a else da)} on the other: the structures differ whenever that parameter is not the constant'
            why.append(f'dtype {show(da)} vs {show(db)}')
        if a[2] != b[2]:
            ra, rb = _rank(a[2]), _rank(b[2])
            if ra is not None and rb is not None and ra != rb:
                return False, f'shape {show(a[2])} has rank {ra}, shape {show(b[2])} has rank {rb}'
            why.append(f'shape {show(a[2])} vs {show(b[2])}')
        if not why:
            return True, ''
        return None, '; '.join(why)
    return None, f'{show(a)[:80]} vs {show(b)[:80]}'


def _rank(shape):
    if shape[0] == 'tuple':
        return len(shape) - 1
    if shape[0] == 'attr' and shape[2] == 'shape':
        arr = shape[1]
        if arr[0] == 'call' and arr[1][0] == 'attr' and arr[1][2] == 'reshape':
            return len(arr[2]) if not (len(arr[2]) == 1 and arr[2][0][0] == 'tuple') else len(arr[2][0]) - 1
        if arr[0] == 'call' and arr[1][0] == 'attr' and arr[1][2] == 'world2index':
            # world2index keeps the shape of its angle arguments: vec2dir (vmapped over the 3 coordinates) of an einsum result
            a0 = arr[2][0]
            if a0[0] == 'item' and a0[1][0] == 'call' and a0[1][1] == ('var', 'vec2dir') and a0[1][2] and a0[1][2][0][0] == 'star':
                es = a0[1][2][0][1]
                if es[0] == 'call' and es[1] == ('attr', ('var', 'jnp'), 'einsum') and es[2][0][0] == 'const':
                    out = eval(es[2][0][1]).replace(' ', '').split('->')[-1]
                    return len(out) - 1
    return None


def _q6(ck, world, table, proj_fn, acq_fn) -> None:
    n = 0
    for fn in (proj_fn, acq_fn):
        for i, p in enumerate(function_paths(fn)):
            if p.exit != 'return':
                continue
            e = path_env(p)
            seen = set()
            exprs = [st.value for st in p.stmts() if isinstance(st, (ast.Assign, ast.AnnAssign)) and st.value is not None] + [p.node.value]
            for ex in exprs:
                for node in ast.walk(ex):
                    if isinstance(node, ast.BinOp) and isinstance(node.op, ast.MatMult):
                        l, r = term(node.left, e), term(node.right, e)
                        key = (l, r)
                        if key in seen:
                            continue
                        seen.add(key)
                        n += 1
                        lio, rio = _io(l, world, table), _io(r, world, table)
                        inst = f'{fn.name} path {i + 1}: {ast.unparse(node.left)[:30]} @ {ast.unparse(node.right)[:30]}'
                        if lio is None or rio is None:
                            ck.incomplete('Q6', node, f'cannot derive the structures of {ast.unparse(node)[:60]}', instance=inst)
                            continue
                        res, why = _compare(lio[0], rio[1])
                        if res is True:
                            ck.ok('Q6', node, f'in_structure(left) and out_structure(right) are the same term: {show(lio[0] if lio[0][0] != "paths" else lio[0][1][0])[:140]}', instance=inst)
                        elif res is False:
                            ck.bad('Q6', node, f'`{ast.unparse(node)[:70]}` joins structures that differ for some configuration ({why}): the structure check of @ raises there', instance=inst)
                        else:
                            ck.incomplete('Q6', node, f'cannot prove the structures equal: {why}', instance=inst)
    ck.floor('Q6', n, 4, '@ sites in the builders (per path)')


def _stacked_directions(init: ast.FunctionDef):
    """The form `coords = stack([f(x), f(y), f(z)]) / |v|`: ('ok' | 'bad' | 'unknown', why), or None when coords is not written so.
    Each component must be brought to the common shape by broadcasting; numpy.resize / tile / repeat / reshape fill by
    repeating or reinterpreting the flattened values, which differs from broadcasting as soon as a leading axis is expanded."""
    e = path_env(Path([('stmt', st) for st in init.body if isinstance(st, (ast.Assign, ast.AugAssign))]))
    S = init.args.args[0].arg
    x, y, z = (('var', a.arg) for a in init.args.args[1:4])
    sq = lambda v: ('binop', '**', v, ('const', '2'))  # noqa: E731
    length = ('call', ('attr', ('var', 'np'), 'sqrt'), (('binop', '+', ('binop', '+', sq(x), sq(y)), sq(z)),), ())
    stored = None
    for st in init.body:
        if isinstance(st, ast.Assign) and ast.unparse(st.targets[0]) == f'{S}.coords':
            stored = term(st.value, e)
    if stored is None:
        return None
    while stored[0] == 'call' and show(stored[1]) in ('jax.device_put', 'jnp.asarray', 'jnp.array', 'jax.numpy.asarray') and len(stored[2]) >= 1:
        stored = stored[2][0]
    if not (stored[0] == 'binop' and stored[1] == '/' and stored[2][0] == 'call' and show(stored[2][1]) in ('np.array', 'np.stack', 'np.asarray', 'numpy.array', 'numpy.stack') and stored[2][2] and stored[2][2][0][0] in ('list', 'tuple')):
        return None
    if stored[3] != length:
        return 'bad', f'the stack is divided by {show(stored[3])[:80]}, not by sqrt(x^2 + y^2 + z^2)'
    if show(stored[2][1]).endswith('stack') and any(k == 'axis' and v != ('const', '0') for k, v in stored[2][3]):
        return 'unknown', 'stacked along another axis'
    elts = stored[2][2][0][1:]
    if len(elts) != 3:
        return 'bad', f'{len(elts)} components are stacked'
    shape_ok = any(isinstance(st, ast.Assign) and ast.unparse(st.targets[0]) == f'{S}.shape' and term(st.value) == ('attr', ('call', ('attr', ('var', 'np'), 'broadcast'), (x, y, z), ()), 'shape') for st in init.body)
    for want, el in zip((x, y, z), elts):
        if el[0] == 'call' and show(el[1]) in ('np.broadcast_to', 'numpy.broadcast_to', 'jnp.broadcast_to') and len(el[2]) == 2:
            if el[2][0] != want:
                return 'bad', f'component {show(want)} of the stack is {show(el[2][0])}'
            if not (el[2][1] == ('attr', ('var', S), 'shape') and shape_ok):
                return 'unknown', f'{show(el)[:60]}: the target shape is not the broadcast shape of x, y, z'
        elif el[0] == 'call' and show(el[1]).split('.')[-1] in ('resize', 'tile', 'repeat', 'reshape') and el[2] and el[2][0] in (x, y, z):
            return 'bad', (f'{show(el)[:60]} brings the component to the common shape with numpy.{show(el[1]).split(".")[-1]}, which repeats or reinterprets the flattened values: for components given as '
                           '(ndet, 1) and (ndir,) the values land on other detectors than broadcasting puts them')
        else:
            return 'unknown', show(el)[:60]
    return 'ok', ''


def controls(world: World) -> list[Control]:
    return [
        Control('polariser-on-default-dtype', lambda w: edit_def(w, SAT, 'create_acquisition', lambda fn: replace_expr(fn, 'LinearPolarizerOperator(proj.out_structure())', 'LinearPolarizerOperator.create((len(detector_dirs), len(samplings)), stokes=landscape.stokes)')), 'C16.Q6'),
        Control('euler-sign', lambda w: edit_def(w, PROJ, 'get_rotation_matrix', lambda fn: replace_expr(fn, '[-s2 * c3, s2 * s3, c2]', '[s2 * c3, s2 * s3, c2]')), 'C16.Q3'),
        Control('einsum-transposed', lambda w: edit_def(w, PROJ, 'create_projection_operator', lambda fn: replace_expr(fn, "'ijk, jlm -> ilmk'", "'jik, jlm -> ilmk'")), 'C16.Q3'),
        Control('theta-from-x', lambda w: edit_def(w, PROJ, 'vec2dir', lambda fn: replace_expr(fn, 'jnp.arccos(z / r)', 'jnp.arccos(x / r)')), 'C16.Q4'),
        Control('rotation-on-wrong-angle', lambda w: edit_def(w, PROJ, 'create_projection_operator', lambda fn: replace_expr(fn, 'QURotationOperator(samplings.pa, tod_structure)', 'QURotationOperator(samplings.phi, tod_structure)')), 'C16.Q1'),
    ]
